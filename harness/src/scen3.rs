//! Scenarios: interrupt transparency (C10), OS trap contracts (C11), real vs. virtual
//! traps (C12), device table histories (C32), lock contention on keyboard/display (C33).

use crate::machine::{set_pair_tag, word, IntCmd, M};
use crate::scen::{assemble_src, chance, interesting, pick, INT_HANDLER};
use crate::{Args, Out};
use lc3_ensemble::sim::mem::{MachineInitStrategy, Word};
use lc3_ensemble::sim::{InternalRegister, MemAccessCtx, SimFlags};
use rand::rngs::StdRng;
use rand::{Rng, SeedableRng};

fn rng_for(a: &Args, salt: u64) -> StdRng { StdRng::seed_from_u64(a.seed.wrapping_mul(0x9E3779B97F4A7C15) ^ salt) }
fn known(v: u16, real: bool, dbg: bool) -> SimFlags {
    SimFlags { strict: false, use_real_traps: real, machine_init: MachineInitStrategy::Known { value: v }, debug_frames: dbg, ignore_privilege: false }
}

// ---------------------------------------------------------------------------
// C10
const T_PROG: &str = "
.orig x3000
      LD R6, USP
      AND R1, R1, #0
      ADD R1, R1, #3
LOOP  ADD R2, R2, #5
      ST R2, CNT
      ADD R6, R6, #-1
      STR R2, R6, #0
      LD R0, CH
      OUT
      LDR R3, R6, #0
      ADD R6, R6, #1
      ADD R1, R1, #-1
      BRp LOOP
      NOT R4, R2
      HALT
USP   .fill xFD00
CH    .fill x0041
CNT   .blkw 1
.end
";

/// A handler that itself prints (a nested TRAP at the handler's priority): '#'.  The output of the
/// interrupted run is compared with the uninterrupted one after removing the handler's own character.
const INT_HANDLER_OUT: &str = "
.orig x1100
H2    ADD R6, R6, #-2
      STR R0, R6, #0
      STR R7, R6, #1
      LD R0, HCH
      OUT
      LDR R0, R6, #0
      LDR R7, R6, #1
      ADD R6, R6, #2
      RTI
HCH   .fill x0023
.end
";
thread_local! { static HANDLER_PRINTS: std::cell::Cell<bool> = const { std::cell::Cell::new(false) }; }
/// A program that calls PUTS and uses R0 and R1 afterwards: an interrupt anywhere inside the service routine
/// (its prologue, its loop, the nested PUTC, its epilogue) must leave the caller's registers alone.
const T_PROG_PUTS: &str = "
.orig x3000
      LD R6, USP
      AND R1, R1, #0
      ADD R1, R1, #7
      ADD R2, R1, #3
      LEA R0, MSG
      PUTS
      ADD R3, R0, #0
      ADD R4, R1, #0
      ST R3, CNT
      HALT
USP   .fill xFD00
MSG   .stringz \"Hi\"
CNT   .blkw 1
.end
";
thread_local! { static PROG_PUTS: std::cell::Cell<bool> = const { std::cell::Cell::new(false) }; }
/// Number of instruction boundaries of the uninterrupted run of a program (silent run, nothing logged).
fn boundaries_of(src: &str) -> u32 {
    let mut sim = lc3_ensemble::sim::Simulator::new(known(0, false, false));
    sim.load_obj_file(&assemble_src(src)).unwrap();
    sim.device_handler.set_display(lc3_ensemble::sim::device::BufferedDisplay::default());
    let mut n = 0u32;
    while n < 2000 {
        if sim.pc >= 0x3000 && sim.mem[sim.pc].get() == 0xF025 { break; }
        if sim.step_in().is_err() { break; }
        n += 1;
    }
    n
}

fn transparent_run(out: &mut Out, run: u64, flags: SimFlags, psr: u16, plan: &[(u32, IntCmd)], kbd_plan: &[(u32, u8)], kbd_ie: bool, timer: Option<(u32, u8)>) {
    let mut m = M::new(run, flags, out);
    let prints = HANDLER_PRINTS.with(|h| h.get());
    let handler = assemble_src(if prints { INT_HANDLER_OUT } else { INT_HANDLER });
    let prog = assemble_src(if PROG_PUTS.with(|p| p.get()) { T_PROG_PUTS } else { T_PROG });
    m.load(out, &handler);
    m.load(out, &prog);
    let hv = if prints { 0x1100 } else { 0x1000 };
    m.filter_disp = if prints { Some(0x23) } else { None };
    m.set_mems(out, &[(0x180, word(hv, 0xFFFF)), (0x181, word(hv, 0xFFFF)), (0x190, word(hv, 0xFFFF)), (0x191, word(hv, 0xFFFF))]);
    m.set_psr(out, psr);
    let s1 = m.add_intfn(out);
    let s2 = m.add_intfn(out);
    if let Some((n, p)) = timer { m.add_timer(out, 3, n, n, 0x81, p, true); }
    if kbd_ie { m.write_mem(out, 0xFE00, Word::new_init(0x4000), MemAccessCtx::omnipotent()); }
    let mut step = 0u32;
    loop {
        step += 1;
        let mut c1 = IntCmd::default();
        let mut c2 = IntCmd::default();
        for &(at, c) in plan { if at == step { if c1.k == 0 { c1 = c } else { c2 = c } } }
        m.set_int(s1, c1); m.set_int(s2, c2);
        for &(at, b) in kbd_plan { if at == step { m.keys(out, &[b]); } }
        let r = m.step(out, false, false);
        if r != "ok" || step > 1500 { break; }
        // virtual halt reached: PC rests on the HALT in user space
        if m.sim.pc >= 0x3000 && m.sim.mem[m.sim.pc].get() == 0xF025 && m.sim.verif_prefetch() { break; }
    }
    m.end(out);
}

/// Exhaustive placement of one interrupt over every boundary of the program (all three
/// priorities), pairs of interrupts (competing at one boundary, nested, successive),
/// keyboard and timer interrupts; each paired with the uninterrupted run.
pub fn gen_transparent(a: &Args, out: &mut Out) {
    let mut rng = rng_for(a, 0xD1);
    let thorough = a.thorough();
    let mut run = 1u64;
    set_pair_tag("transparent");
    // number of boundaries of the uninterrupted program
    let nb: u32 = 3 + 3 * 36 + 2 + 6;
    let psrs = [0x8002u16, 0x8302];
    let mut plans: Vec<(u16, Vec<(u32, IntCmd)>, Vec<(u32, u8)>, bool, Option<(u32, u8)>)> = vec![];
    for &psr in &psrs {
        let stride = if thorough { 1 } else { 3 };
        let mut b = 1 + (rng.random_range(0..stride));
        while b <= nb {
            for prio in [1u8, 4, 7] {
                plans.push((psr, vec![(b, IntCmd { k: 1, vect: 0x90, prio })], vec![], false, None));
            }
            b += stride;
        }
    }
    // two interrupts: same boundary (competing), nested (second arrives inside the handler), successive
    let n2 = if thorough { 600 } else { 40 };
    for _ in 0..n2 {
        let b1 = rng.random_range(1..nb);
        let kind = rng.random_range(0..3);
        let b2 = match kind { 0 => b1, 1 => b1 + rng.random_range(1..12), _ => b1 + rng.random_range(13..40) };
        let p1 = pick(&mut rng, &[1u8, 4, 7]);
        let p2 = pick(&mut rng, &[1u8, 4, 7, 5]);
        plans.push((pick(&mut rng, &psrs), vec![(b1, IntCmd { k: 1, vect: 0x90, prio: p1 }), (b2, IntCmd { k: 1, vect: 0x91, prio: p2 })], vec![], false, None));
    }
    // keyboard interrupts (handler consumes KBDR) and exact timers
    let n3 = if thorough { 120 } else { 12 };
    for _ in 0..n3 {
        let kb: Vec<(u32, u8)> = (0..rng.random_range(1..4)).map(|_| (rng.random_range(1..nb), rng.random())).collect();
        plans.push((0x8002, vec![], kb, true, None));
        plans.push((0x8002, vec![], vec![], false, Some((rng.random_range(25..90), rng.random_range(1..8u8)))));
    }
    // the same single placements with a handler that prints through the OS (re-entrancy of the service routines)
    let mut nplain = plans.len();
    {
        let stride = if thorough { 1 } else { 2 };
        let mut b = 1;
        while b <= nb { plans.push((0x8002, vec![(b, IntCmd { k: 1, vect: 0x90, prio: 4 })], vec![], false, None)); b += stride; }
    }
    // a program that calls PUTS: one interrupt at EVERY boundary of the run (inside the service routine too), both handlers
    let nputs0 = plans.len();
    {
        let nbp = boundaries_of(T_PROG_PUTS);
        assert!(nbp > 30 && nbp < 400, "PUTS program: unexpected length {nbp}");
        for b in 1..=nbp { plans.push((0x8002, vec![(b, IntCmd { k: 1, vect: 0x90, prio: 4 })], vec![], false, None)); }
    }
    for (idx, (psr, plan, kb, ie, timer)) in plans.into_iter().enumerate() {
        HANDLER_PRINTS.with(|h| h.set(idx >= nplain && idx < nputs0));
        PROG_PUTS.with(|p| p.set(idx >= nputs0));
        let mut flags = known(0, false, chance(&mut rng, 30));
        // (privilege checks off must not change how interrupts enter and leave: stack switch both ways)
        flags.ignore_privilege = chance(&mut rng, 25);
        // run A: the same machine without any interrupt source firing
        transparent_run(out, run, flags, psr, &[], &[], false, None); run += 1;
        // A and B must have identical headers; devices are added after the header in both
        transparent_run_b(out, run, flags, psr, &plan, &kb, ie, timer); run += 1;
    }
    HANDLER_PRINTS.with(|h| h.set(false));
    PROG_PUTS.with(|p| p.set(false));
    nplain = 0; let _ = nplain;
    set_pair_tag("none");
}
fn transparent_run_b(out: &mut Out, run: u64, flags: SimFlags, psr: u16, plan: &[(u32, IntCmd)], kb: &[(u32, u8)], ie: bool, timer: Option<(u32, u8)>) {
    transparent_run(out, run, flags, psr, plan, kb, ie, timer)
}

// ---------------------------------------------------------------------------
// C11
/// Each built-in trap invoked from user code with random strings, registers, condition
/// codes and keyboard queues; `mark` before the TRAP, `trapdone` after its return.
pub fn gen_traps(a: &Args, out: &mut Out) {
    let mut rng = rng_for(a, 0xD2);
    let n = a.get_u64("n", if a.thorough() { 600 } else { 60 });
    let os = lc3_ensemble::sim::_os_obj_file();
    let prompt = os.symbol_table().and_then(|s| s.lookup_label("S_IN_PROMPT")).unwrap_or(0);
    set_pair_tag("none");
    for k in 0..n {
        let real = chance(&mut rng, 50);
        let mut m = M::new(1 + k, known(pick(&mut rng, &[0u16, 0xFFFF, 0x5A5A]), real, chance(&mut rng, 50)), out);
        let vect: u16 = [0x20u16, 0x21, 0x22, 0x23, 0x24, 0x25][(k % 6) as usize];
        // some routines are interrupted (once to three times, anywhere) by a handler that itself prints
        // through the OS: the handler's character '#' is kept out of everything the routine handles
        let with_int = vect != 0x25 && chance(&mut rng, 30);
        let avoid = |b: u16| -> u16 { if with_int && (b & 0xFF) == 0x23 { b ^ 1 } else { b } };
        let pc = 0x3000 + rng.random_range(0..0x40u16);
        // the string argument
        let straddr = 0x4000 + rng.random_range(0..0x100u16);
        // every length class in turn (the empty string included), so that no class depends on luck
        let lens = [0usize, 1, 2, 3, 4, 5, 7, 12];
        let len = lens[((k / 6) as usize) % lens.len()];
        let mut pokes: Vec<(u16, Word)> = vec![(pc, word(0xF000 | vect, 0xFFFF)), (pc + 1, word(0xF025, 0xFFFF))];
        if vect == 0x24 {
            // packed: bytes 1..=255, odd and even lengths
            let bytes: Vec<u8> = (0..len).map(|_| avoid(rng.random_range(1..=255u16)) as u8).collect();
            let mut i = 0;
            let mut addr = straddr;
            while i < bytes.len() {
                let lo = bytes[i] as u16;
                let hi = if i + 1 < bytes.len() { bytes[i + 1] as u16 } else { 0 };
                pokes.push((addr, word(lo | (hi << 8), 0xFFFF)));
                addr += 1; i += 2;
            }
            if bytes.len() % 2 == 0 { pokes.push((addr, word(0, 0xFFFF))); }
            else if chance(&mut rng, 50) { pokes.push((addr, word(rng.random(), 0xFFFF))); }   // garbage after the terminating high byte
        } else {
            for i in 0..len {
                let w = avoid(if chance(&mut rng, 70) { rng.random_range(1..=255u16) } else { rng.random_range(1..=0xFFFFu16) });
                pokes.push((straddr + i as u16, word(w, 0xFFFF)));
            }
            pokes.push((straddr + len as u16, word(0, 0xFFFF)));
            // what follows the terminator is not part of the string
            for j in 1..4u16 { pokes.push((straddr + len as u16 + j, word(0x40 + j, 0xFFFF))); }
        }
        m.set_mems(out, &pokes);
        for r in 1..6u8 { let x = word(rng.random(), 0xFFFF); m.set_reg(out, r, x); }
        m.set_reg(out, 7, word(rng.random(), 0xFFFF));
        m.set_reg(out, 6, word(0xF000 + rng.random_range(0..0x100u16), 0xFFFF));
        let r0 = if vect == 0x22 || vect == 0x24 { straddr } else { avoid(rng.random()) };
        m.set_reg(out, 0, word(r0, 0xFFFF));
        m.set_psr(out, 0x8000 | pick(&mut rng, &[1u16, 2, 4]) | (rng.random_range(0..3u16) << 8));
        let nk = if vect == 0x20 || vect == 0x23 { rng.random_range(1..4) } else { rng.random_range(0..3) };
        let ks: Vec<u8> = (0..nk).map(|_| avoid(rng.random::<u8>() as u16) as u8).collect();
        m.keys(out, &ks);
        let slot = m.add_intfn(out);
        let fire: Vec<u32> = if with_int { (0..rng.random_range(1..4)).map(|_| rng.random_range(1..match vect { 0x23 => 260, 0x22 | 0x24 => 12 + 10 * len as u32, _ => 14 })).collect() } else { vec![] };
        let iprio = rng.random_range(3..8u8);
        if with_int {
            let handler = assemble_src(INT_HANDLER_OUT);
            m.load(out, &handler);
            m.set_mems(out, &[(0x190, word(0x1100, 0xFFFF))]);
        }
        m.set_pc(out, pc);
        m.mark(out);
        if vect == 0x25 {
            m.run_call(out, "run", 0, &[], 400);
            m.halted(out);
        } else {
            // busy windows: the display and/or keyboard buffer is held by someone else again and again while
            // the routine runs (it must wait, not skip the status poll; every phase of the routine meets one).
            // A window may begin at any step, except right at a data access (LDI/STI): grabbing the lock
            // between a status poll that said "ready" and the data access is the known finding of C33.  (Not
            // together with an interrupt, which could separate a poll from its access by any number of steps.)
            let busy_d = !with_int && chance(&mut rng, if vect == 0x23 { 80 } else { 50 });
            let busy_k = !with_int && chance(&mut rng, 30);
            let (mut left_d, mut left_k) = (0u32, 0u32);
            let mut steps = 0;
            let mut since_ldi = 10u32;
            loop {
                steps += 1;
                let op = m.sim.mem[m.sim.pc].get() >> 12;
                // not between a status poll (LDI) and the data access that follows it two steps later
                let unsafe_now = op == 0xB || since_ldi < 3;
                if busy_d && left_d == 0 && !unsafe_now && chance(&mut rng, 8) { left_d = rng.random_range(3..50); }
                if busy_k && left_k == 0 && !unsafe_now && chance(&mut rng, 3) { left_k = rng.random_range(3..50); }
                since_ldi = if op == 0xA { 0 } else { since_ldi + 1 };
                m.set_int(slot, if fire.contains(&steps) { IntCmd { k: 1, vect: 0x90, prio: iprio } } else { IntCmd::default() });
                let r = m.step_locks(out, if left_k > 0 { 1 } else { 0 }, if left_d > 0 { 1 } else { 0 });
                left_d = left_d.saturating_sub(1); left_k = left_k.saturating_sub(1);
                if r != "ok" || steps > 3000 { break; }
                if m.sim.pc == pc + 1 && !m.sim.psr().privileged() { break; }
            }
            m.trapdone(out, vect, prompt, if with_int { 0x23 } else { -1 });
        }
        m.end(out);
    }
}

// ---------------------------------------------------------------------------
// C12
const TM_PROGS: &[&str] = &[
"
.orig x3000
      LD R6, USP
      LEA R0, MSG
      PUTS
      GETC
      OUT
      JSR SUB
      ST R1, OUTV
      LEA R0, PK
      PUTSP
      HALT
SUB   ADD R6, R6, #-1
      STR R7, R6, #0
      ADD R1, R1, #7
      LDR R7, R6, #0
      ADD R6, R6, #1
      RET
USP   .fill xFD00
OUTV  .blkw 1
MSG   .stringz \"hey\"
PK    .fill x4241
      .fill x0043
.end
",
"
.orig x3000
      AND R2, R2, #0
      ADD R2, R2, #9
      LD R1, PTR
      LDR R0, R1, #0
      HALT
PTR   .fill x0200
.end
",
"
.orig x3000
      LEA R0, MSG
      PUTS
      RTI
      HALT
MSG   .stringz \"x\"
.end
",
"
.orig x3000
      ADD R3, R3, #1
      .fill xD123
      HALT
.end
",
"
.orig x3000
      LD R1, PTR
      STR R1, R1, #0
      HALT
PTR   .fill xFE00
.end
",
"
.orig x3000
      ADD R4, R4, #2
      .fill x1018
      HALT
.end
",
// output that ends in a newline, then each kind of fault: the message is appended as it is
"
.orig x3000
      LEA R0, MSG
      PUTS
      LD R1, PTR
      LDR R0, R1, #0
      HALT
PTR   .fill x0000
MSG   .stringz \"result: 42\\n\"
.end
",
"
.orig x3000
      LD R0, NL
      OUT
      OUT
      .fill xD000
      HALT
NL    .fill x000A
.end
",
"
.orig x3000
      LD R0, NL
      OUT
      RTI
      HALT
NL    .fill x000A
.end
",
];
/// A random structured user program: arithmetic, data cells, output and input traps, subroutines that
/// keep their return address on the stack, bounded loops; ending in HALT or in one of the faults.
/// Returns the source and the number of keyboard bytes it consumes.
fn gen_user_prog(rng: &mut StdRng) -> (String, usize) {
    let mut body = String::new();
    let mut nkeys = 0usize;
    let nmsg = rng.random_range(1..4usize);
    let nsub = rng.random_range(0..3usize);
    let reg = |rng: &mut StdRng| rng.random_range(0..6u8);
    let mut lbl = 0u32;
    let nblocks = rng.random_range(2..9);
    for _ in 0..nblocks {
        match rng.random_range(0..12) {
            0 | 1 => { for _ in 0..rng.random_range(1..4) {
                let (d, x, y) = (reg(rng), reg(rng), reg(rng));
                match rng.random_range(0..4) {
                    0 => body.push_str(&format!("      ADD R{d}, R{x}, R{y}\n")),
                    1 => body.push_str(&format!("      ADD R{d}, R{x}, #{}\n", rng.random_range(-16..16))),
                    2 => body.push_str(&format!("      AND R{d}, R{x}, #{}\n", rng.random_range(-16..16))),
                    _ => body.push_str(&format!("      NOT R{d}, R{x}\n")),
                } } }
            2 => { let c = rng.random_range(0..4); let r = reg(rng); body.push_str(&format!("      ST R{r}, CELL{c}\n")); }
            3 => { let c = rng.random_range(0..4); let r = reg(rng); body.push_str(&format!("      LD R{r}, CELL{c}\n")); }
            4 => { let (r, b) = (reg(rng), reg(rng)); let o = rng.random_range(0..4);
                   body.push_str(&format!("      LEA R{b}, CELL0\n      STR R{r}, R{b}, #{o}\n      LDR R{r}, R{b}, #{}\n", rng.random_range(0..4))); }
            5 => { let i = rng.random_range(0..nmsg); body.push_str(&format!("      LEA R0, MSG{i}\n      PUTS\n")); }
            6 => { body.push_str(&format!("      LD R0, CH{}\n      OUT\n", rng.random_range(0..2))); }
            7 => { body.push_str("      LEA R0, PK\n      PUTSP\n"); }
            8 => { if nkeys < 3 { nkeys += 1; body.push_str(if chance(rng, 70) { "      GETC\n      OUT\n" } else { "      IN\n" }); } }
            9 => { if nsub > 0 { body.push_str(&format!("      JSR SUB{}\n", rng.random_range(0..nsub))); } }
            10 => { // a counted loop
                lbl += 1; let r = rng.random_range(1..6u8); let n = rng.random_range(1..6);
                body.push_str(&format!("      AND R{r}, R{r}, #0\n      ADD R{r}, R{r}, #{n}\nLP{lbl}  ADD R{}, R{}, #1\n      ADD R{r}, R{r}, #-1\n      BRp LP{lbl}\n", (r + 1) % 6, (r + 1) % 6)); }
            _ => { // push / pop on the user stack
                let (x, y) = (reg(rng), reg(rng));
                body.push_str(&format!("      ADD R6, R6, #-1\n      STR R{x}, R6, #0\n      LDR R{y}, R6, #0\n      ADD R6, R6, #1\n")); }
        }
    }
    let ending = match rng.random_range(0..10) {
        0..=4 => "      HALT\n".to_string(),
        5 => "      LD R1, LOW\n      LDR R2, R1, #0\n      HALT\n".to_string(),          // access violation (load)
        6 => "      LD R1, LOW\n      STR R2, R1, #0\n      HALT\n".to_string(),          // access violation (store)
        7 => "      RTI\n      HALT\n".to_string(),                                          // privilege violation
        8 => "      .fill xD000\n      HALT\n".to_string(),                                  // illegal opcode
        _ => "      LD R1, LOW\n      JMP R1\n      HALT\n".to_string(),                   // access violation (fetch)
    };
    let mut src = String::from(".orig x3000\n      LD R6, USP\n");
    src.push_str(&body);
    src.push_str(&ending);
    for i in 0..nsub {
        src.push_str(&format!("SUB{i}  ADD R6, R6, #-1\n      STR R7, R6, #0\n"));
        if i + 1 < nsub && chance(rng, 50) { src.push_str(&format!("      JSR SUB{}\n", i + 1)); }
        src.push_str(&format!("      ADD R{}, R{}, #{}\n", i + 1, i + 2, rng.random_range(-8..8)));
        if chance(rng, 40) { src.push_str(&format!("      LD R0, CH{}\n      OUT\n", i % 2)); }
        src.push_str("      LDR R7, R6, #0\n      ADD R6, R6, #1\n      RET\n");
    }
    src.push_str("USP   .fill xFD00\nLOW   .fill x");
    src.push_str(pick(rng, &["0000", "0200", "2FFF", "FE00", "FFFE"]));
    src.push_str("\nCH0   .fill x0041\nCH1   .fill x010A\nCELL0 .blkw 4\nCELL1 .fill x1234\nCELL2 .fill xFFFF\nCELL3 .fill x0000\nPK    .fill x6968\n      .fill x0021\n      .fill x0000\n");
    let msgs = ["ok", "", "two\\nlines", "tab\\there", "Enter: "];
    for i in 0..nmsg { src.push_str(&format!("MSG{i}  .stringz \"{}\"\n", pick(rng, &msgs))); }
    src.push_str(".end\n");
    (src, nkeys)
}

pub fn gen_trapmode(a: &Args, out: &mut Out) {
    let mut rng = rng_for(a, 0xD3);
    let n = a.get_u64("n", if a.thorough() { 400 } else { 45 });
    set_pair_tag("trapmode");
    let mut run = 1;
    for k in 0..n {
        let which = (k as usize / 3) % TM_PROGS.len();
        // two of three programs are generated
        let (gsrc, gkeys) = gen_user_prog(&mut rng);
        let src: String = if k % 3 == 0 { TM_PROGS[which].to_string() } else { gsrc };
        let fillv: u16 = pick(&mut rng, &[0u16, 0x7777]);
        let dbg = chance(&mut rng, 30);
        let seed: u64 = rng.random();
        let ignp = chance(&mut rng, 20);
        let obj = assemble_src(&src);
        for real in [false, true] {
            let mut r2 = StdRng::seed_from_u64(seed);
            let mut fl = known(fillv, real, dbg);
            fl.ignore_privilege = ignp;
            let mut m = M::new(run, fl, out); run += 1;
            m.load(out, &obj);
            for r in 0..6u8 { let x = word(interesting(&mut r2), 0xFFFF); m.set_reg(out, r, x); }
            m.set_reg(out, 6, word(0xFD00, 0xFFFF));
            let ks: Vec<u8> = (0..r2.random_range(1..4).max(if k % 3 == 0 { 0 } else { gkeys })).map(|_| r2.random()).collect();
            m.keys(out, &ks);
            m.add_intfn(out);
            if k % 3 == 1 {
                // a front end that runs the machine in budgeted pieces (1, 2, 3 or 5 instructions per call) until it
                // reports the halt: some piece ends exactly on the instruction that stops the clock
                let n = [1u64, 2, 3, 5][(k / 3 % 4) as usize];
                for _ in 0..1500 {
                    let r = m.run_call(out, "limit", n, &[], 1_000_000);
                    if r != "ok" || m.sim.hit_halt() { break; }
                }
            } else {
                m.run_call(out, "run", 0, &[], 2500);
            }
            m.end(out);
        }
    }
    set_pair_tag("none");
}

// ---------------------------------------------------------------------------
// C33
const ECHO: &str = "
.orig x3000
LOOP  GETC
      OUT
      ADD R0, R0, #0
      BRnp LOOP
      LEA R0, BYE
      PUTS
      HALT
BYE   .stringz \"!\"
.end
";
fn lock_run(out: &mut Out, run: u64, real: bool, input: &[u8], kpat: &dyn Fn(u32) -> bool, dpat: &dyn Fn(u32) -> bool, max: u32) {
    lock_run_kinds(out, run, real, input, &|s| kpat(s) as u8, &|s| dpat(s) as u8, max)
}
/// Lock kinds per step: 0 free, 1 write guard held, 2 read guard held (see `M::step_locks`).
fn lock_run_kinds(out: &mut Out, run: u64, real: bool, input: &[u8], kpat: &dyn Fn(u32) -> u8, dpat: &dyn Fn(u32) -> u8, max: u32) {
    let mut m = M::new(run, known(0, real, false), out);
    m.load(out, &assemble_src(ECHO));
    let mut keys = input.to_vec(); keys.push(0);
    m.keys(out, &keys);
    let mut step = 0;
    loop {
        step += 1;
        let r = m.step_locks(out, kpat(step), dpat(step));
        if r != "ok" || step >= max { break; }
        if !real && m.sim.pc >= 0x3000 && m.sim.mem[m.sim.pc].get() == 0xF025 && m.sim.verif_prefetch() { break; }
        // real HALT: the OS routine stores to the MCR
        if real && m.sim.observer.get_mem_accesses(0xFFFE).written() { break; }
    }
    // what the display must show: every input byte once, in order, then the farewell
    let mut expect = keys.clone(); expect.push(b'!');
    let p = m.proj();
    let (h1, h2) = m.mem_digest_range(0, 0xFFFF);
    let _ = (h1, h2);
    out.emit(serde_json::json!({"ev": "End", "run": run, "proj": p, "expect_disp": expect, "expect_kbd": [],
                                "final": {"lastres": m.last_res}}));
}
/// Lock-holding patterns over the instruction boundaries of an echo program: the lock
/// held during exactly one step (every position), during two steps (pairs), during runs
/// of consecutive steps, and random patterns on longer inputs.
pub fn gen_locks(a: &Args, out: &mut Out) {
    let mut rng = rng_for(a, 0xD4);
    let thorough = a.thorough();
    set_pair_tag("none");
    let mut run = 1u64;
    let input1 = [b'a'];
    // length of the uncontended run for one input byte (boundaries to place locks on)
    let nb: u32 = 75;
    // (1) single-step holds, keyboard and display, every position
    let stride = if thorough { 1 } else { 2 };
    let mut p = 1;
    while p <= nb {
        for which in 0..2 {
            let pos = p;
            lock_run(out, run, false, &input1, &|s| which == 0 && s == pos, &|s| which == 1 && s == pos, 600); run += 1;
        }
        p += stride;
    }
    // (2) two holds
    let n2 = if thorough { 800 } else { 60 };
    for _ in 0..n2 {
        let (p1, p2) = (rng.random_range(1..nb), rng.random_range(1..nb));
        let (w1, w2) = (rng.random_range(0..2), rng.random_range(0..2));
        let real = chance(&mut rng, 30);
        lock_run(out, run, real, &input1, &|s| (w1 == 0 && s == p1) || (w2 == 0 && s == p2), &|s| (w1 == 1 && s == p1) || (w2 == 1 && s == p2), 600); run += 1;
    }
    // (2b) interval holds: the guard (write or read) held over 2, 3 or 5 consecutive steps, every start position
    for kind in [1u8, 2] {
        for len in [2u32, 3, 5] {
            let mut p = 1;
            while p <= nb {
                for which in 0..2 {
                    let (lo, hi) = (p, p + len);
                    if !thorough && (p + len + which) % 2 == 1 && len != 2 { continue; }
                    lock_run_kinds(out, run, false, &input1, &|s| if which == 0 && s >= lo && s < hi { kind } else { 0 },
                                   &|s| if which == 1 && s >= lo && s < hi { kind } else { 0 }, 800); run += 1;
                }
                p += if thorough { 1 } else { 2 };
            }
        }
    }
    // (2c) single-step read-guard holds
    let mut p = 1;
    while p <= nb {
        for which in 0..2 { let pos = p; lock_run_kinds(out, run, false, &input1, &|s| if which == 0 && s == pos { 2 } else { 0 }, &|s| if which == 1 && s == pos { 2 } else { 0 }, 600); run += 1; }
        p += if thorough { 1 } else { 3 };
    }
    // (3) intervals and random patterns on longer inputs
    let n3 = if thorough { 400 } else { 30 };
    for _ in 0..n3 {
        let len = rng.random_range(2..7);
        let input: Vec<u8> = (0..len).map(|_| rng.random_range(1..=255u8)).collect();
        let seed: u64 = rng.random();
        let dens = pick(&mut rng, &[3u64, 10, 30]);
        let kp = move |s: u32| { let mut h = seed ^ (s as u64).wrapping_mul(0x9E3779B97F4A7C15); h ^= h >> 29; (h % 100) < dens };
        let dp = move |s: u32| { let mut h = seed.rotate_left(17) ^ (s as u64).wrapping_mul(0xD1B54A32D192ED03); h ^= h >> 31; (h % 100) < dens };
        lock_run(out, run, chance(&mut rng, 30), &input, &kp, &dp, 3000); run += 1;
    }
}

// ---------------------------------------------------------------------------
// C32
/// Random histories over add_device / remove_device / set_keyboard / set_display /
/// mmap_internal / munmap_internal / read / write, with register devices whose contents
/// are part of the projection.
pub fn gen_devices(a: &Args, out: &mut Out) {
    let mut rng = rng_for(a, 0xD5);
    let n = a.get_u64("n", if a.thorough() { 500 } else { 50 });
    set_pair_tag("none");
    let ports: [u16; 10] = [0xFE00, 0xFE02, 0xFE04, 0xFE06, 0xFE10, 0xFE11, 0xFE12, 0xFFFC, 0xFFFE, 0xFFFF];
    let bad_ports: [u16; 4] = [0x3000, 0xFDFF, 0x0000, 0x7000];
    // scripted histories: every rejected call must leave the tables as they were
    let regs = [InternalRegister::PC, InternalRegister::PSR, InternalRegister::MCR, InternalRegister::SavedSP];
    let mut run0 = 0u64;
    for &p in &[0xFFFCu16, 0xFFFE, 0xFE10, 0xFFFF] {
        for (i, &r1) in regs.iter().enumerate() {
            run0 += 1;
            let mut m = M::new(10_000 + run0, SimFlags { ignore_privilege: true, ..known(0, false, false) }, out);
            m.mmap(out, p, r1);                               // fresh address: accepted; default PSR/MCR address: rejected
            for &r2 in &regs { if r2 != r1 { m.mmap(out, p, r2); m.read_mem(out, p, MemAccessCtx::omnipotent()); } }
            m.write_mem(out, p, word(0x0041 + i as u16, 0xFFFF), MemAccessCtx::omnipotent());
            m.read_mem(out, p, MemAccessCtx::omnipotent());
            m.read_mem(out, 0xFFFC, MemAccessCtx::omnipotent()); m.read_mem(out, 0xFFFE, MemAccessCtx::omnipotent());
            m.munmap(out, p); m.munmap(out, p);
            m.mmap(out, p, r1); m.read_mem(out, p, MemAccessCtx::omnipotent());
            m.end(out);
        }
    }
    for variant in 0..6u32 {
        run0 += 1;
        let mut m = M::new(10_000 + run0, known(0, false, false), out);
        // ids are never reused: remove the last (or a middle) device, add another, use the stale id again
        m.add_regdev(out, &[0xFE10], 0x1111);
        m.add_regdev(out, &[0xFE11], 0x2222);
        let first_new = 3u16; // ids 0..2 are the fixed null / keyboard / display devices
        let victim = if variant % 2 == 0 { first_new + 1 } else { first_new };
        m.remove_device(out, victim);
        m.add_regdev(out, &[0xFE12], 0x3333);
        m.read_mem(out, 0xFE12, MemAccessCtx::omnipotent());
        m.remove_device(out, victim);                         // stale id: must not detach the new device
        m.read_mem(out, 0xFE12, MemAccessCtx::omnipotent());
        m.write_mem(out, 0xFE12, word(0x4444, 0xFFFF), MemAccessCtx::omnipotent());
        m.read_mem(out, 0xFE12, MemAccessCtx::omnipotent());
        if variant >= 2 { m.add_regdev(out, &[0xFE10, 0xFE11], 0x5555); m.read_mem(out, 0xFE10, MemAccessCtx::omnipotent()); m.read_mem(out, 0xFE11, MemAccessCtx::omnipotent()); }
        if variant >= 4 { m.remove_device(out, 1); m.remove_device(out, 2); m.remove_device(out, 0); m.read_mem(out, 0xFE00, MemAccessCtx::omnipotent()); m.add_regdev(out, &[0xFE00], 7); }
        if variant % 3 == 0 { m.add_plain_dev(out, "null", &[0xFE20, 0xFE21]); let id = (m.devs.len() - 1) as u16; m.read_mem(out, 0xFE20, MemAccessCtx::omnipotent());
                              m.remove_device(out, id); m.add_regdev(out, &[0xFE20], 0x7777); m.read_mem(out, 0xFE20, MemAccessCtx::omnipotent()); m.read_mem(out, 0xFE21, MemAccessCtx::omnipotent()); }
        m.add_regdev(out, &[0xFE12], 0x6666);                  // occupied port: rejected, nothing changes
        m.read_mem(out, 0xFE12, MemAccessCtx::omnipotent());
        m.end(out);
    }
    for k in 0..n {
        let mut m = M::new(1 + k, SimFlags { ignore_privilege: chance(&mut rng, 50), ..known(0, false, false) }, out);
        let hist = rng.random_range(5..25);
        for _ in 0..hist {
            match rng.random_range(0..12) {
                0 | 1 => {
                    let np = rng.random_range(0..4);
                    let mut ps: Vec<u16> = (0..np).map(|_| pick(&mut rng, &ports)).collect();
                    if chance(&mut rng, 15) { ps.push(pick(&mut rng, &bad_ports)); }
                    let v = rng.random(); m.add_regdev(out, &ps, v);
                }
                2 => { let id = rng.random_range(0..8u16); m.remove_device(out, id); }
                11 if chance(&mut rng, 50) => { let ps: Vec<u16> = (0..rng.random_range(1..3)).map(|_| pick(&mut rng, &ports)).collect(); m.add_plain_dev(out, "null", &ps); }
                3 => { if chance(&mut rng, 50) { m.set_keyboard_new(out, None) } else { let v = rng.random(); m.set_keyboard_new(out, Some(v)) } }
                4 => { m.set_display_new(out); }
                5 => { let a2 = if chance(&mut rng, 85) { pick(&mut rng, &ports) } else { pick(&mut rng, &bad_ports) };
                       m.mmap(out, a2, pick(&mut rng, &[InternalRegister::PC, InternalRegister::PSR, InternalRegister::MCR, InternalRegister::SavedSP])); }
                6 => { let a2 = pick(&mut rng, &ports); m.munmap(out, a2); }
                7 | 8 => { let a2 = pick(&mut rng, &ports); let ctx = if chance(&mut rng, 50) { m.sim.default_mem_ctx() } else { MemAccessCtx::omnipotent() }; m.read_mem(out, a2, ctx); }
                9 | 10 => { let a2 = pick(&mut rng, &ports); let ctx = if chance(&mut rng, 50) { m.sim.default_mem_ctx() } else { MemAccessCtx::omnipotent() };
                            let x = word(rng.random(), 0xFFFF); m.write_mem(out, a2, x, ctx); }
                _ => { let ks: Vec<u8> = vec![rng.random()]; m.keys(out, &ks); }
            }
            if m.dead { break; }
        }
        // a short program that stores to and loads from two of the ports
        let p1 = pick(&mut rng, &ports); let p2 = pick(&mut rng, &ports);
        m.set_mems(out, &[(0x3000, word(0xA202, 0xFFFF)), (0x3001, word(0xB402, 0xFFFF)), (0x3002, word(0xF025, 0xFFFF)),
                          (0x3003, word(p1, 0xFFFF)), (0x3004, word(p2, 0xFFFF))]);
        m.set_pc(out, 0x3000);
        for _ in 0..3 { if m.step(out, false, false) != "ok" { break; } }
        m.end(out);
    }
}

/// RP leg of C32: replay histories enumerated by TLC (spec/MC_Devices.tla) on a real Simulator.
/// `hist=<file>`: one JSON array of 1-based op indices per line; `ops=<file>`: the op alphabet.
pub fn replay_devices(a: &Args, out: &mut Out) {
    let ops: Vec<serde_json::Value> = std::fs::read_to_string(a.get_str("ops", "")).expect("ops file")
        .lines().filter(|l| !l.trim().is_empty()).map(|l| serde_json::from_str(l).expect("op")).collect();
    let hist = std::fs::read_to_string(a.get_str("hist", "")).expect("hist file");
    set_pair_tag("none");
    crate::machine::LIGHT_HEADERS.with(|l| l.set(true));
    let mut run = 0u64;
    for line in hist.lines() {
        if line.trim().is_empty() { continue; }
        let h: Vec<usize> = serde_json::from_str(line).expect("history");
        run += 1;
        let mut m = M::new(run, known(0, false, false), out);
        for k in h {
            let o = &ops[k - 1];
            let u = |f: &str| o[f].as_u64().unwrap_or(0) as u16;
            match o["op"].as_str().unwrap() {
                "adddev" => { let ps: Vec<u16> = o["ports"].as_array().unwrap().iter().map(|x| x.as_u64().unwrap() as u16).collect(); m.add_regdev(out, &ps, u("val")); }
                "addnull" => { let ps: Vec<u16> = o["ports"].as_array().unwrap().iter().map(|x| x.as_u64().unwrap() as u16).collect(); m.add_plain_dev(out, "null", &ps); }
                "rmdev" => m.remove_device(out, u("id")),
                "mmap" => m.mmap(out, u("a"), match o["reg"].as_str().unwrap() { "PC" => InternalRegister::PC, "PSR" => InternalRegister::PSR, "MCR" => InternalRegister::MCR, _ => InternalRegister::SavedSP }),
                "munmap" => m.munmap(out, u("a")),
                "rmem" => m.read_mem(out, u("a"), MemAccessCtx::omnipotent()),
                "wmem" => m.write_mem(out, u("a"), word(u("v"), 0xFFFF), MemAccessCtx::omnipotent()),
                other => panic!("unknown op {other}"),
            }
            if m.dead { break; }
        }
        m.end(out);
    }
}


/// C28 across a run-style call (the observer is cleared when the call begins, not per instruction): programs that
/// touch one address several times within one call - a store of the value the cell already holds followed by a store
/// of another one (and the other orders), loads around stores, pushes and pops over one stack slot, stores through a
/// pointer - performed as one `run`, as `run_with_limit` pieces and step by step.
pub fn gen_obsrun(_a: &Args, out: &mut Out) {
    let bodies: [&str; 7] = [
        "AND R0,R0,#0\nADD R0,R0,#5\nST R0,X\nADD R0,R0,#1\nST R0,X\nHALT\n",
        "AND R0,R0,#0\nADD R0,R0,#6\nST R0,X\nADD R0,R0,#-1\nST R0,X\nHALT\n",
        "AND R0,R0,#0\nADD R0,R0,#5\nST R0,X\nST R0,X\nHALT\n",
        "LD R1,X\nADD R1,R1,#1\nST R1,X\nLD R2,X\nST R1,X\nHALT\n",
        "LD R6,SP0\nAND R0,R0,#0\nADD R0,R0,#5\nADD R6,R6,#-1\nSTR R0,R6,#0\nLDR R1,R6,#0\nADD R6,R6,#1\nADD R0,R0,#2\nADD R6,R6,#-1\nSTR R0,R6,#0\nADD R6,R6,#1\nHALT\n",
        "AND R0,R0,#0\nADD R0,R0,#5\nSTI R0,P\nADD R0,R0,#3\nSTI R0,P\nLDI R3,P\nHALT\n",
        "AND R0,R0,#0\nADD R0,R0,#5\nLEA R1,X\nSTR R0,R1,#0\nNOT R0,R0\nSTR R0,R1,#0\nNOT R0,R0\nSTR R0,R1,#0\nHALT\n",
    ];
    let mut run = 0u64;
    for (bi, body) in bodies.iter().enumerate() {
        let src = format!(".orig x3000\n{body}X .fill 5\nP .fill X\nSP0 .fill x4000\n.end\n");
        let prog = assemble_src(&src);
        for style in 0..4 {
            run += 1;
            let mut m = M::new(run, known(0, style % 2 == 1, bi % 2 == 0), out);
            m.set_mems(out, &[(0x3FFF, word(5, 0xFFFF))]);
            m.load(out, &prog);
            m.add_intfn(out);
            match style {
                0 | 1 => { m.run_call(out, "run", 0, &[], 400); }
                2 => { for _ in 0..4 { if m.run_call(out, "limit", 4, &[], 400) == "panic" || m.sim.hit_halt() { break; } } }
                _ => { for _ in 0..14 { if m.step(out, false, false) != "ok" { break; } } }
            }
            m.end(out);
        }
    }
}

/// C16: a timer whose range is made open-ended after construction (`n..`, `..`, `n..=u32::MAX`) fires and redraws its
/// countdown inside a step; the run ends with the step that redraws (countdowns beyond TIME_CAP are logged capped).
pub fn gen_timeropen(_a: &Args, out: &mut Out) {
    let mut run = 0u64;
    for variant in 0..3u8 {
        for real in [false, true] {
            run += 1;
            let mut m = M::new(run, known(0, real, false), out);
            let slot = m.add_timer(out, 7 + run, 2, 2, 0x81, 4, true);
            m.timer_open_range(out, slot, variant, 2, 0x81, 4);
            for _ in 0..8 {
                let r = m.step(out, false, false);
                if r == "panic" { break; }
                if m.timers[slot - 1].read().unwrap().get_remaining() > 1000 { break; }
            }
            m.end(out);
        }
    }
}

/// `lc3v replay machine hist=<file>`: each line is one one-step behaviour of MC_Machine:
/// [pc, psr, rv, rm, r6, strict, real, base, w] - the adversarial machine (every memory word holds a boundary
/// address, initialized if base = 1; all registers (rv, rm) but R6; keyboard "AB"; MCR on) is built on a real
/// simulator before the header is taken, the instruction word w is poked at the PC and one step is made.
pub fn replay_machine(a: &Args, out: &mut Out) {
    use std::sync::atomic::Ordering;
    const PAT: [u16; 12] = [0, 12287, 12288, 12289, 65022, 65023, 65024, 65026, 65030, 65532, 65534, 65535];
    let hist = std::fs::read_to_string(a.get_str("hist", "")).expect("hist file");
    // the pattern is shared with the specification through the OPS file (MC_Machine asserts the same)
    let ops: serde_json::Value = serde_json::from_str(std::fs::read_to_string(a.get_str("ops", "")).expect("ops file").lines().next().expect("ops")).expect("ops");
    let want: Vec<u16> = ops["pattern"].as_array().unwrap().iter().map(|x| x.as_u64().unwrap() as u16).collect();
    assert_eq!(want, PAT.to_vec(), "MC_Machine_ops.ndjson and the replay pattern disagree");
    set_pair_tag("none");
    crate::machine::LIGHT_HEADERS.with(|l| l.set(true));
    crate::machine::PRE_KEYS.with(|k| *k.borrow_mut() = vec![65, 66]);
    let mut run = a.get_u64("run0", 0);
    for line in hist.lines() {
        if line.trim().is_empty() { continue; }
        let h: Vec<u64> = serde_json::from_str(line).expect("history");
        let (pc, psr, rv, rm, r6, strict0, real, base, w) = (h[0] as u16, h[1] as u16, h[2] as u16, h[3] as u16, h[4] as u16, h[5] == 1, h[6] == 1, h[7] as u8, h[8] as u16);
        // the behaviours come in twins that differ in strict mode only: the twin without strict mode is performed
        // first, the strict one right after it, and the two runs form a C14 pair (TV_Pairs); the line of the
        // strict twin itself is skipped
        if strict0 { continue; }
        set_pair_tag(if base == 1 && rm == 0xFFFF { "strictfull" } else { "strict" });
        for strict in [false, true] {
            run += 1;
            crate::machine::PATTERN.with(|p| p.set(base));
            let flags = SimFlags { strict, use_real_traps: real, machine_init: MachineInitStrategy::Known { value: 0 }, debug_frames: false, ignore_privilege: false };
            let mut m = M::new_from(run, flags, out, |sim| {
                // the PSR exactly as the model says - also words that no PSR write produces (a write through xFFFC
                // normalizes the condition codes; an RTI restores the word it pops as it is): one unlogged RTI
                // from a scratch frame at x2FFE, so that a return to user mode leaves x3000 as the saved stack pointer
                sim.flags.ignore_privilege = true;
                sim.flags.strict = false;
                sim.reg_file[crate::machine::reg(6)] = word(0x2FFE, 0xFFFF);
                sim.mem[0x2FFEu16] = word(pc, 0xFFFF);
                sim.mem[0x2FFFu16] = word(psr, 0xFFFF);
                sim.mem[0x4000u16] = word(0x8000, 0xFFFF);
                sim.pc = 0x4000;
                sim.step_in().expect("rti");
                sim.flags.ignore_privilege = false;
                sim.flags.strict = strict;
                assert_eq!(sim.psr().get(), psr, "replay machine: the PSR of the model could not be established");
                assert_eq!(sim.verif_saved_sp(), word(0x3000, 0xFFFF), "replay machine: saved stack pointer");
                for r in 0..8u8 { sim.reg_file[crate::machine::reg(r)] = if r == 6 { word(r6, 0xFFFF) } else { word(rv, rm) }; }
                sim.pc = pc;
                sim.mcr().store(true, Ordering::Relaxed);
                for a in 0..=u16::MAX { sim.mem[a] = word(PAT[(a as usize) % 12], if base == 1 { 0xFFFF } else { 0 }); }
                sim.mem[pc] = word(w, 0xFFFF);
                vec![]
            });
            m.step(out, false, false);
        }
    }
    set_pair_tag("none");
    crate::machine::PATTERN.with(|p| p.set(0));
    crate::machine::PRE_KEYS.with(|k| k.borrow_mut().clear());
}

/// `lc3v replay reset hist=<file> ops=<file>`: each history of MC_Reset is performed on a new simulator
/// (interrupt device 1 attached first, as the model's initial table says); then reset, probes through the
/// kept configuration, a bounded run (the kept breakpoints stop it), reset again and two more steps.
pub fn replay_reset(a: &Args, out: &mut Out) {
    let ops: Vec<serde_json::Value> = std::fs::read_to_string(a.get_str("ops", "")).expect("ops file")
        .lines().filter(|l| !l.trim().is_empty()).map(|l| serde_json::from_str(l).expect("op")).collect();
    let hist = std::fs::read_to_string(a.get_str("hist", "")).expect("hist file");
    set_pair_tag("none");
    crate::machine::LIGHT_HEADERS.with(|l| l.set(true));
    let prog = assemble_src(".orig x3000\nAND R0, R0, #0\nADD R0, R0, #5\nST R0, D\nD .blkw 1\n.end\n");
    let mut run = a.get_u64("run0", 0);
    for line in hist.lines() {
        if line.trim().is_empty() { continue; }
        let h: Vec<usize> = serde_json::from_str(line).expect("history");
        run += 1;
        let mut m = M::new(run, known(0, false, false), out);
        m.add_intfn(out);
        for k in h {
            let o = &ops[k - 1];
            let u = |f: &str| o[f].as_u64().unwrap_or(0) as u16;
            let ports = || -> Vec<u16> { o["ports"].as_array().unwrap().iter().map(|x| x.as_u64().unwrap() as u16).collect() };
            match o["op"].as_str().unwrap() {
                "setreg" => m.set_reg(out, u("r") as u8, word(o["w"][0].as_u64().unwrap() as u16, o["w"][1].as_u64().unwrap() as u16)),
                "setmem" => m.set_mem(out, u("a"), word(o["w"][0].as_u64().unwrap() as u16, o["w"][1].as_u64().unwrap() as u16)),
                "setpc" => m.set_pc(out, u("v")),
                "step" => { m.step(out, false, false); }
                "flag" => { let f = &o["flags"]; let b = |n: &str| f[n].as_u64().unwrap() == 1;
                            m.set_flags(out, &crate::machine::Flags { strict: b("strict"), real: b("real"), dbg: b("dbg"), ignp: b("ignp") }); }
                "adddev" => m.add_regdev(out, &ports(), u("val")),
                "addtimer" => { m.add_timer(out, 1, u("lo") as u32, u("hi") as u32, u("vect") as u8, u("prio") as u8, true); }
                "rmdev" => m.remove_device(out, u("id")),
                "mmap" => m.mmap(out, u("a"), match o["reg"].as_str().unwrap() { "PC" => InternalRegister::PC, "PSR" => InternalRegister::PSR, "MCR" => InternalRegister::MCR, _ => InternalRegister::SavedSP }),
                "munmap" => m.munmap(out, u("a")),
                "rmem" => m.read_mem(out, u("a"), MemAccessCtx::omnipotent()),
                "wmem" => m.write_mem(out, u("a"), word(u("v"), 0xFFFF), MemAccessCtx::omnipotent()),
                "setmcr" => m.set_mcr(out, u("v") == 1),
                "keys" => { let bs: Vec<u8> = o["bytes"].as_array().unwrap().iter().map(|x| x.as_u64().unwrap() as u8).collect(); m.keys(out, &bs); }
                "addbp" => m.add_breakpoint_pc(out, o["bp"]["a"].as_u64().unwrap() as u16),
                "load" => {
                    // the object the model loads is the one assembled here
                    let want: Vec<(u16, Vec<i64>)> = o["blocks"].as_array().unwrap().iter().map(|b| (b["s"].as_u64().unwrap() as u16,
                        b["w"].as_array().unwrap().iter().map(|x| x.as_i64().unwrap()).collect())).collect();
                    let have: Vec<(u16, Vec<i64>)> = prog.verif_block_iter().map(|(s, ws)| (s, ws.iter().map(|x| x.map(|v| v as i64).unwrap_or(-1)).collect())).collect();
                    assert_eq!(want, have, "MC_Reset_ops.ndjson and the replay program disagree");
                    m.load(out, &prog);
                }
                "srdef" => m.srdef(out, u("addr"), Some(u("n") as usize), &[]),
                "reset" => m.reset(out),
                "setinit" => m.set_init(out, u("k") as usize),
                other => panic!("unknown op {other}"),
            }
            if m.dead { break; }
        }
        for round in 0..2 {
            if m.dead { break; }
            m.reset(out);
            for p in [0xFE40u16, 0xFE50, 0xFFFC, 0xFFFE, 0xFE00, 0x3001] { m.read_mem(out, p, MemAccessCtx::omnipotent()); }
            if round == 0 { if m.run_call(out, "limit", 3, &[], 100_000) == "panic" { break; } }
            else { for _ in 0..2 { if m.step(out, false, false) == "panic" { break; } } }
        }
        m.end(out);
    }
}

// ---------------------------------------------------------------------------
// C13 RP: behaviours enumerated by TLC (spec/MC_RunRP.tla) replayed on the real simulator
const RP_RUN_PROG: &str = "
.orig x3000
      ADD R1, R1, #2
LOOP  JSR F
      ADD R1, R1, #-1
      BRp LOOP
      HALT
F     ADD R6, R6, #-1
      STR R7, R6, #0
      JSR G
      LDR R7, R6, #0
      ADD R6, R6, #1
      RET
G     ADD R2, R2, #1
      RET
.end
";
/// `lc3v replay run hist=<file>`: each line is [b, c1, c2, ...]: breakpoint set b (1 none, 2 PC x300B,
/// 3 R2 = 1), then calls by index (1-4 run_with_limit 0/1/2/5, 5 step_over, 6 step_out,
/// 7 run_while(pc != x300B), 8 run) - the lists of MC_RunRP.
pub fn replay_run(a: &Args, out: &mut Out) {
    let hist = std::fs::read_to_string(a.get_str("hist", "")).expect("hist file");
    set_pair_tag("none");
    crate::machine::LIGHT_HEADERS.with(|l| l.set(true));
    let prog = assemble_src(RP_RUN_PROG);
    let mut run = 0u64;
    for line in hist.lines() {
        if line.trim().is_empty() { continue; }
        let h: Vec<usize> = serde_json::from_str(line).expect("history");
        run += 1;
        let mut m = M::new(run, known(0, false, false), out);
        m.load(out, &prog);
        for r in 0..8u8 { m.set_reg(out, r, word(if r == 6 { 0xFD00 } else { 0 }, 0xFFFF)); }
        m.set_psr(out, 0x8002);
        m.set_pc(out, 0x3000);
        m.add_intfn(out);
        match h[0] { 2 => m.add_breakpoint_pc(out, 0x300B), 3 => m.add_breakpoint_cmp(out, "reg", 2, "eq", 1), _ => {} }
        for &c in &h[1..] {
            let (kind, arg): (&str, u64) = match c { 1 => ("limit", 0), 2 => ("limit", 1), 3 => ("limit", 2), 4 => ("limit", 5), 5 => ("over", 0), 6 => ("out", 0), 7 => ("pcne", 0x300B), _ => ("run", 0) };
            if m.run_call(out, kind, arg, &[], 100_000) == "panic" { break; }
        }
        m.halted(out);
        m.end(out);
    }
}

/// `lc3v replay trapmode hist=<file> ops=<file>`: each history is R0 followed by the words of a user program
/// of MC_TrapMode; it is run to completion under virtual and under real traps (a "trapmode" pair).
pub fn replay_trapmode(a: &Args, out: &mut Out) {
    let ops: serde_json::Value = serde_json::from_str(std::fs::read_to_string(a.get_str("ops", "")).expect("ops file").lines().next().unwrap()).expect("ops");
    let hist = std::fs::read_to_string(a.get_str("hist", "")).expect("hist file");
    let nums = |v: &serde_json::Value| -> Vec<u16> { v.as_array().unwrap().iter().map(|x| x.as_u64().unwrap() as u16).collect() };
    let data = nums(&ops["data"]);
    let dataaddr = ops["dataaddr"].as_u64().unwrap() as u16;
    let kbd: Vec<u8> = nums(&ops["kbd"]).iter().map(|&x| x as u8).collect();
    set_pair_tag("trapmode");
    let mut run = 0u64;
    for line in hist.lines() {
        if line.trim().is_empty() { continue; }
        let h: Vec<u16> = serde_json::from_str::<Vec<u64>>(line).expect("history").iter().map(|&x| x as u16).collect();
        for real in [false, true] {
            run += 1;
            let mut m = M::new(run, known(0, real, false), out);
            let mut pokes: Vec<(u16, Word)> = h[1..].iter().enumerate().map(|(i, &w)| (0x3000 + i as u16, word(w, 0xFFFF))).collect();
            pokes.extend(data.iter().enumerate().map(|(i, &w)| (dataaddr + i as u16, word(w, 0xFFFF))));
            m.set_mems(out, &pokes);
            for r in 0..8u16 {
                let v = match r { 0 => h[0], 1 => dataaddr, 5 => 0, 6 => ops["r6"].as_u64().unwrap() as u16, _ => 7 * (r + 1) };
                m.set_reg(out, r as u8, word(v, 0xFFFF));
            }
            m.set_psr(out, ops["psr"].as_u64().unwrap() as u16);
            m.set_pc(out, 0x3000);
            m.keys(out, &kbd);
            m.add_intfn(out);
            m.run_call(out, "run", 0, &[], 3000);
            m.end(out);
        }
    }
    set_pair_tag("none");
}

/// `lc3v replay ostraps hist=<file>`: each history is a start state of MC_OsTraps: vector, real traps (0/1), R0,
/// number of keyboard bytes, the keyboard bytes, the words at x4000.  The TRAP at x3000 is executed step by step
/// through the real OS until control is back in user code, then the contract is evaluated (`trapdone`).
pub fn replay_ostraps(a: &Args, out: &mut Out) {
    let hist = std::fs::read_to_string(a.get_str("hist", "")).expect("hist file");
    let os = lc3_ensemble::sim::_os_obj_file();
    let prompt = os.symbol_table().and_then(|s| s.lookup_label("S_IN_PROMPT")).unwrap_or(0);
    set_pair_tag("none");
    crate::machine::LIGHT_HEADERS.with(|l| l.set(true));
    let mut run = 0u64;
    for line in hist.lines() {
        if line.trim().is_empty() { continue; }
        let h: Vec<u16> = serde_json::from_str::<Vec<u64>>(line).expect("history").iter().map(|&x| x as u16).collect();
        let (vect, real, r0, nk) = (h[0], h[1] == 1, h[2], h[3] as usize);
        let kbd: Vec<u8> = h[4..4 + nk].iter().map(|&x| x as u8).collect();
        let words = &h[4 + nk..];
        run += 1;
        let mut m = M::new(run, known(0, real, false), out);
        let mut pokes: Vec<(u16, Word)> = vec![(0x3000, word(0xF000 | vect, 0xFFFF)), (0x3001, word(0xF025, 0xFFFF))];
        pokes.extend(words.iter().enumerate().map(|(i, &w)| (0x4000 + i as u16, word(w, 0xFFFF))));
        m.set_mems(out, &pokes);
        for r in 0..8u16 { let v = match r { 0 => r0, 6 => 0xF000, _ => r + 1 }; m.set_reg(out, r as u8, word(v, 0xFFFF)); }
        m.set_psr(out, 0x8002);
        m.keys(out, &kbd);
        m.add_intfn(out);
        m.set_pc(out, 0x3000);
        m.mark(out);
        let mut steps = 0;
        loop {
            steps += 1;
            let r = m.step(out, false, false);
            if r != "ok" || steps > 3000 { break; }
            if m.sim.pc == 0x3001 && !m.sim.psr().privileged() { break; }
        }
        m.trapdone(out, vect, prompt, -1);
        m.end(out);
    }
}

/// `lc3v replay interrupt hist=<file>`: a history is the program priority followed by placements
/// (step, vect1, prio1, vect2, prio2); program and handler are those of MC_Interrupt.
pub fn replay_interrupt(a: &Args, out: &mut Out) {
    let hist = std::fs::read_to_string(a.get_str("hist", "")).expect("hist file");
    set_pair_tag("none");
    crate::machine::LIGHT_HEADERS.with(|l| l.set(true));
    let prog = assemble_src("
.orig x3000
      AND R1, R1, #0
      ADD R1, R1, #3
LOOP  ADD R2, R2, #5
      ST R2, CNT
      ADD R6, R6, #-1
      STR R2, R6, #0
      ADD R1, R1, #-1
      BRp LOOP
      HALT
CNT   .fill 0
.end
");
    let handler = assemble_src("
.orig x1000
      ADD R6, R6, #-1
      STR R0, R6, #0
      LD R0, HC
      ADD R0, R0, #1
      ST R0, HC
      LDR R0, R6, #0
      ADD R6, R6, #1
      RTI
HC    .fill 0
.end
");
    let mut run = 0u64;
    for line in hist.lines() {
        if line.trim().is_empty() { continue; }
        let h: Vec<u32> = serde_json::from_str::<Vec<u64>>(line).expect("history").iter().map(|&x| x as u32).collect();
        run += 1;
        let mut m = M::new(run, known(0, false, false), out);
        m.load(out, &handler);
        m.load(out, &prog);
        m.set_mems(out, &[(0x190, word(0x1000, 0xFFFF)), (0x191, word(0x1000, 0xFFFF))]);
        for r in 0..8u16 { m.set_reg(out, r as u8, word(if r == 6 { 0xFD00 } else { r + 1 }, 0xFFFF)); }
        m.set_psr(out, 0x8002 + 256 * h[0] as u16);
        m.set_pc(out, 0x3000);
        let s1 = m.add_intfn(out);
        let s2 = m.add_intfn(out);
        let mut step = 0u32;
        loop {
            step += 1;
            let (mut c1, mut c2) = (IntCmd::default(), IntCmd::default());
            for p in h[1..].chunks(5) { if p[0] == step {
                if p[2] > 0 { c1 = IntCmd { k: 1, vect: p[1] as u8, prio: p[2] as u8 }; }
                if p[4] > 0 { c2 = IntCmd { k: 1, vect: p[3] as u8, prio: p[4] as u8 }; }
            } }
            m.set_int(s1, c1); m.set_int(s2, c2);
            let r = m.step(out, false, false);
            if r != "ok" || step >= 120 { break; }
            if m.sim.pc == 0x3008 && m.sim.verif_prefetch() && !m.sim.psr().privileged() { break; }
        }
        m.end(out);
    }
}
