//! Generator of abstract LC-3 assembly programs and their surface renderings.
//!
//! An abstract statement (`GStmt`) has the same shape as the record `js::nucleus`
//! produces for a parsed statement, so "what was written" and "what the parser
//! returned" are directly comparable (C03).  Rendering randomizes everything the
//! grammar leaves free: letter case, spacing, comments, blank lines, line-end style,
//! optional colons, labels on their own lines, numeric notation.

use rand::rngs::StdRng;
use rand::Rng;
use serde_json::{json, Value};

#[derive(Clone, Debug, Default)]
pub struct GStmt {
    pub labels: Vec<String>,
    pub k: String,
    pub a: i64,
    pub b: i64,
    pub c: i64,
    pub m: i64,
    pub lbl: String,
    pub s: String,
}
impl GStmt {
    pub fn new(k: &str, a: i64, b: i64, c: i64, m: i64) -> GStmt {
        GStmt { labels: vec![], k: k.to_string(), a, b, c, m, lbl: String::new(), s: String::new() }
    }
    pub fn lab(k: &str, a: i64, lbl: &str) -> GStmt {
        // label-operand form: for BR/LD/.. the register or cc is `a`
        GStmt { labels: vec![], k: k.to_string(), a, b: 0, c: 0, m: 2, lbl: lbl.to_string(), s: String::new() }
    }
    pub fn with_label(mut self, l: &str) -> GStmt { self.labels.push(l.to_string()); self }
    pub fn size(&self) -> u32 {
        match self.k.as_str() {
            ".orig" | ".end" | ".external" => 0,
            ".blkw" => self.a as u32,
            ".stringz" => self.s.len() as u32 + 1,
            _ => 1,
        }
    }
    pub fn is_pcrel(&self) -> bool { matches!(self.k.as_str(), "BR" | "LD" | "LDI" | "LEA" | "ST" | "STI" | "NOP" | "JSR") }
    pub fn json(&self) -> Value {
        json!({"labels": self.labels.iter().map(|l| crate::js::text(l)).collect::<Vec<_>>(),
               "n": {"k": self.k, "a": self.a, "b": self.b, "c": self.c, "m": self.m,
                     "lbl": crate::js::text(&self.lbl), "str": crate::js::text(&self.s)}})
    }
}

pub fn chance(rng: &mut StdRng, pct: u32) -> bool { rng.random_range(0..100) < pct }
pub fn pick<'a, T>(rng: &mut StdRng, xs: &'a [T]) -> &'a T { &xs[rng.random_range(0..xs.len())] }

// ---------------------------------------------------------------------------
// surface syntax

#[derive(Clone, Debug)]
pub struct Style {
    pub crlf: u32,        // % of line ends written as CRLF
    pub comments: u32,    // % of lines with a trailing comment
    pub blank: u32,       // % chance of blank/comment-only lines between statements
    pub own_line: u32,    // % of labels on their own line
    pub colon: u32,       // % of labels followed by a colon
    pub lower: u32,       // % lower-case / mixed-case keywords
    pub exotic: bool,     // non-ASCII text in comments
    pub final_nl: bool,
    pub plain_numbers: bool,
}
impl Style {
    pub fn random(rng: &mut StdRng) -> Style {
        Style {
            crlf: *pick(rng, &[0, 0, 100, 40]), comments: *pick(rng, &[0, 30, 80]), blank: *pick(rng, &[0, 20, 60]),
            own_line: *pick(rng, &[0, 30, 100]), colon: *pick(rng, &[0, 50, 100]), lower: *pick(rng, &[0, 50, 100]),
            exotic: chance(rng, 30), final_nl: chance(rng, 70), plain_numbers: false,
        }
    }
    pub fn plain() -> Style {
        Style { crlf: 0, comments: 0, blank: 0, own_line: 0, colon: 0, lower: 0, exotic: false, final_nl: true, plain_numbers: true }
    }
}

pub fn recase(rng: &mut StdRng, s: &str, lower: u32) -> String {
    match rng.random_range(0..100) {
        x if x >= lower => s.to_string(),
        x if x % 2 == 0 => s.to_lowercase(),
        _ => s.chars().map(|c| if rng.random_range(0..2) == 0 { c.to_ascii_lowercase() } else { c.to_ascii_uppercase() }).collect(),
    }
}

fn zeros(rng: &mut StdRng) -> &'static str { *pick(rng, &["", "", "", "0", "00"]) }

/// A value of a signed field (also used for non-negative values of unsigned fields).
pub fn num_signed(rng: &mut StdRng, v: i64, st: &Style) -> String {
    if st.plain_numbers { return format!("#{v}"); }
    let z = zeros(rng);
    if v >= 0 {
        match rng.random_range(0..6) {
            0 => format!("{z}{v}"),
            1 => format!("#{z}{v}"),
            2 => format!("x{z}{v:X}"),
            3 => format!("X{z}{v:x}"),
            4 => format!("x{v:x}"),
            _ => format!("#{v}"),
        }
    } else {
        let n = -v;
        match rng.random_range(0..5) {
            0 => format!("-{z}{n}"),
            1 => format!("#-{z}{n}"),
            2 => format!("x-{z}{n:X}"),
            3 => format!("X-{n:x}"),
            _ => format!("#-{n}"),
        }
    }
}
/// A 16-bit value of a sign-agnostic field (.fill): unsigned notation, or the negative
/// signed notation of the same bit pattern.
pub fn num_fill(rng: &mut StdRng, v: i64, st: &Style) -> String {
    if !st.plain_numbers && v >= 32768 && chance(rng, 40) { num_signed(rng, v - 65536, st) } else { num_signed(rng, v, st) }
}

pub fn escape_str(rng: &mut StdRng, s: &str) -> String {
    let mut o = String::from("\"");
    for ch in s.chars() {
        match ch {
            '"' => o.push_str("\\\""),
            '\\' => o.push_str("\\\\"),
            '\n' => o.push_str("\\n"),
            '\r' => o.push_str("\\r"),
            '\t' => if chance(rng, 50) { o.push_str("\\t") } else { o.push('\t') },
            '\0' => o.push_str("\\0"),
            c => o.push(c),
        }
    }
    o.push('"');
    o
}

#[derive(Clone, Debug, Default)]
pub struct Rendered {
    pub text: String,
    /// per statement: spans of the labels and of the nucleus (byte offsets)
    pub label_spans: Vec<Vec<(usize, usize)>>,
    pub nucleus_spans: Vec<(usize, usize)>,
    /// span of the label operand (0,0 if none)
    pub operand_spans: Vec<(usize, usize)>,
}

fn sp(rng: &mut StdRng) -> &'static str { *pick(rng, &[" ", " ", " ", "  ", "\t", " \t "]) }
fn osp(rng: &mut StdRng) -> &'static str { *pick(rng, &["", "", " ", "  ", "\t"]) }

fn comment(rng: &mut StdRng, st: &Style) -> String {
    let bodies = ["", " note", "; double", " ADD R0, R0, #1", " .end", " \"quote", " x3000: label", " tab\there"];
    let exotic = [" h\u{e9}llo \u{4e16}\u{754c}", " \u{1F600} emoji", " caf\u{e9} .orig", " a | b | c", "====================", " #hash # hash",
                  " back\\slash \\n \\", " ctl\u{1}\u{7f}\u{1b}", " \"unterminated", " 'q' \\' ", "\t\ttabs\t", " LINE | ADDR | SOURCE", " \u{85}nel\u{a0}nbsp\u{3000}",
                  " \u{0}nul0 \u{0}7", " .DEBUG", " ????"];
    let b = if st.exotic && chance(rng, 50) { *pick(rng, &exotic) } else { *pick(rng, &bodies) };
    format!(";{b}")
}

fn eol(rng: &mut StdRng, st: &Style, out: &mut String) {
    if chance(rng, st.comments) { out.push_str(osp(rng)); out.push_str(&comment(rng, st)); }
    else if chance(rng, 15) { out.push_str(osp(rng)); }
    if chance(rng, st.crlf) { out.push_str("\r\n"); } else { out.push('\n'); }
}

fn filler(rng: &mut StdRng, st: &Style, out: &mut String) {
    while chance(rng, st.blank) {
        if chance(rng, 50) { out.push_str(osp(rng)); out.push_str(&comment(rng, st)); } else { out.push_str(osp(rng)); }
        if chance(rng, st.crlf) { out.push_str("\r\n"); } else { out.push('\n'); }
    }
}

fn reg(rng: &mut StdRng, r: i64, st: &Style) -> String {
    if chance(rng, st.lower) { format!("r{r}") } else { format!("R{r}") }
}

/// Render one nucleus; returns (text, span of the label operand inside the text).
pub fn render_nucleus(rng: &mut StdRng, g: &GStmt, st: &Style) -> (String, (usize, usize)) {
    let mut t = String::new();
    let mut opspan = (0, 0);
    let kw = |rng: &mut StdRng, s: &str| recase(rng, s, st.lower);
    let comma = |rng: &mut StdRng| format!("{}{}{}", osp(rng), ",", osp(rng));
    let mut label_op = |t: &mut String, l: &str| { opspan = (t.len(), t.len() + l.len()); t.push_str(l); };
    match g.k.as_str() {
        "ADD" | "AND" => {
            t.push_str(&kw(rng, &g.k)); t.push_str(sp(rng));
            t.push_str(&reg(rng, g.a, st)); t.push_str(&comma(rng));
            t.push_str(&reg(rng, g.b, st)); t.push_str(&comma(rng));
            if g.m == 1 { t.push_str(&num_signed(rng, g.c, st)); } else { t.push_str(&reg(rng, g.c, st)); }
        }
        "NOT" => {
            t.push_str(&kw(rng, "NOT")); t.push_str(sp(rng));
            t.push_str(&reg(rng, g.a, st)); t.push_str(&comma(rng)); t.push_str(&reg(rng, g.b, st));
        }
        "JMP" | "JSRR" => { t.push_str(&kw(rng, &g.k)); t.push_str(sp(rng)); t.push_str(&reg(rng, g.a, st)); }
        "LDR" | "STR" => {
            t.push_str(&kw(rng, &g.k)); t.push_str(sp(rng));
            t.push_str(&reg(rng, g.a, st)); t.push_str(&comma(rng));
            t.push_str(&reg(rng, g.b, st)); t.push_str(&comma(rng));
            t.push_str(&num_signed(rng, g.c, st));
        }
        "BR" => {
            let cc = g.a;
            let mut name = String::from("BR");
            if cc == 7 && chance(rng, 50) { /* bare BR */ } else {
                if cc & 4 != 0 { name.push('n'); }
                if cc & 2 != 0 { name.push('z'); }
                if cc & 1 != 0 { name.push('p'); }
            }
            t.push_str(&kw(rng, &name)); t.push_str(sp(rng));
            if g.m == 2 { label_op(&mut t, &g.lbl); } else { t.push_str(&num_signed(rng, g.b, st)); }
        }
        "LD" | "LDI" | "LEA" | "ST" | "STI" => {
            t.push_str(&kw(rng, &g.k)); t.push_str(sp(rng));
            t.push_str(&reg(rng, g.a, st)); t.push_str(&comma(rng));
            if g.m == 2 { label_op(&mut t, &g.lbl); } else { t.push_str(&num_signed(rng, g.b, st)); }
        }
        "JSR" => {
            t.push_str(&kw(rng, "JSR")); t.push_str(sp(rng));
            if g.m == 2 { label_op(&mut t, &g.lbl); } else { t.push_str(&num_signed(rng, g.a, st)); }
        }
        "NOP" => {
            t.push_str(&kw(rng, "NOP"));
            if g.m == 2 { t.push_str(sp(rng)); label_op(&mut t, &g.lbl); }
            else if g.a != 0 || chance(rng, 40) { t.push_str(sp(rng)); t.push_str(&num_signed(rng, g.a, st)); }
        }
        "TRAP" => { t.push_str(&kw(rng, "TRAP")); t.push_str(sp(rng)); t.push_str(&num_signed(rng, g.a, st)); }
        ".orig" | ".blkw" => { t.push_str(&kw(rng, &g.k)); t.push_str(sp(rng)); t.push_str(&num_signed(rng, g.a, st)); }
        ".fill" => {
            t.push_str(&kw(rng, ".fill")); t.push_str(sp(rng));
            if g.m == 2 { label_op(&mut t, &g.lbl); } else { t.push_str(&num_fill(rng, g.a, st)); }
        }
        ".stringz" => { t.push_str(&kw(rng, ".stringz")); t.push_str(sp(rng)); t.push_str(&escape_str(rng, &g.s)); }
        ".external" => { t.push_str(&kw(rng, ".external")); t.push_str(sp(rng)); label_op(&mut t, &g.lbl); }
        other => { t.push_str(&kw(rng, other)); } // RET RTI GETC OUT PUTC PUTS IN PUTSP HALT .end
    }
    (t, opspan)
}

pub fn render(rng: &mut StdRng, prog: &[GStmt], st: &Style) -> Rendered {
    let mut r = Rendered::default();
    let out = &mut r.text;
    filler(rng, st, out);
    for (idx, g) in prog.iter().enumerate() {
        let mut lspans = vec![];
        if chance(rng, 60) { out.push_str(osp(rng)); }
        for l in &g.labels {
            lspans.push((out.len(), out.len() + l.len()));
            out.push_str(l);
            if chance(rng, st.colon) { out.push_str(if chance(rng, 20) { " :" } else { ":" }); }
            if chance(rng, st.own_line) { eol(rng, st, out); filler(rng, st, out); out.push_str(osp(rng)); }
            else { out.push_str(sp(rng)); }
        }
        let (t, op) = render_nucleus(rng, g, st);
        let s = out.len();
        out.push_str(&t);
        r.nucleus_spans.push((s, s + t.len()));
        r.operand_spans.push(if op == (0, 0) { (0, 0) } else { (s + op.0, s + op.1) });
        r.label_spans.push(lspans);
        if idx + 1 < prog.len() || st.final_nl { eol(rng, st, out); filler(rng, st, out); }
        else if chance(rng, st.comments) { out.push_str(osp(rng)); out.push_str(&comment(rng, st)); }
    }
    r
}

// ---------------------------------------------------------------------------
// programs

const KEYWORDS: [&str; 32] = ["ADD", "AND", "NOT", "BR", "BRP", "BRZ", "BRZP", "BRN", "BRNP", "BRNZ", "BRNZP", "JMP", "JSR", "JSRR",
    "LD", "LDI", "LDR", "LEA", "ST", "STI", "STR", "TRAP", "NOP", "RET", "RTI", "GETC", "OUT", "PUTC", "PUTS", "IN", "PUTSP", "HALT"];

/// A fresh label name (never a keyword, never lexed as a number or register).
thread_local! {
    /// Labels may contain non-ASCII word characters after the first one (the lexer's identifier rule is
    /// `[A-Za-z_]\w*` with Unicode `\w`): letters without case, a non-ASCII digit, and letters whose
    /// upper-case form has another UTF-8 length (U+FB01 -> "FI", U+017F -> "S", U+00DF -> "SS").
    /// Set by the assembler / linker / format domains; the parser domains keep ASCII labels.
    pub static EXOTIC_LABELS: std::cell::Cell<bool> = const { std::cell::Cell::new(false) };
}
const EXOTIC_LABEL_CHARS: [char; 5] = ['\u{4e16}', '\u{fb01}', '\u{17f}', '\u{df}', '\u{663}'];

pub fn label_name(rng: &mut StdRng, used: &mut Vec<String>) -> String {
    let first = b"ABCDEFGHIJKLMNOPQSTUVWYZ_abcdefghijklmnopqstuvwyz";
    let rest = b"ABCDEFGHIJKLMNOPQRSTUVWXYZabcdefghijklmnopqrstuvwxyz0123456789_";
    let exotic = EXOTIC_LABELS.with(|e| e.get()) && chance(rng, 12);
    loop {
        let n = rng.random_range(1..=6);
        let mut s = String::new();
        s.push(first[rng.random_range(0..first.len())] as char);
        for _ in 1..n {
            if exotic && chance(rng, 40) { s.push(*pick(rng, &EXOTIC_LABEL_CHARS)); }
            else { s.push(rest[rng.random_range(0..rest.len())] as char); }
        }
        // names that begin like a register (R7SAVE, r2d2, R1_x): identifiers, since a register token is R + digits only
        if chance(rng, 8) {
            let tail0 = b"ABCDEFGHIJKLMNOPQRSTUVWXYZabcdefghijklmnopqrstuvwxyz_";
            s = format!("{}{}{}", if chance(rng, 50) { 'R' } else { 'r' }, rng.random_range(0..10), tail0[rng.random_range(0..tail0.len())] as char);
            for _ in 0..rng.random_range(0..3) { s.push(rest[rng.random_range(0..rest.len())] as char); }
        }
        let up = s.to_uppercase();
        if KEYWORDS.contains(&up.as_str()) { continue; }
        if used.iter().any(|u| u.to_uppercase() == up) { continue; }
        used.push(s.clone());
        return s;
    }
}
/// Another spelling of the same label (labels are case-insensitive).
pub fn respell(rng: &mut StdRng, l: &str) -> String {
    match rng.random_range(0..4) { 0 => l.to_ascii_uppercase(), 1 => l.to_ascii_lowercase(), _ => l.to_string() }
}

fn rnd_reg(rng: &mut StdRng) -> i64 { rng.random_range(0..8) }
/// A value at, inside or near the limits of a signed `bits`-bit field (always inside).
fn fit_signed(rng: &mut StdRng, bits: u32) -> i64 {
    let lo = -(1i64 << (bits - 1));
    let hi = (1i64 << (bits - 1)) - 1;
    match rng.random_range(0..6) { 0 => lo, 1 => hi, 2 => 0, 3 => -1, 4 => 1, _ => rng.random_range(lo..=hi) }
}

pub fn string_body(rng: &mut StdRng, exotic: bool) -> String {
    let plain = ["", "a", "Hello, World!", "tab\there", "line\nbreak", "quote\"inside", "back\\slash", "nul\0mid", "cr\rlf", "; not a comment",
                 "C:\\new", "x\\r\\t\\0", "q\\\"", "\\\\n", "\\", "a\\\\", "\"\"",
                 "ends with backslash\\", "\\n literal", "  spaces  ", "%d %s", "'single'"];
    let exo = ["h\u{e9}llo", "\u{4e16}\u{754c}", "\u{1F600}", "a\u{7f}b", "\u{1}\u{2}", "mixed \u{e9}\"\\"];
    if exotic && chance(rng, 50) { pick(rng, &exo).to_string() } else { pick(rng, &plain).to_string() }
}

/// A random label-free statement that occupies memory.
pub fn plain_stmt(rng: &mut StdRng, exotic: bool) -> GStmt {
    match rng.random_range(0..30) {
        0 => GStmt::new("ADD", rnd_reg(rng), rnd_reg(rng), rnd_reg(rng), 0),
        1 => { let c = fit_signed(rng, 5); GStmt::new("ADD", rnd_reg(rng), rnd_reg(rng), c, 1) }
        2 => GStmt::new("AND", rnd_reg(rng), rnd_reg(rng), rnd_reg(rng), 0),
        3 => { let c = fit_signed(rng, 5); GStmt::new("AND", rnd_reg(rng), rnd_reg(rng), c, 1) }
        4 => GStmt::new("NOT", rnd_reg(rng), rnd_reg(rng), 0, 0),
        5 => { let b = fit_signed(rng, 9); GStmt::new("BR", rng.random_range(1..8), b, 0, 0) }
        6 => GStmt::new("JMP", rnd_reg(rng), 0, 0, 0),
        7 => GStmt::new("JSRR", rnd_reg(rng), 0, 0, 0),
        8 => { let a = fit_signed(rng, 11); GStmt::new("JSR", a, 0, 0, 0) }
        9 => { let k = *pick(rng, &["LD", "LDI", "LEA", "ST", "STI"]); let b = fit_signed(rng, 9); GStmt::new(k, rnd_reg(rng), b, 0, 0) }
        10 => { let k = *pick(rng, &["LDR", "STR"]); let c = fit_signed(rng, 6); GStmt::new(k, rnd_reg(rng), rnd_reg(rng), c, 0) }
        11 => GStmt::new("RET", 0, 0, 0, 0),
        12 => GStmt::new("RTI", 0, 0, 0, 0),
        13 => { let v = *pick(rng, &[0i64, 0x20, 0x25, 0x26, 0xFF, 0x80, 0x7F]); GStmt::new("TRAP", v, 0, 0, 0) }
        14 => { let a = fit_signed(rng, 9); GStmt::new("NOP", a, 0, 0, 0) }
        15 => GStmt::new("NOP", 0, 0, 0, 0),
        16 => GStmt::new(*pick(rng, &["GETC", "OUT", "PUTC", "PUTS", "IN", "PUTSP", "HALT"]), 0, 0, 0, 0),
        17 | 18 => { let v = *pick(rng, &[0i64, 1, 0x7FFF, 0x8000, 0xFFFF, 0xFFFE, 0x3000, 0x1234]); GStmt::new(".fill", v, 0, 0, 0) }
        19 => GStmt::new(".fill", rng.random_range(0..65536), 0, 0, 0),
        20 | 21 => GStmt::new(".blkw", *pick(rng, &[1i64, 1, 2, 3, 7, 16]), 0, 0, 0),
        22 | 23 => { let mut g = GStmt::new(".stringz", 0, 0, 0, 0); g.s = string_body(rng, exotic); g }
        _ => { let k = *pick(rng, &["LD", "ST", "LEA", "LDI", "STI"]); let b = fit_signed(rng, 9); GStmt::new(k, rnd_reg(rng), b, 0, 0) }
    }
}

pub struct ProgCfg { pub max_blocks: usize, pub max_body: usize, pub exotic: bool, pub externals: u32, pub faults: u32 }

/// A block body with boundary-offset gadgets; `faulty` adds offsets one past the limit.
fn body(rng: &mut StdRng, cfg: &ProgCfg, used: &mut Vec<String>, faulty: bool) -> Vec<GStmt> {
    let mut v: Vec<GStmt> = vec![];
    let n = rng.random_range(1..=cfg.max_body);
    for _ in 0..n {
        if chance(rng, 8) {
            // gadget: a PC-relative reference whose offset is exactly at (or one past) the field limit
            let l = label_name(rng, used);
            let jsr = chance(rng, 30);
            let lim: i64 = if jsr { 1023 } else { 255 };
            let over = if faulty && chance(rng, 50) { 1 } else { 0 };
            let k = if jsr { "JSR" } else { *pick(rng, &["LD", "LEA", "ST", "BR", "LDI", "STI", "NOP"]) };
            let a = if jsr || k == "NOP" { 0 } else if k == "BR" { rng.random_range(1..8) } else { rnd_reg(rng) };
            if chance(rng, 50) {
                // forward: offset = gap
                v.push(GStmt::lab(k, a, &respell(rng, &l)));
                v.push(GStmt::new(".blkw", lim + over, 0, 0, 0));
                v.push(plain_stmt(rng, cfg.exotic).with_label(&l));
            } else {
                // backward: offset = -(gap + 1)
                v.push(GStmt::new(".blkw", lim + over, 0, 0, 0).with_label(&l));
                v.push(GStmt::lab(k, a, &respell(rng, &l)));
            }
        } else {
            let mut g = plain_stmt(rng, cfg.exotic);
            if chance(rng, 35) { g.labels.push(label_name(rng, used)); }
            if chance(rng, 4) { g.labels.push(label_name(rng, used)); }
            // the same label again on the same address (allowed: no clash), in another spelling:
            // on the same statement, or on the .end / first statement of a touching block (see gen_program)
            if !g.labels.is_empty() && chance(rng, 6) { let l = respell(rng, &g.labels[0]); g.labels.push(l); }
            v.push(g);
        }
    }
    v
}

fn body_size(b: &[GStmt]) -> u32 { b.iter().map(|g| g.size()).sum() }

/// Generate a program.  Well-formed unless `cfg.faults` > 0 (then with that chance (in %) one to three
/// faults of the kinds C02 lists are injected).  Returns the statements.
pub fn gen_program(rng: &mut StdRng, cfg: &ProgCfg) -> Vec<GStmt> {
    let faulty = chance(rng, cfg.faults);
    let mut used: Vec<String> = vec![];
    let nb = rng.random_range(1..=cfg.max_blocks);
    let mut bodies: Vec<Vec<GStmt>> = vec![];
    for _ in 0..nb { let f = faulty && chance(rng, 30); bodies.push(body(rng, cfg, &mut used, f)); }
    if chance(rng, 10) { bodies.push(vec![]); } // an empty block
    // placement: walk the address space in a random order of blocks
    let total: u32 = bodies.iter().map(|b| body_size(b)).sum();
    let mut origins: Vec<u32> = vec![0; bodies.len()];
    let space = 0xFE00u32;
    if total + 16 < space {
        let mut order: Vec<usize> = (0..bodies.len()).collect();
        for i in (1..order.len()).rev() { let j = rng.random_range(0..=i); order.swap(i, j); }
        let mode = rng.random_range(0..6);
        let mut at: u32 = match mode { 0 => 0, 1 => 0x3000.min(space - total), 2 => 0x0200.min(space - total), 3 => space - total, _ => rng.random_range(0..=(space - total)) };
        let mut slack = space - total - at;
        for (n, &bi) in order.iter().enumerate() {
            origins[bi] = at;
            at += body_size(&bodies[bi]);
            if n + 1 < order.len() && slack > 0 && mode != 3 {
                let gap = match rng.random_range(0..4) { 0 => 0, 1 => 1, _ => rng.random_range(0..=slack.min(0x4000)) };
                at += gap; slack -= gap;
            }
        }
    }
    // block-level faults
    let mut fault_kinds: Vec<u32> = vec![];
    if faulty { for _ in 0..rng.random_range(1..=3) { fault_kinds.push(rng.random_range(0..16)); } }
    for &f in &fault_kinds {
        let bi = rng.random_range(0..bodies.len());
        let sz = body_size(&bodies[bi]);
        match f {
            0 if sz > 0 => origins[bi] = 0xFE00 - sz + 1,                 // one word into the I/O page
            1 if sz > 0 => origins[bi] = 0x10000 - sz,                     // ends exactly at x10000
            2 if sz > 0 => origins[bi] = 0x10000 - sz + 1,                 // wraps by one word
            3 if bodies.len() > 1 => {                                      // overlap by one word / same start
                let bj = (bi + 1) % bodies.len();
                let sj = body_size(&bodies[bj]);
                if sz > 0 && sj > 0 { origins[bj] = if chance(rng, 50) { origins[bi] } else { (origins[bi] + sz - 1).min(0xFFFF) }; }
            }
            _ => {}
        }
    }
    // assemble the statement list
    let mut prog: Vec<GStmt> = vec![];
    let mut src_order: Vec<usize> = (0..bodies.len()).collect();
    if chance(rng, 50) { for i in (1..src_order.len()).rev() { let j = rng.random_range(0..=i); src_order.swap(i, j); } }
    // externals
    let mut externals: Vec<String> = vec![];
    if chance(rng, cfg.externals) { for _ in 0..rng.random_range(1..=2) { externals.push(label_name(rng, &mut used)); } }
    let mut ext_decl_pending: Vec<String> = externals.clone();
    let ext_where = rng.random_range(0..3); // 0 = before everything, 1 = inside a block, 2 = after everything
    if ext_where == 0 { for e in ext_decl_pending.drain(..) { let mut g = GStmt::new(".external", 0, 0, 0, 2); g.lbl = e; prog.push(g); } }
    let mut pending_first_label: Option<(usize, String)> = None;
    for (n, &bi) in src_order.iter().enumerate() {
        prog.push(GStmt::new(".orig", origins[bi].min(0xFFFF) as i64, 0, 0, 0));
        let mut b = bodies[bi].clone();
        if let Some((bj, l)) = pending_first_label.take() { if bj == bi && !b.is_empty() { b[0].labels.insert(0, l); } }
        // uses of externals
        for e in &externals { if chance(rng, 60) && !b.is_empty() {
            let at = rng.random_range(0..=b.len());
            let mut g = GStmt::new(".fill", 0, 0, 0, 2); g.lbl = respell(rng, e);
            // keep the block size: replace a statement of size 1 if possible
            if let Some(p) = (0..b.len()).find(|&p| b[p].size() == 1 && b[p].labels.is_empty() && !b[p].is_pcrel() && p >= at.min(b.len() - 1)) { g.labels = b[p].labels.clone(); b[p] = g; }
        } }
        if ext_where == 1 && n == 0 { for e in ext_decl_pending.drain(..) {
            let mut g = GStmt::new(".external", 0, 0, 0, 2); g.lbl = e;
            let at = rng.random_range(0..=b.len()); b.insert(at, g);
        } }
        prog.extend(b);
        let mut end = GStmt::new(".end", 0, 0, 0, 0);
        if chance(rng, 8) { end.labels.push(label_name(rng, &mut used)); }
        // a label on `.end` has the address just past the block: repeat it (other spelling) on the first
        // statement of a block that starts exactly there, if the next block in source order does
        if let Some(&bj) = src_order.get(n + 1) {
            let this_end = origins[bi] + body_size(&bodies[bi]);
            if origins[bj] == this_end && !bodies[bj].is_empty() && chance(rng, 60) {
                let l = if let Some(l) = end.labels.first() { l.clone() } else { let l = label_name(rng, &mut used); end.labels.push(l.clone()); l };
                pending_first_label = Some((bj, respell(rng, &l)));
            }
        }
        prog.push(end);
    }
    for e in ext_decl_pending.drain(..) { let mut g = GStmt::new(".external", 0, 0, 0, 2); g.lbl = e; prog.push(g); }

    // addresses of all labels (for choosing label operands that fit)
    let addr_of = |prog: &[GStmt]| -> Vec<i64> {
        let mut lc: i64 = -1; let mut v = vec![];
        for g in prog { match g.k.as_str() { ".orig" => { v.push(-1); lc = g.a; } ".end" => { v.push(lc); lc = -1; } _ => { v.push(lc); if lc >= 0 { lc += g.size() as i64; } } } }
        v
    };
    let addrs = addr_of(&prog);
    let mut defs: Vec<(String, i64)> = vec![];
    for (g, &a) in prog.iter().zip(addrs.iter()) { if a >= 0 { for l in &g.labels { defs.push((l.clone(), a)); } } }
    // turn some numeric PC-relative operands and .fill values into label operands that fit
    for i in 0..prog.len() {
        let a = addrs[i];
        if a < 0 || defs.is_empty() { continue; }
        let g = &prog[i];
        if g.m == 0 && g.is_pcrel() && chance(rng, 45) {
            let bits = if g.k == "JSR" { 11 } else { 9 };
            let (lo, hi) = (-(1i64 << (bits - 1)), (1i64 << (bits - 1)) - 1);
            let cands: Vec<&(String, i64)> = defs.iter().filter(|(_, t)| { let d = t - (a + 1); d >= lo && d <= hi }).collect();
            if !cands.is_empty() {
                let (l, _) = cands[rng.random_range(0..cands.len())];
                let l = respell(rng, l);
                let g = &mut prog[i];
                g.m = 2; g.lbl = l;
                if g.k == "JSR" || g.k == "NOP" { g.a = 0; } else { g.b = 0; }
            }
        } else if g.k == ".fill" && g.m == 0 && chance(rng, 30) {
            let (l, _) = &defs[rng.random_range(0..defs.len())];
            let l = respell(rng, l);
            let g = &mut prog[i];
            g.m = 2; g.lbl = l; g.a = 0;
        }
    }
    // statement-level faults
    for &f in &fault_kinds {
        if prog.is_empty() { break; }
        let i = rng.random_range(0..prog.len());
        match f {
            4 => { if let Some(p) = prog.iter().rposition(|g| g.k == ".end") { if chance(rng, 50) { prog.remove(p); } else { let q = prog.iter().position(|g| g.k == ".end").unwrap(); prog.remove(q); } } }
            5 => { if let Some(p) = prog.iter().position(|g| g.k == ".orig") { if chance(rng, 50) { prog.remove(p); } else { let q = prog.iter().rposition(|g| g.k == ".orig").unwrap(); prog.remove(q); } } }
            6 => { prog.insert(i, GStmt::new(".orig", *pick(rng, &[0x3000i64, 0x4000, 0]), 0, 0, 0)); }
            7 => { prog.insert(i, GStmt::new(".end", 0, 0, 0, 0)); }
            8 => { // duplicate label (other case) somewhere else
                if !defs.is_empty() { let (l, _) = &defs[rng.random_range(0..defs.len())]; let l2 = respell(rng, l); prog[i].labels.push(l2); } }
            9 => { // reference to an undefined label
                let l = label_name(rng, &mut used);
                let k = *pick(rng, &["LD", "BR", "JSR", ".fill", "LEA"]);
                let g = if k == ".fill" { let mut g = GStmt::new(".fill", 0, 0, 0, 2); g.lbl = l; g } else { GStmt::lab(k, if k == "BR" { 7 } else { 0 }, &l) };
                // replace a one-word statement to keep sizes
                if let Some(p) = (0..prog.len()).find(|&p| prog[p].size() == 1 && p >= i) { let ls = prog[p].labels.clone(); prog[p] = g; prog[p].labels = ls; }
            }
            10 => { // external label in a PC-relative operand
                let e = if externals.is_empty() { let e = label_name(rng, &mut used); let mut g = GStmt::new(".external", 0, 0, 0, 2); g.lbl = e.clone(); prog.insert(0, g); e } else { externals[0].clone() };
                if let Some(p) = (0..prog.len()).find(|&p| prog[p].size() == 1 && prog[p].k != ".fill" && p >= i) {
                    let e2 = respell(rng, &e);
                    let ls = prog[p].labels.clone(); prog[p] = GStmt::lab(*pick(rng, &["LD", "LEA", "JSR", "BR"]), 1, &e2); if prog[p].k == "JSR" { prog[p].a = 0; } prog[p].labels = ls; }
            }
            11 => { // a statement outside every block
                let g = plain_stmt(rng, false);
                if chance(rng, 50) { prog.insert(0, g); } else { prog.push(g); }
            }
            12 => { // a label outside every block
                let l = label_name(rng, &mut used);
                if let Some(p) = prog.iter().position(|g| g.k == ".orig") { prog[p].labels.push(l); }
            }
            13 => { // an .external clashing with a defined label
                if !defs.is_empty() { let (l, _) = &defs[rng.random_range(0..defs.len())]; let mut g = GStmt::new(".external", 0, 0, 0, 2); g.lbl = respell(rng, l);
                    if chance(rng, 50) { prog.insert(0, g); } else { prog.push(g); } }
            }
            14 => { // `.fill EXT` outside every block
                let e = if externals.is_empty() { let e = label_name(rng, &mut used); let mut g = GStmt::new(".external", 0, 0, 0, 2); g.lbl = e.clone(); prog.insert(0, g); e } else { externals[0].clone() };
                let mut g = GStmt::new(".fill", 0, 0, 0, 2); g.lbl = e; prog.push(g);
            }
            _ => {}
        }
    }
    prog
}
