//! Projection of crate values into the JSON vocabulary of the specification
//! (DESIGN.md Appendix C).  No JSON null, no integers >= 2^31, no non-ASCII
//! strings: text is an array of code points.

use lc3_ensemble::ast::asm::{AsmInstr, Directive, Stmt, StmtKind};
use lc3_ensemble::ast::sim::SimInstr;
use lc3_ensemble::ast::{ImmOrReg, PCOffset, Reg};
use serde_json::{json, Value};

pub fn reg(r: Reg) -> i64 { r.reg_no() as i64 }

pub fn text(s: &str) -> Value {
    Value::Array(s.chars().map(|c| json!(c as u32)).collect())
}
pub fn bytes(b: &[u8]) -> Value {
    Value::Array(b.iter().map(|c| json!(*c)).collect())
}

fn i(op: &str, a: i64, b: i64, c: i64, m: i64) -> Value {
    json!({"op": op, "a": a, "b": b, "c": c, "m": m})
}

/// Uniform record for a bytecode instruction (spec/Isa.tla).
pub fn sim_instr(si: &SimInstr) -> Value {
    match *si {
        SimInstr::BR(cc, off) => i("BR", cc as i64, off.get() as i64, 0, 0),
        SimInstr::ADD(dr, sr1, ImmOrReg::Imm(v)) => i("ADD", reg(dr), reg(sr1), v.get() as i64, 1),
        SimInstr::ADD(dr, sr1, ImmOrReg::Reg(r)) => i("ADD", reg(dr), reg(sr1), reg(r), 0),
        SimInstr::AND(dr, sr1, ImmOrReg::Imm(v)) => i("AND", reg(dr), reg(sr1), v.get() as i64, 1),
        SimInstr::AND(dr, sr1, ImmOrReg::Reg(r)) => i("AND", reg(dr), reg(sr1), reg(r), 0),
        SimInstr::LD(r, off) => i("LD", reg(r), off.get() as i64, 0, 0),
        SimInstr::ST(r, off) => i("ST", reg(r), off.get() as i64, 0, 0),
        SimInstr::LDI(r, off) => i("LDI", reg(r), off.get() as i64, 0, 0),
        SimInstr::STI(r, off) => i("STI", reg(r), off.get() as i64, 0, 0),
        SimInstr::LEA(r, off) => i("LEA", reg(r), off.get() as i64, 0, 0),
        SimInstr::JSR(ImmOrReg::Imm(off)) => i("JSR", off.get() as i64, 0, 0, 1),
        SimInstr::JSR(ImmOrReg::Reg(r)) => i("JSR", reg(r), 0, 0, 0),
        SimInstr::LDR(r, b, off) => i("LDR", reg(r), reg(b), off.get() as i64, 0),
        SimInstr::STR(r, b, off) => i("STR", reg(r), reg(b), off.get() as i64, 0),
        SimInstr::RTI => i("RTI", 0, 0, 0, 0),
        SimInstr::NOT(dr, sr) => i("NOT", reg(dr), reg(sr), 0, 0),
        SimInstr::JMP(r) => i("JMP", reg(r), 0, 0, 0),
        SimInstr::TRAP(v) => i("TRAP", v.get() as i64, 0, 0, 0),
    }
}
pub fn res_instr() -> Value { i("RES", 0, 0, 0, 0) }

fn s(k: &str, a: i64, b: i64, c: i64, m: i64, lbl: &str, sv: &str) -> Value {
    json!({"k": k, "a": a, "b": b, "c": c, "m": m, "lbl": text(lbl), "str": text(sv), "strb": bytes(sv.as_bytes()), "ls": 0, "le": 0})
}
/// The span of the label operand of a nucleus, if it has one.
pub fn label_operand(n: &StmtKind) -> Option<&lc3_ensemble::ast::Label> {
    fn p<OFF, const N: u32>(p: &PCOffset<OFF, N>) -> Option<&lc3_ensemble::ast::Label> {
        match p { PCOffset::Label(l) => Some(l), _ => None }
    }
    match n {
        StmtKind::Instr(ai) => match ai {
            AsmInstr::BR(_, o) | AsmInstr::LD(_, o) | AsmInstr::LDI(_, o) | AsmInstr::LEA(_, o) | AsmInstr::ST(_, o) | AsmInstr::STI(_, o) | AsmInstr::NOP(o) => p(o),
            AsmInstr::JSR(o) => p(o),
            _ => None,
        },
        StmtKind::Directive(Directive::Fill(o)) => p(o),
        StmtKind::Directive(Directive::External(l)) => Some(l),
        _ => None,
    }
}

/// (m, value, label) of a PC-offset operand: m = 0 numeric offset, m = 2 label.
fn pcoff<OFF: Copy + Into<i64>, const N: u32>(p: &PCOffset<OFF, N>) -> (i64, i64, String)
where lc3_ensemble::ast::Offset<OFF, N>: OffGet {
    match p {
        PCOffset::Offset(o) => (0, o.getv(), String::new()),
        PCOffset::Label(l) => (2, 0, l.name.clone()),
    }
}
pub trait OffGet { fn getv(&self) -> i64; }
impl<const N: u32> OffGet for lc3_ensemble::ast::Offset<i16, N> { fn getv(&self) -> i64 { self.get() as i64 } }
impl<const N: u32> OffGet for lc3_ensemble::ast::Offset<u16, N> { fn getv(&self) -> i64 { self.get() as i64 } }

/// Uniform record for an assembly statement nucleus (spec/Isa.tla `S`, spec/Asm.tla):
/// {k, a, b, c, m, lbl, str}.  m: 0 = register/numeric form, 1 = immediate form of
/// ADD/AND, 2 = label operand (name in lbl).
pub fn nucleus(n: &StmtKind) -> Value {
    let mut v = nucleus0(n);
    if let Some(l) = label_operand(n) { v["ls"] = json!(l.span().start); v["le"] = json!(l.span().end); }
    v
}
fn nucleus0(n: &StmtKind) -> Value {
    match n {
        StmtKind::Instr(ai) => match ai {
            AsmInstr::ADD(dr, sr1, ImmOrReg::Imm(v)) => s("ADD", reg(*dr), reg(*sr1), v.get() as i64, 1, "", ""),
            AsmInstr::ADD(dr, sr1, ImmOrReg::Reg(r)) => s("ADD", reg(*dr), reg(*sr1), reg(*r), 0, "", ""),
            AsmInstr::AND(dr, sr1, ImmOrReg::Imm(v)) => s("AND", reg(*dr), reg(*sr1), v.get() as i64, 1, "", ""),
            AsmInstr::AND(dr, sr1, ImmOrReg::Reg(r)) => s("AND", reg(*dr), reg(*sr1), reg(*r), 0, "", ""),
            AsmInstr::BR(cc, p) => { let (m, v, l) = pcoff(p); s("BR", *cc as i64, v, 0, m, &l, "") }
            AsmInstr::JMP(r) => s("JMP", reg(*r), 0, 0, 0, "", ""),
            AsmInstr::JSR(p) => { let (m, v, l) = pcoff(p); s("JSR", v, 0, 0, m, &l, "") }
            AsmInstr::JSRR(r) => s("JSRR", reg(*r), 0, 0, 0, "", ""),
            AsmInstr::LD(r, p) => { let (m, v, l) = pcoff(p); s("LD", reg(*r), v, 0, m, &l, "") }
            AsmInstr::LDI(r, p) => { let (m, v, l) = pcoff(p); s("LDI", reg(*r), v, 0, m, &l, "") }
            AsmInstr::LEA(r, p) => { let (m, v, l) = pcoff(p); s("LEA", reg(*r), v, 0, m, &l, "") }
            AsmInstr::ST(r, p) => { let (m, v, l) = pcoff(p); s("ST", reg(*r), v, 0, m, &l, "") }
            AsmInstr::STI(r, p) => { let (m, v, l) = pcoff(p); s("STI", reg(*r), v, 0, m, &l, "") }
            AsmInstr::LDR(r, b, o) => s("LDR", reg(*r), reg(*b), o.get() as i64, 0, "", ""),
            AsmInstr::STR(r, b, o) => s("STR", reg(*r), reg(*b), o.get() as i64, 0, "", ""),
            AsmInstr::NOT(dr, sr) => s("NOT", reg(*dr), reg(*sr), 0, 0, "", ""),
            AsmInstr::RET => s("RET", 0, 0, 0, 0, "", ""),
            AsmInstr::RTI => s("RTI", 0, 0, 0, 0, "", ""),
            AsmInstr::TRAP(v) => s("TRAP", v.get() as i64, 0, 0, 0, "", ""),
            AsmInstr::NOP(p) => { let (m, v, l) = pcoff(p); s("NOP", v, 0, 0, m, &l, "") }
            AsmInstr::GETC => s("GETC", 0, 0, 0, 0, "", ""),
            AsmInstr::OUT => s("OUT", 0, 0, 0, 0, "", ""),
            AsmInstr::PUTC => s("PUTC", 0, 0, 0, 0, "", ""),
            AsmInstr::PUTS => s("PUTS", 0, 0, 0, 0, "", ""),
            AsmInstr::IN => s("IN", 0, 0, 0, 0, "", ""),
            AsmInstr::PUTSP => s("PUTSP", 0, 0, 0, 0, "", ""),
            AsmInstr::HALT => s("HALT", 0, 0, 0, 0, "", ""),
        },
        StmtKind::Directive(d) => match d {
            Directive::Orig(a) => s(".orig", a.get() as i64, 0, 0, 0, "", ""),
            Directive::Fill(p) => { let (m, v, l) = pcoff(p); s(".fill", v, 0, 0, m, &l, "") }
            Directive::Blkw(n) => s(".blkw", n.get() as i64, 0, 0, 0, "", ""),
            Directive::Stringz(t) => s(".stringz", 0, 0, 0, 0, "", t),
            Directive::End => s(".end", 0, 0, 0, 0, "", ""),
            Directive::External(l) => s(".external", 0, 0, 0, 2, &l.name, ""),
        },
    }
}

/// Full statement: labels (name + span start), nucleus, nucleus span.
pub fn stmt(st: &Stmt) -> Value {
    json!({
        "labels": st.labels.iter().map(|l| json!({"name": text(&l.name), "s": l.span().start, "e": l.span().end})).collect::<Vec<_>>(),
        "n": nucleus(&st.nucleus),
        "s": st.span.start,
        "e": st.span.end,
    })
}

/// Run `f` under catch_unwind; Err(()) if the code under test panicked.
pub fn guard<T>(f: impl FnOnce() -> T) -> Result<T, ()> {
    IN_GUARD.with(|g| g.set(g.get() + 1));
    let r = std::panic::catch_unwind(std::panic::AssertUnwindSafe(f)).map_err(|_| ());
    IN_GUARD.with(|g| g.set(g.get() - 1));
    r
}
thread_local! { pub static IN_GUARD: std::cell::Cell<u32> = const { std::cell::Cell::new(0) }; }

pub fn nucleus_none() -> Value { s("none", 0, 0, 0, 0, "", "") }

// ---------------------------------------------------------------------------
// object files and symbol tables

use lc3_ensemble::asm::{ObjectFile, SymbolTable};

/// Projection of a symbol table: labels (stored key, address, external flag, source offset),
/// relocation entries, line table, source text (bytes).  All lists sorted.
pub fn symtab(st: &SymbolTable) -> Value {
    let mut labels: Vec<(String, u16, bool, i64)> = st.label_iter()
        .map(|(k, a, x)| (k.to_string(), a, x, st.verif_label_src_start(k).map(|v| v as i64).unwrap_or(-1))).collect();
    labels.sort();
    let mut rel: Vec<(u16, String)> = st.verif_rel_iter().map(|(a, l)| (a, l.to_string())).collect();
    rel.sort();
    let lines: Vec<(usize, u16)> = st.line_iter().collect();
    let (dbg, src) = match st.source_info() { Some(si) => (1, bytes(si.source().as_bytes())), None => (0, json!([])) };
    json!({
        "labels": labels.iter().map(|(k, a, x, s)| json!({"k": text(k), "a": a, "x": *x as u8, "src": s})).collect::<Vec<_>>(),
        "rel": rel.iter().map(|(a, l)| json!([a, text(l)])).collect::<Vec<_>>(),
        "lines": lines.iter().map(|(l, a)| json!([l, a])).collect::<Vec<_>>(),
        "dbg": dbg, "src": src,
    })
}
pub fn symtab_none() -> Value { json!({"labels": [], "rel": [], "lines": [], "dbg": 0, "src": []}) }

/// Projection of an object file: blocks (start, words; -1 = reserved word) and symbol table.
pub fn obj(o: &ObjectFile) -> Value {
    let blocks: Vec<Value> = o.verif_block_iter()
        .map(|(s, w)| json!({"s": s, "w": w.iter().map(|x| x.map(|v| v as i64).unwrap_or(-1)).collect::<Vec<_>>()})).collect();
    match o.symbol_table() {
        Some(st) => json!({"blocks": blocks, "sym": 1, "st": symtab(st)}),
        None => json!({"blocks": blocks, "sym": 0, "st": symtab_none()}),
    }
}
pub fn obj_none() -> Value { json!({"blocks": [], "sym": 0, "st": symtab_none()}) }
