//! Table domains: independent call records of pure functions, checked by TLC
//! against the transcribed operators (spec/TV_Tables.tla).

use crate::{js, Args, Out};
use lc3_ensemble::asm::assemble;
use lc3_ensemble::ast::asm::disassemble_line;
use lc3_ensemble::ast::sim::SimInstr;
use lc3_ensemble::ast::{IOffset, ImmOrReg, Offset, Reg, TrapVect8};
use lc3_ensemble::parse::parse_ast;
use lc3_ensemble::sim::SimErr;
use serde_json::json;

fn err_name(e: &SimErr) -> &'static str {
    match e {
        SimErr::IllegalOpcode => "IllegalOpcode",
        SimErr::InvalidInstrFormat => "InvalidInstrFormat",
        _ => "Other",
    }
}

/// C06 (decode direction): the real decoder on all 65 536 words.
pub fn emit_decode(_a: &Args, out: &mut Out) {
    for w in 0..=u16::MAX {
        let r = js::guard(|| SimInstr::decode(w));
        let rec = match r {
            Err(()) => json!({"ev":"Decode","w":w,"panic":1,"ok":0,"err":"Panic","i":js::res_instr(),"re":-1}),
            Ok(Ok(si)) => {
                let re = js::guard(|| si.encode()).map(|x| x as i64).unwrap_or(-1);
                json!({"ev":"Decode","w":w,"panic":0,"ok":1,"err":"none","i":js::sim_instr(&si),"re":re})
            }
            Ok(Err(e)) => json!({"ev":"Decode","w":w,"panic":0,"ok":0,"err":err_name(&e),"i":js::res_instr(),"re":-1}),
        };
        out.emit(rec);
    }
}

fn regs() -> Vec<Reg> { (0..8u8).map(|r| Reg::try_from(r).unwrap()).collect() }
fn offs<const N: u32>() -> Vec<IOffset<N>> {
    let lo = -(1i32 << (N - 1));
    let hi = (1i32 << (N - 1)) - 1;
    (lo..=hi).map(|v| IOffset::<N>::new(v as i16).expect("in range")).collect()
}

/// All representable instructions, built from the public constructors
/// (never through `decode`).
pub fn all_instrs() -> Vec<SimInstr> {
    let mut v = vec![];
    let rs = regs();
    for cc in 0..8u8 { for o in offs::<9>() { v.push(SimInstr::BR(cc, o)); } }
    for &dr in &rs { for &sr in &rs {
        for &r2 in &rs {
            v.push(SimInstr::ADD(dr, sr, ImmOrReg::Reg(r2)));
            v.push(SimInstr::AND(dr, sr, ImmOrReg::Reg(r2)));
        }
        for o in offs::<5>() {
            v.push(SimInstr::ADD(dr, sr, ImmOrReg::Imm(o)));
            v.push(SimInstr::AND(dr, sr, ImmOrReg::Imm(o)));
        }
        for o in offs::<6>() {
            v.push(SimInstr::LDR(dr, sr, o));
            v.push(SimInstr::STR(dr, sr, o));
        }
        v.push(SimInstr::NOT(dr, sr));
    }}
    for &r in &rs { for o in offs::<9>() {
        v.push(SimInstr::LD(r, o)); v.push(SimInstr::ST(r, o));
        v.push(SimInstr::LDI(r, o)); v.push(SimInstr::STI(r, o));
        v.push(SimInstr::LEA(r, o));
    }}
    for o in offs::<11>() { v.push(SimInstr::JSR(ImmOrReg::Imm(o))); }
    for &r in &rs { v.push(SimInstr::JSR(ImmOrReg::Reg(r))); v.push(SimInstr::JMP(r)); }
    v.push(SimInstr::RTI);
    for t in 0..256u16 { v.push(SimInstr::TRAP(TrapVect8::new(t).unwrap())); }
    v
}

/// C06 (encode direction): the real encoder on every representable instruction,
/// then the real decoder on the result.
pub fn emit_encode(_a: &Args, out: &mut Out) {
    for si in all_instrs() {
        let w = js::guard(|| si.encode());
        let rec = match w {
            Err(()) => json!({"ev":"Encode","i":js::sim_instr(&si),"panic":1,"w":-1,"back_ok":0,"back":js::res_instr()}),
            Ok(w) => match js::guard(|| SimInstr::decode(w)) {
                Ok(Ok(b)) => json!({"ev":"Encode","i":js::sim_instr(&si),"panic":0,"w":w,"back_ok":1,"back":js::sim_instr(&b)}),
                Ok(Err(_)) => json!({"ev":"Encode","i":js::sim_instr(&si),"panic":0,"w":w,"back_ok":0,"back":js::res_instr()}),
                Err(()) => json!({"ev":"Encode","i":js::sim_instr(&si),"panic":1,"w":w,"back_ok":0,"back":js::res_instr()}),
            },
        };
        out.emit(rec);
    }
}

/// Assemble `text` placed alone in a block at `orig`; the single word produced,
/// -1 on parse/assemble failure or panic, -2 if not exactly one word.
fn reassemble(text: &str, orig: u16) -> i64 {
    let src = format!(".orig x{orig:04X}\n{text}\n.end\n");
    let r = js::guard(|| {
        let ast = parse_ast(&src).map_err(|_| ())?;
        let obj = assemble(ast).map_err(|_| ())?;
        let words: Vec<_> = obj.addr_iter().collect();
        Ok::<_, ()>(words)
    });
    match r {
        Ok(Ok(words)) => {
            if words.len() == 1 && words[0].0 == orig {
                words[0].1.map(|w| w as i64).unwrap_or(-3)
            } else { -2 }
        }
        _ => -1,
    }
}

/// C07: disassemble every word, print it, reassemble the text at several origins.
pub fn emit_disasm(_a: &Args, out: &mut Out) {
    for w in 0..=u16::MAX {
        let st = js::guard(|| disassemble_line(w));
        let rec = match st {
            Err(()) => json!({"ev":"Disasm","w":w,"panic":1,"stmt":js::nucleus_none(),"nlabels":0,"text":[],"re":[-1,-1,-1]}),
            Ok(st) => {
                let text = js::guard(|| st.to_string());
                match text {
                    Err(()) => json!({"ev":"Disasm","w":w,"panic":1,"stmt":js::nucleus(&st.nucleus),"nlabels":st.labels.len(),"text":[],"re":[-1,-1,-1]}),
                    Ok(t) => {
                        let re: Vec<i64> = [0x0000u16, 0x3000, 0xFDFF].iter().map(|&o| reassemble(&t, o)).collect();
                        json!({"ev":"Disasm","w":w,"panic":0,"stmt":js::nucleus(&st.nucleus),"nlabels":st.labels.len(),"text":js::text(&t),"re":re})
                    }
                }
            }
        };
        out.emit(rec);
    }
}

macro_rules! offset_cases {
    ($out:expr, $vals_i:expr, $vals_u:expr, $($n:literal),*) => {$(
        for &v in $vals_i.iter() {
            let r = js::guard(|| (Offset::<i16, $n>::new(v).map(|o| o.get()), Offset::<i16, $n>::new_trunc(v).get()));
            let rec = match r {
                Err(()) => json!({"ev":"Offset","s":1,"n":$n,"v":v,"panic":1,"new_ok":0,"new_v":0,"trunc":0}),
                Ok((n, t)) => json!({"ev":"Offset","s":1,"n":$n,"v":v,"panic":0,
                    "new_ok": n.is_ok() as u8, "new_v": n.unwrap_or(0), "trunc": t}),
            };
            $out.emit(rec);
        }
        for &v in $vals_u.iter() {
            let r = js::guard(|| (Offset::<u16, $n>::new(v).map(|o| o.get()), Offset::<u16, $n>::new_trunc(v).get()));
            let rec = match r {
                Err(()) => json!({"ev":"Offset","s":0,"n":$n,"v":v,"panic":1,"new_ok":0,"new_v":0,"trunc":0}),
                Ok((n, t)) => json!({"ev":"Offset","s":0,"n":$n,"v":v,"panic":0,
                    "new_ok": n.is_ok() as u8, "new_v": n.unwrap_or(0), "trunc": t}),
            };
            $out.emit(rec);
        }
    )*};
}

/// C35: Offset::<i16|u16, N>::new / new_trunc / get for N = 1..16.
/// quick: values within +-3 of every power of two and of the type limits plus
/// random ones; thorough (or `n=<N>` with `all=1`): every value.
pub fn emit_offset(a: &Args, out: &mut Out) {
    use rand::{Rng, SeedableRng};
    let mut rng = rand::rngs::StdRng::seed_from_u64(a.seed ^ 0x0ff5e7);
    let all = a.thorough() || a.get_u64("all", 0) == 1;
    let (vi, vu): (Vec<i16>, Vec<u16>) = if all {
        ((i16::MIN..=i16::MAX).collect(), (0..=u16::MAX).collect())
    } else {
        let mut si = std::collections::BTreeSet::new();
        let mut su = std::collections::BTreeSet::new();
        for p in 0..=16u32 {
            for d in -3i64..=3 {
                let x = (1i64 << p) + d;
                for y in [x, -x] {
                    if (i16::MIN as i64..=i16::MAX as i64).contains(&y) { si.insert(y as i16); }
                    if (0..=u16::MAX as i64).contains(&y) { su.insert(y as u16); }
                }
            }
        }
        for d in 0..4 { si.insert(i16::MIN + d); si.insert(i16::MAX - d); su.insert(d as u16); su.insert(u16::MAX - d as u16); }
        for _ in 0..125 { si.insert(rng.random()); su.insert(rng.random()); }
        (si.into_iter().collect(), su.into_iter().collect())
    };
    let only = a.get_u64("n", 0);
    macro_rules! go { ($($n:literal),*) => {$( if only == 0 || only == $n { offset_cases!(out, vi, vu, $n); } )*}; }
    go!(1, 2, 3, 4, 5, 6, 7, 8, 9, 10, 11, 12, 13, 14, 15, 16);
}

/// C15: the real Word operators on operand pairs with full, empty and partial masks.
/// kind "enum": structured pairs with at most 8 unknown bits in total (TLC enumerates
/// every completion itself); kind "rand": arbitrary masks, the unknown bits re-randomized
/// 64 times through the real operators; every record also carries the operation on the
/// operands with their unknown bits re-drawn (`rr`: [a', b', value, mask]).
pub fn emit_wordop(a: &Args, out: &mut Out) {
    use lc3_ensemble::sim::mem::Word;
    use rand::{Rng, SeedableRng};
    let mut rng = rand::rngs::StdRng::seed_from_u64(a.seed ^ 0x30_0d);
    let n = a.get_u64("n", if a.thorough() { 60_000 } else { 4_000 });
    let wd = |v: u16, m: u16| Word::verif_from_parts(v, m);
    let apply = |op: &str, x: Word, y: Word| -> Word {
        match op {
            "add" => x + y, "sub" => x - y, "and" => x & y, "not" => !x,
            // the scalar assign forms (`Word += u16` etc., used for the stack pointer): the same rule with a fully
            // initialized right operand
            "add+=u" => { let mut w = x; w += y.get(); w }
            "add+=i" => { let mut w = x; w += y.get() as i16; w }
            "sub-=u" => { let mut w = x; w -= y.get(); w }
            _ => { let mut w = x; w -= y.get() as i16; w }
        }
    };
    let vals: [u16; 12] = [0, 1, 2, 0x7FFF, 0x8000, 0xFFFF, 0xFFFE, 0x00FF, 0xFF00, 0x5555, 0xAAAA, 0x1234];
    for k in 0..n {
        let form = ["add", "sub", "and", "not", "add", "sub", "and", "not", "add+=u", "sub-=u", "add+=i", "sub-=i"][(k % 12) as usize];
        let op = &form[..3];
        let enumk = k % 2 == 0;
        let pickv = |rng: &mut rand::rngs::StdRng| if rng.random_range(0..3) == 0 { rng.random() } else { vals[rng.random_range(0..vals.len())] };
        let mask = |rng: &mut rand::rngs::StdRng, maxu: u32| -> u16 {
            if enumk {
                // at most `maxu` unknown bits
                let u = rng.random_range(0..=maxu);
                let mut m = 0xFFFFu16;
                for _ in 0..u { m &= !(1u16 << rng.random_range(0..16)); }
                m
            } else {
                match rng.random_range(0..5) { 0 => 0xFFFF, 1 => 0, 2 => 0xFF00, 3 => 0x00FF, _ => rng.random() }
            }
        };
        let (xv, yv) = (pickv(&mut rng), pickv(&mut rng));
        let (xm, ym) = (mask(&mut rng, 4), if form.len() > 3 { 0xFFFF } else { mask(&mut rng, 4) });
        // every fourth round of the forms: two independent words that happen to be equal (same value, same mask)
        let (yv, ym) = if form.len() == 3 && (k / 12) % 4 == 3 { (xv, xm) } else { (yv, ym) };
        let (x, y) = (wd(xv, xm), wd(yv, ym));
        let r = js::guard(|| apply(form, x, y));
        let rec = match r {
            Err(()) => json!({"ev":"WordOp","kind": if enumk {"enum"} else {"rand"},"op":op,"form":form,"a":[xv,xm],"b":[yv,ym],"panic":1,"r":[0,0],"rr":[]}),
            Ok(r) => {
                let mut rr = vec![];
                for _ in 0..(if enumk { 4 } else { 64 }) {
                    let xa = (xv & xm) | (rng.random::<u16>() & !xm);
                    let ya = (yv & ym) | (rng.random::<u16>() & !ym);
                    match js::guard(|| apply(form, wd(xa, xm), wd(ya, ym))) {
                        Ok(q) => rr.push(json!([xa, ya, q.get(), q.verif_mask()])),
                        Err(()) => rr.push(json!([xa, ya, -1, -1])),
                    }
                }
                json!({"ev":"WordOp","kind": if enumk {"enum"} else {"rand"},"op":op,"form":form,"a":[xv,xm],"b":[yv,ym],"panic":0,
                       "r":[r.get(), r.verif_mask()],"rr":rr})
            }
        };
        out.emit(rec);
    }
}

/// C25: SourceInfo queries on short strings over an alphabet rich in line ends and
/// whitespace (exhaustive up to a length) and on random longer strings; every index
/// up to length + 10.
pub fn emit_srcinfo(a: &Args, out: &mut Out) {
    use lc3_ensemble::asm::SourceInfo;
    use rand::{Rng, SeedableRng};
    let mut rng = rand::rngs::StdRng::seed_from_u64(a.seed ^ 0x51c);
    let alpha: [&str; 8] = ["a", " ", "\n", "\r", "\t", "\u{e9}", "\u{a0}", "\u{b}"];
    let maxlen = a.get_u64("len", if a.thorough() { 6 } else { 4 }) as usize;
    let nalpha = a.get_u64("alpha", if a.thorough() { 6 } else { 8 }) as usize;
    let mut strings: Vec<String> = vec![String::new()];
    let mut frontier: Vec<String> = vec![String::new()];
    for _ in 0..maxlen {
        let mut next = vec![];
        for s in &frontier { for c in &alpha[..nalpha] { next.push(format!("{s}{c}")); } }
        strings.extend(next.iter().cloned());
        frontier = next;
    }
    let exotic = ["\u{3000}", "\u{2003}", "\u{85}", "\u{1680}", "\u{2028}", "\u{205f}", "\u{1F600}", "x", "\u{c}", "\u{1f}", "\u{200b}"];
    for _ in 0..a.get_u64("rand", if a.thorough() { 6000 } else { 600 }) {
        let n = rng.random_range(0..40);
        let mut s = String::new();
        for _ in 0..n {
            if rng.random_range(0..4) == 0 { s.push_str(exotic[rng.random_range(0..exotic.len())]); }
            else { s.push_str(alpha[rng.random_range(0..alpha.len())]); }
        }
        strings.push(s);
    }
    // the same queries on the SourceInfo of linked object files (their combined source is built by the linker,
    // not by SourceInfo::new): sources with and without a final newline, CRLF, blank and whitespace-only lines
    let mut linked: Vec<SourceInfo> = vec![];
    {
        use lc3_ensemble::asm::{assemble_debug, ObjectFile};
        use lc3_ensemble::parse::parse_ast;
        let heads = ["", "\n", "; c\r\n", "  \n\t\n"];
        let tails = ["", "\n", "\r\n", "\n\n", "\n  ", " ; x"];
        let mut objs = vec![];
        for (i, h) in heads.iter().enumerate() { for (j, t) in tails.iter().enumerate() {
            let src = format!("{h}.orig x{:04X}\nL{i}{j} ADD R0, R0, #0 ; \u{e9}\r\n  NOT R1, R1\n.end{t}", 0x3000 + 0x10 * (i * tails.len() + j));
            if let Ok(ast) = parse_ast(&src) { if let Ok(o) = assemble_debug(ast, &src) { objs.push(o); } }
        } }
        for k in 0..objs.len() {
            let (x, y) = (objs[k].clone(), objs[(k * 7 + 3) % objs.len()].clone());
            if k == (k * 7 + 3) % objs.len() { continue; }
            if let Ok(o) = ObjectFile::link(x, y) {
                if let Some(si) = o.symbol_table().and_then(|t| t.source_info()) { linked.push(si.clone()); }
                // a third file on top
                if let Ok(o3) = ObjectFile::link(o, objs[(k * 5 + 1) % objs.len()].clone()) {
                    if let Some(si) = o3.symbol_table().and_then(|t| t.source_info()) { linked.push(si.clone()); }
                }
            }
        }
    }
    let fresh: Vec<(SourceInfo, String)> = strings.iter().map(|s| (SourceInfo::new(s), s.clone())).collect();
    let all: Vec<(SourceInfo, String)> = fresh.into_iter().chain(linked.into_iter().map(|si| { let t = si.source().to_string(); (si, t) })).collect();
    for (si, s) in &all { out.emit(srcinfo_record(si, s)); }
}

/// The queries of C25 on one SourceInfo: line count, span and text of every line (and two beyond), the position
/// of every index up to length + 10.
fn srcinfo_record(si: &lc3_ensemble::asm::SourceInfo, s: &str) -> serde_json::Value {
    let r = js::guard(|| {
        let n = si.count_lines();
        let spans: Vec<serde_json::Value> = (0..n + 2).map(|i| match si.line_span(i) { Some(r) => json!([r.start, r.end]), None => json!([-1, -1]) }).collect();
        let texts: Vec<serde_json::Value> = (0..n + 2).map(|i| match si.read_line(i) { Some(t) => json!([1, js::bytes(t.as_bytes())]), None => json!([0, []]) }).collect();
        let pos: Vec<serde_json::Value> = (0..=s.len() + 10).map(|i| { let (l, c) = si.get_pos_pair(i); json!([i, l, c]) }).collect();
        let same = (si.source() == s) as u8;
        (n, spans, texts, pos, same)
    });
    match r {
        Err(()) => json!({"ev":"SrcInfo","src":js::bytes(s.as_bytes()),"panic":1,"lines":0,"spans":[],"texts":[],"pos":[],"same":0}),
        Ok((n, spans, texts, pos, same)) => json!({"ev":"SrcInfo","src":js::bytes(s.as_bytes()),"panic":0,"lines":n,"spans":spans,"texts":texts,"pos":pos,"same":same}),
    }
}

/// `lc3v replay srcinfo hist=<file>`: every string enumerated by MC_SourceInfo (RP configuration) through the real SourceInfo.
pub fn replay_srcinfo(a: &Args, out: &mut Out) {
    let hist = std::fs::read_to_string(a.get_str("hist", "")).expect("hist file");
    for line in hist.lines() {
        if line.trim().is_empty() { continue; }
        let b: Vec<u8> = serde_json::from_str::<Vec<u64>>(line).expect("history").iter().map(|&x| x as u8).collect();
        let Ok(s) = String::from_utf8(b) else { continue };
        let si = lc3_ensemble::asm::SourceInfo::new(&s);
        out.emit(srcinfo_record(&si, &s));
    }
}
