//! Assembler / symbol-table / linker / object-format domains (C01, C02, C17-C26).
//! Every record is self-contained: the program as the real parser returned it, the source
//! bytes, the result of the real call(s) and the projected objects; TLC evaluates the
//! specification (spec/Asm.tla, spec/Linker.tla) on the logged arguments.

use crate::asmgen::{self, chance, pick, GStmt, ProgCfg, Style};
use crate::{js, Args, Out};
use lc3_ensemble::asm::encoding::{BinaryFormat, ObjFileFormat, TextFormat};
use lc3_ensemble::asm::{assemble, assemble_debug, AsmErr, AsmErrKind, ObjectFile, SymbolTable};
use lc3_ensemble::ast::asm::Stmt;
use lc3_ensemble::err::Error as _;
use lc3_ensemble::parse::parse_ast;
use rand::rngs::StdRng;
use rand::{Rng, SeedableRng};
use serde_json::{json, Value};

fn rng_for(a: &Args, salt: u64) -> StdRng { StdRng::seed_from_u64(a.seed.wrapping_mul(0x9E3779B97F4A7C15) ^ salt) }

pub fn kind_name(k: &AsmErrKind) -> &'static str {
    match k {
        AsmErrKind::UndetAddrLabel => "UndetAddrLabel",
        AsmErrKind::UndetAddrStmt => "UndetAddrStmt",
        AsmErrKind::UnclosedOrig => "UnclosedOrig",
        AsmErrKind::UnopenedOrig => "UnopenedOrig",
        AsmErrKind::OverlappingOrig => "OverlappingOrig",
        AsmErrKind::OverlappingLabels => "OverlappingLabels",
        AsmErrKind::WrappingBlock => "WrappingBlock",
        AsmErrKind::BlockInIO => "BlockInIO",
        AsmErrKind::OverlappingBlocks => "OverlappingBlocks",
        AsmErrKind::OffsetNewErr(_) => "OffsetNewErr",
        AsmErrKind::OffsetExternal => "OffsetExternal",
        AsmErrKind::CouldNotFindLabel => "CouldNotFindLabel",
    }
}

/// kind + span list as seen through `span()`, `iter()` and `first()` (each under catch_unwind).
pub fn err_json(e: &AsmErr) -> Value {
    let kind = kind_name(&e.kind);
    let sp = js::guard(|| e.span());
    let (spans, first, qpanic, has) = match sp {
        Err(()) => (vec![], json!([-1, -1]), 1, 0),
        Ok(None) => (vec![], json!([-1, -1]), 0, 0),
        Ok(Some(es)) => {
            let it = js::guard(|| es.iter().map(|r| json!([r.start, r.end])).collect::<Vec<_>>());
            let fi = js::guard(|| { let r = es.first(); json!([r.start, r.end]) });
            let p = (it.is_err() || fi.is_err()) as u8;
            (it.unwrap_or_default(), fi.unwrap_or(json!([-1, -1])), p, 1)
        }
    };
    json!({"kind": kind, "spans": spans, "first": first, "qpanic": qpanic, "has": has,
           "field": e.span.iter().map(|r| json!([r.start, r.end])).collect::<Vec<_>>()})
}
pub fn err_none() -> Value { json!({"kind": "none", "spans": [], "first": [-1, -1], "qpanic": 0, "has": 0, "field": []}) }

fn stmts_json(ast: &[Stmt]) -> Value { Value::Array(ast.iter().map(js::stmt).collect()) }

/// Queries on a symbol table (C23, C24): every label of the program in several spellings,
/// absent names, every line up to count + 2, every mapped address and some others.
fn queries(rng: &mut StdRng, st: &SymbolTable, ast: &[Stmt], src: &str, extra_names: &[String]) -> Value {
    let mut q = vec![];
    let mut names: Vec<String> = vec![];
    for s in ast {
        for l in &s.labels { names.push(l.name.clone()); }
        if let Some(l) = js::label_operand(&s.nucleus) { names.push(l.name.clone()); }
    }
    names.extend(extra_names.iter().cloned());
    names.push("NOSUCHLABEL".into()); names.push("q_".into()); names.push(String::new());
    names.sort(); names.dedup();
    let mut spellings: Vec<String> = vec![];
    for n in &names {
        spellings.push(n.clone()); spellings.push(n.to_ascii_uppercase()); spellings.push(n.to_ascii_lowercase());
        spellings.push(asmgen::recase(rng, n, 100));
        if !n.is_empty() { spellings.push(format!("{n}_")); let mut m = n.clone(); m.pop(); spellings.push(m); }
    }
    spellings.sort(); spellings.dedup();
    for sp in &spellings {
        let r = js::guard(|| (st.lookup_label(sp), st.get_label_source(sp)));
        match r {
            Ok((a, s)) => q.push(json!({"q": "label", "arg": js::text(sp), "panic": 0, "addr": a.map(|v| v as i64).unwrap_or(-1),
                                        "src": s.map(|r| json!([r.start, r.end])).unwrap_or(json!([-1, -1]))})),
            Err(()) => q.push(json!({"q": "label", "arg": js::text(sp), "panic": 1, "addr": -1, "src": [-1, -1]})),
        }
    }
    let mut addrs: Vec<u16> = st.label_iter().map(|(_, a, _)| a).collect();
    addrs.extend(st.line_iter().map(|(_, a)| a));
    for _ in 0..6 { addrs.push(rng.random()); }
    addrs.extend([0u16, 0x3000, 0xFDFF, 0xFE00, 0xFFFF]);
    let more: Vec<u16> = addrs.iter().flat_map(|a| [a.wrapping_add(1), a.wrapping_sub(1)]).collect();
    addrs.extend(more);
    addrs.sort(); addrs.dedup();
    for &a in &addrs {
        let r = js::guard(|| (st.rev_lookup_label(a).map(|s| s.to_string()), st.rev_lookup_line(a)));
        match r {
            Ok((l, ln)) => q.push(json!({"q": "addr", "arg": a, "panic": 0, "has": l.is_some() as u8, "label": js::text(&l.unwrap_or_default()),
                                         "line": ln.map(|v| v as i64).unwrap_or(-1)})),
            Err(()) => q.push(json!({"q": "addr", "arg": a, "panic": 1, "has": 0, "label": [], "line": -1})),
        }
    }
    let nlines = src.matches('\n').count() + 1;
    for ln in 0..(nlines + 3) {
        let r = js::guard(|| st.lookup_line(ln));
        match r {
            Ok(a) => q.push(json!({"q": "line", "arg": ln, "panic": 0, "addr": a.map(|v| v as i64).unwrap_or(-1)})),
            Err(()) => q.push(json!({"q": "line", "arg": ln, "panic": 1, "addr": -1})),
        }
    }
    Value::Array(q)
}

/// One `Asm` record: parse `text`, run pass 1 alone and the whole assembler, project everything.
pub fn asm_record(rng: &mut StdRng, run: u64, text: &str, dbg: bool, gprog: Option<&[GStmt]>, with_queries: bool) -> (Value, Option<ObjectFile>) {
    let mut rec = json!({"ev": "Asm", "run": run, "dbg": dbg as u8, "src": js::bytes(text.as_bytes()), "panic": 0});
    if let Some(g) = gprog { rec["gen"] = Value::Array(g.iter().map(|s| s.json()).collect()); }
    let ast = match js::guard(|| parse_ast(text)) {
        Err(()) => { rec["parse"] = json!("panic"); rec["panic"] = json!(1); None }
        Ok(Err(e)) => { rec["parse"] = json!("err"); let _ = e; None }
        Ok(Ok(ast)) => { rec["parse"] = json!("ok"); Some(ast) }
    };
    let Some(ast) = ast else {
        rec["prog"] = json!([]); rec["res"] = json!("noparse"); rec["err"] = err_none(); rec["obj"] = js::obj_none();
        rec["p1"] = json!("noparse"); rec["st"] = js::symtab_none(); rec["q"] = json!([]);
        return (rec, None);
    };
    rec["prog"] = stmts_json(&ast);
    // pass 1 alone (the symbol table is otherwise dropped without debug symbols)
    let p1 = js::guard(|| SymbolTable::new(&ast, if dbg { Some(text) } else { None }));
    match &p1 {
        Err(()) => { rec["p1"] = json!("panic"); rec["panic"] = json!(1); rec["st"] = js::symtab_none(); rec["q"] = json!([]); }
        Ok(Err(e)) => { rec["p1"] = json!(kind_name(&e.kind)); rec["st"] = js::symtab_none(); rec["q"] = json!([]); }
        Ok(Ok(st)) => {
            rec["p1"] = json!("ok");
            rec["st"] = js::symtab(st);
            rec["q"] = if with_queries { queries(rng, st, &ast, text, &[]) } else { json!([]) };
        }
    }
    // the assembler
    let ast2 = ast.clone();
    let r = js::guard(move || if dbg { assemble_debug(ast2, text) } else { assemble(ast2) });
    let mut out_obj = None;
    match r {
        Err(()) => { rec["res"] = json!("panic"); rec["panic"] = json!(1); rec["err"] = err_none(); rec["obj"] = js::obj_none(); }
        Ok(Err(e)) => { rec["res"] = json!(kind_name(&e.kind)); rec["err"] = err_json(&e); rec["obj"] = js::obj_none(); }
        Ok(Ok(o)) => { rec["res"] = json!("ok"); rec["err"] = err_none(); rec["obj"] = js::obj(&o); out_obj = Some(o); }
    }
    (rec, out_obj)
}

pub fn cfg_for(rng: &mut StdRng, thorough: bool, faults: u32) -> ProgCfg {
    ProgCfg {
        max_blocks: *pick(rng, &[1, 2, 3, 4]),
        max_body: if thorough { *pick(rng, &[3, 8, 20, 40]) } else { *pick(rng, &[3, 6, 12]) },
        exotic: chance(rng, 30), externals: *pick(rng, &[0, 0, 60, 100]), faults,
    }
}

/// `lc3v emit asm [n=..] [faults=pct] [os=1]`: generated programs through the real parser + assembler.
pub fn emit_asm(a: &Args, out: &mut Out) {
    asmgen::EXOTIC_LABELS.with(|e| e.set(true));
    let mut rng = rng_for(a, 0xA53);
    let n = a.get_u64("n", if a.thorough() { 4000 } else { 450 });
    let faults = a.get_u64("faults", 50) as u32;
    let mut run = 0u64;
    if a.get_u64("os", 1) == 1 {
        // the OS itself is one of the programs (its image is what C29 loads)
        for dbg in [false, true] {
            run += 1;
            let (rec, _) = asm_record(&mut rng, run, OS_SRC.as_str(), dbg, None, dbg);
            out.emit(rec);
        }
    }
    // boundary family: one statement of every size class placed so that its block ends exactly at, one before
    // and one past xFE00 and x10000; and two blocks touching / overlapping by one word around it
    if a.get_u64("bound", 1) == 1 {
        let mut units: Vec<GStmt> = vec![GStmt::new("ADD", 1, 2, 3, 0), GStmt::new(".fill", 7, 0, 0, 0), GStmt::new(".blkw", 1, 0, 0, 0), GStmt::new(".blkw", 7, 0, 0, 0)];
        for body in ["", "ab", "\u{e9}", "\u{1F600}\u{e9}x", "tab\t\"q\""] { let mut g = GStmt::new(".stringz", 0, 0, 0, 0); g.s = body.to_string(); units.push(g); }
        for u in &units {
            let sz = u.size() as i64;
            for limit in [0xFE00i64, 0x10000] { for delta in [-1i64, 0, 1] {
                let o = limit - sz + delta;
                if o < 0 || o > 0xFFFF { continue; }
                run += 1;
                let prog = vec![GStmt::new(".orig", o, 0, 0, 0), u.clone().with_label("U"), GStmt::new("HALT", 0, 0, 0, 0).with_label("After"), GStmt::new(".end", 0, 0, 0, 0)];
                let prog2 = vec![GStmt::new(".orig", o, 0, 0, 0), u.clone().with_label("U"), GStmt::new(".end", 0, 0, 0, 0).with_label("AtEnd")];
                for p in [prog, prog2] {
                    let r = asmgen::render(&mut rng, &p, &Style::plain());
                    let (rec, _) = asm_record(&mut rng, run, &r.text, true, Some(&p), true);
                    out.emit(rec);
                }
            } }
            for delta in [-1i64, 0, 1] {
                run += 1;
                let p = vec![GStmt::new(".orig", 0x4000 + sz + delta, 0, 0, 0), GStmt::new(".fill", 1, 0, 0, 0).with_label("B2"), GStmt::new(".end", 0, 0, 0, 0),
                             GStmt::new(".orig", 0x4000, 0, 0, 0), u.clone().with_label("U"), GStmt::new(".end", 0, 0, 0, 0)];
                let r = asmgen::render(&mut rng, &p, &Style::plain());
                let dbg = chance(&mut rng, 50);
                let (rec, _) = asm_record(&mut rng, run, &r.text, dbg, Some(&p), true);
                out.emit(rec);
            }
        }
    }
    if a.get_u64("bound", 1) == 1 {
        for (k, back) in [("LD", false), ("LEA", true), ("ST", false), ("BR", true), ("JSR", false), ("JSR", true), ("LDI", true), (".fill", false)] {
            for gap in [0i64, 1, 5, 200] {
                run += 1;
                // the reference sits just below x8000 and the label just above it (or the other way round)
                let mut p = vec![GStmt::new(".orig", 0x8000 - 2 - if back { 0 } else { gap }, 0, 0, 0)];
                let user = if k == ".fill" { let mut g = GStmt::new(".fill", 0, 0, 0, 2); g.lbl = "Far".into(); g } else { GStmt::lab(k, if k == "BR" { 7 } else if k == "JSR" { 0 } else { 3 }, "far") };
                let target = GStmt::new("ADD", 1, 1, 1, 0).with_label("Far");
                if back { p.push(target.clone()); p.push(GStmt::new("NOT", 2, 2, 0, 0)); if gap > 0 { p.push(GStmt::new(".blkw", gap, 0, 0, 0)); } p.push(user.clone()); }
                else { p.push(user.clone()); if gap > 0 { p.push(GStmt::new(".blkw", gap, 0, 0, 0)); } p.push(GStmt::new("NOT", 2, 2, 0, 0)); p.push(target.clone()); }
                p.push(GStmt::new(".end", 0, 0, 0, 0));
                let r = asmgen::render(&mut rng, &p, &Style::plain());
                let dbg = chance(&mut rng, 50);
                let (rec, _) = asm_record(&mut rng, run, &r.text, dbg, Some(&p), true);
                out.emit(rec);
            }
        }
    }
    // labels with non-ASCII word characters (letters without case, a non-ASCII digit, letters whose upper-case
    // form has another length): defined once and referenced, defined twice (the error names both places), and
    // declared external after a definition
    if a.get_u64("bound", 1) == 1 {
        for ch in ['\u{4e16}', '\u{fb01}', '\u{17f}', '\u{df}', '\u{663}'] {
            let name = format!("a{ch}");
            let p1 = vec![GStmt::new(".orig", 0x3000, 0, 0, 0), GStmt::new("ADD", 1, 1, 1, 0).with_label(&name), GStmt::lab("LD", 2, &name.to_ascii_uppercase()), GStmt::new(".end", 0, 0, 0, 0)];
            let p2 = vec![GStmt::new(".orig", 0x3000, 0, 0, 0), GStmt::new("ADD", 1, 1, 1, 0).with_label(&name), GStmt::new("NOT", 1, 1, 0, 0).with_label(&name), GStmt::new(".end", 0, 0, 0, 0)];
            let mut ext = GStmt::new(".external", 0, 0, 0, 2); ext.lbl = name.clone();
            let p3 = vec![GStmt::new(".orig", 0x3000, 0, 0, 0), GStmt::new("ADD", 1, 1, 1, 0).with_label(&format!("x_{ch}{ch}")), GStmt::new(".end", 0, 0, 0, 0).with_label(&name), ext];
            for p in [p1, p2, p3] {
                run += 1;
                let r = asmgen::render(&mut rng, &p, &Style::plain());
                let (rec, _) = asm_record(&mut rng, run, &r.text, true, Some(&p), true);
                out.emit(rec);
            }
        }
    }
    for _ in 0..n {
        run += 1;
        let cfg = cfg_for(&mut rng, a.thorough(), faults);
        let prog = asmgen::gen_program(&mut rng, &cfg);
        let st = if chance(&mut rng, 15) { Style::plain() } else { Style::random(&mut rng) };
        let r = asmgen::render(&mut rng, &prog, &st);
        let dbg = chance(&mut rng, 60);
        let (rec, _) = asm_record(&mut rng, run, &r.text, dbg, Some(&prog), true);
        out.emit(rec);
    }
}

/// The source of the built-in OS: the text object format of `_os_obj_file()` carries it when
/// debug symbols are present; otherwise we fall back to a tiny fixed program.
static OS_SRC: std::sync::LazyLock<String> = std::sync::LazyLock::new(|| {
    let o = lc3_ensemble::sim::_os_obj_file();
    match o.symbol_table().and_then(|s| s.source_info()) {
        Some(si) => si.source().to_string(),
        None => ".orig x3000\nHALT\n.end\n".to_string(),
    }
});

// keep the formats linked in (used by the link / round-trip domains below)
#[allow(dead_code)]
fn _formats(o: &ObjectFile) -> (Vec<u8>, String) { (BinaryFormat::serialize(o), TextFormat::serialize(o)) }

// ---------------------------------------------------------------------------
// link sets (C20, C21, C22, C17, C18, C26)

use lc3_ensemble::sim::{SimErr, SimFlags, Simulator};

fn text_of(g: &[GStmt], rng: &mut StdRng) -> String {
    let st = if chance(rng, 30) { Style::plain() } else { Style::random(rng) };
    asmgen::render(rng, g, &st).text
}

/// Files of a link set as abstract programs.
fn gen_linkset(rng: &mut StdRng, thorough: bool) -> Vec<Vec<GStmt>> {
    let nf = *pick(rng, if thorough { &[2usize, 3, 3, 3, 4] } else { &[2usize, 2, 3, 3] });
    let mut used: Vec<String> = vec![];
    let nshared = rng.random_range(0..=3usize);
    let shared: Vec<String> = (0..nshared).map(|_| asmgen::label_name(rng, &mut used)).collect();
    // who defines each shared label: none, one file, or two files (conflict unless same address)
    let definers: Vec<Vec<usize>> = shared.iter().map(|_| match rng.random_range(0..10) {
        0 => vec![],
        1 => { let a = rng.random_range(0..nf); let mut b = rng.random_range(0..nf); if b == a { b = (a + 1) % nf; } vec![a, b] }
        _ => vec![rng.random_range(0..nf)],
    }).collect();
    // block bodies
    let mut bodies: Vec<Vec<Vec<GStmt>>> = vec![];
    for _f in 0..nf {
        let nb = *pick(rng, &[1usize, 1, 2]);
        let mut bs = vec![];
        for _ in 0..nb {
            let n = rng.random_range(1..=5);
            let mut b: Vec<GStmt> = vec![];
            for _ in 0..n {
                let mut g = asmgen::plain_stmt(rng, false);
                if g.k == ".blkw" && g.a > 4 { g.a = 2; }
                if g.k == ".stringz" && g.s.len() > 8 { g.s = "ab".into(); }
                if chance(rng, 30) { g.labels.push(asmgen::label_name(rng, &mut used)); }
                b.push(g);
            }
            bs.push(b);
        }
        bodies.push(bs);
    }
    // shared label definitions and uses
    let mut ext_decl: Vec<Vec<String>> = vec![vec![]; nf];
    // a shared label defined once may be put at the very start of the block placed at x0000: its address is
    // then 0, which is also the placeholder address of an `.external` declaration of the same name
    let zero_def: Option<usize> = if chance(rng, 20) { (0..shared.len()).find(|&si| definers[si].len() == 1) } else { None };
    let mut zero_block: Option<(usize, usize)> = None;
    for (si, s) in shared.iter().enumerate() {
        for &f in &definers[si] {
            let bi = rng.random_range(0..bodies[f].len());
            let k = if zero_def == Some(si) { zero_block = Some((f, bi)); 0 } else { rng.random_range(0..bodies[f][bi].len()) };
            let sp = asmgen::respell(rng, s);
            bodies[f][bi][k].labels.push(sp);
        }
        for f in 0..nf {
            if definers[si].contains(&f) { continue; }
            if chance(rng, 60) {
                ext_decl[f].push(asmgen::respell(rng, s));
                for _ in 0..rng.random_range(0..=2) {
                    let bi = rng.random_range(0..bodies[f].len());
                    let k = rng.random_range(0..=bodies[f][bi].len());
                    let mut g = GStmt::new(".fill", 0, 0, 0, 2);
                    g.lbl = asmgen::respell(rng, s);
                    bodies[f][bi].insert(k, g);
                }
            }
        }
    }
    // placement: consecutive regions with gaps; then touching / overlapping / equal-start variants
    let mut origin: Vec<Vec<u32>> = vec![];
    let mut at: u32 = *pick(rng, &[0x3000u32, 0x0000, 0x0200, 0x4000, 0xF000]);
    let mut flat: Vec<(usize, usize)> = vec![];
    for f in 0..nf { origin.push(vec![0; bodies[f].len()]); for b in 0..bodies[f].len() { flat.push((f, b)); } }
    for i in (1..flat.len()).rev() { let j = rng.random_range(0..=i); flat.swap(i, j); }
    if let Some(zb) = zero_block { let i = flat.iter().position(|&x| x == zb).unwrap(); flat.swap(0, i); at = 0; }
    let mut prev_end = at;
    for (n, &(f, b)) in flat.iter().enumerate() {
        let sz: u32 = bodies[f][b].iter().map(|g| g.size()).sum();
        let mode = if n == 0 { if zero_block.is_some() { 2 } else { 9 } } else { rng.random_range(0..12) };
        let o = match mode {
            0 => prev_end,                         // touching
            1 => prev_end.saturating_sub(1),       // overlapping by one word
            2 => at,                               // same start as the previous block
            3 => prev_end + 1,
            _ => prev_end + rng.random_range(0..0x80),
        };
        let o = if o + sz > 0xFE00 { 0xFE00 - sz } else { o };
        origin[f][b] = o;
        at = o; prev_end = o + sz;
    }
    // label on `.end` equal to a label at the start of a touching block of another file
    let mut progs = vec![];
    for f in 0..nf {
        let mut p: Vec<GStmt> = vec![];
        let decl_where = rng.random_range(0..3);
        let decls: Vec<GStmt> = ext_decl[f].iter().map(|e| { let mut g = GStmt::new(".external", 0, 0, 0, 2); g.lbl = e.clone(); g }).collect();
        if decl_where == 0 { p.extend(decls.clone()); }
        for b in 0..bodies[f].len() {
            p.push(GStmt::new(".orig", origin[f][b] as i64, 0, 0, 0));
            if decl_where == 1 && b == 0 { let k = rng.random_range(0..=bodies[f][b].len()); let mut body = bodies[f][b].clone(); for d in decls.iter().rev() { body.insert(k, d.clone()); } p.extend(body); }
            else { p.extend(bodies[f][b].clone()); }
            let mut e = GStmt::new(".end", 0, 0, 0, 0);
            if chance(rng, 10) && !shared.is_empty() { let sh = shared[rng.random_range(0..shared.len())].clone(); e.labels.push(asmgen::respell(rng, &sh)); }
            p.push(e);
        }
        if decl_where == 2 { p.extend(decls); }
        progs.push(p);
    }
    progs
}

fn load_json(o: &ObjectFile, probe: &[u16]) -> Value {
    let r = js::guard(|| {
        let mut sim = Simulator::new(SimFlags::default());
        let res = sim.load_obj_file(o);
        let words: Vec<Value> = probe.iter().map(|&a| json!([a, sim.mem[a].get()])).collect();
        (match res { Ok(()) => "ok", Err(SimErr::UnresolvedExternal(_)) => "UnresolvedExternal", Err(_) => "other" }, words)
    });
    match r { Ok((res, words)) => json!({"res": res, "panic": 0, "words": words}), Err(()) => json!({"res": "panic", "panic": 1, "words": []}) }
}

fn rt_json(o: &ObjectFile) -> Value {
    let bin = js::guard(|| { let b = BinaryFormat::serialize(o); BinaryFormat::deserialize(&b) });
    let txt = js::guard(|| { let t = TextFormat::serialize(o); TextFormat::deserialize(&t) });
    let one = |r: Result<Option<ObjectFile>, ()>| match r {
        Err(()) => json!({"panic": 1, "ok": 0, "eq": 0, "obj": js::obj_none()}),
        Ok(None) => json!({"panic": 0, "ok": 0, "eq": 0, "obj": js::obj_none()}),
        Ok(Some(d)) => json!({"panic": 0, "ok": 1, "eq": (&d == o) as u8, "obj": js::obj(&d)}),
    };
    json!({"bin": one(bin), "txt": one(txt)})
}

/// Debug queries (C22): for every mapped address the line and its text; for every label its source span.
fn dbgq_json(o: &ObjectFile) -> Value {
    let Some(st) = o.symbol_table() else { return json!({"has": 0, "lines": [], "labels": [], "panic": 0}); };
    let Some(si) = st.source_info() else { return json!({"has": 0, "lines": [], "labels": [], "panic": 0}); };
    let r = js::guard(|| {
        let mut lines = vec![];
        for (a, _) in o.addr_iter() {
            if let Some(ln) = st.rev_lookup_line(a) {
                let t = si.read_line(ln);
                lines.push(json!([a, ln, t.is_some() as u8, js::bytes(t.unwrap_or("").as_bytes())]));
            }
        }
        let mut labels = vec![];
        let mut keys: Vec<String> = st.label_iter().map(|(k, _, _)| k.to_string()).collect();
        keys.sort();
        for k in keys {
            let sp = st.get_label_source(&k);
            labels.push(json!([js::text(&k), sp.as_ref().map(|r| r.start as i64).unwrap_or(-1), sp.as_ref().map(|r| r.end as i64).unwrap_or(-1)]));
        }
        (lines, labels)
    });
    match r { Ok((lines, labels)) => json!({"has": 1, "lines": lines, "labels": labels, "panic": 0}), Err(()) => json!({"has": 1, "lines": [], "labels": [], "panic": 1}) }
}

fn permutations(n: usize) -> Vec<Vec<usize>> {
    fn rec(cur: &mut Vec<usize>, left: &mut Vec<usize>, out: &mut Vec<Vec<usize>>) {
        if left.is_empty() { out.push(cur.clone()); return; }
        for i in 0..left.len() { let x = left.remove(i); cur.push(x); rec(cur, left, out); cur.pop(); left.insert(i, x); }
    }
    let mut out = vec![]; rec(&mut vec![], &mut (0..n).collect(), &mut out); out
}

/// A link expression over leaves (file indices): all binary bracketings of an ordered list.
#[derive(Clone, Debug)]
enum Tree { Leaf(usize), Node(Box<Tree>, Box<Tree>) }
fn bracketings(xs: &[usize]) -> Vec<Tree> {
    if xs.len() == 1 { return vec![Tree::Leaf(xs[0])]; }
    let mut out = vec![];
    for k in 1..xs.len() { for l in bracketings(&xs[..k]) { for r in bracketings(&xs[k..]) { out.push(Tree::Node(Box::new(l.clone()), Box::new(r))); } } }
    out
}
fn tree_text(t: &Tree) -> String { match t { Tree::Leaf(i) => format!("{}", i + 1), Tree::Node(l, r) => format!("({} {})", tree_text(l), tree_text(r)) } }

/// One `Link` record for a set of source files (text, debug flag): every order and bracketing (at most 14,
/// chosen at random beyond that), every intermediate and final object with its load result, round trips and
/// debug queries.  Returns false (and emits nothing) if a file does not assemble.
fn link_set_record(rng: &mut StdRng, run: u64, set: &[(String, bool)], out: &mut Out) -> bool {
    let mut files: Vec<Value> = vec![];
    let mut objs: Vec<ObjectFile> = vec![];
    let mut ok = true;
    for (text, dbg) in set {
        let (rec, o) = asm_record(rng, run, text, *dbg, None, false);
        match o { Some(o) => objs.push(o), None => { ok = false; } }
        files.push(json!({"src": rec["src"], "prog": rec["prog"], "dbg": rec["dbg"], "res": rec["res"]}));
    }
    if !ok { return false; } // a file that does not assemble (clash inside one file): skip
    let nf = objs.len();
    // addresses to probe after loading: every relocation entry of every file
    let mut probe: Vec<u16> = vec![];
    for o in &objs { if let Some(st) = o.symbol_table() { probe.extend(st.verif_rel_iter().map(|(a, _)| a)); } }
    probe.sort(); probe.dedup();
    // object table: files first, then link results (memoized by operand pair)
    let mut table: Vec<ObjectFile> = objs.clone();
    let mut steps: Vec<Value> = vec![];
    let mut memo: std::collections::HashMap<(usize, usize), Option<usize>> = std::collections::HashMap::new();
    let mut finals: Vec<Value> = vec![];
    let mut exprs: Vec<Tree> = vec![];
    for p in permutations(nf) { exprs.extend(bracketings(&p)); }
    if exprs.len() > 14 { for i in (1..exprs.len()).rev() { let j = rng.random_range(0..=i); exprs.swap(i, j); } exprs.truncate(14); }
    fn eval(t: &Tree, table: &mut Vec<ObjectFile>, steps: &mut Vec<Value>, memo: &mut std::collections::HashMap<(usize, usize), Option<usize>>) -> Option<usize> {
        match t {
            Tree::Leaf(i) => Some(*i),
            Tree::Node(l, r) => {
                let a = eval(l, table, steps, memo)?;
                let b = eval(r, table, steps, memo)?;
                if let Some(x) = memo.get(&(a, b)) { return *x; }
                let (oa, ob) = (table[a].clone(), table[b].clone());
                let res = js::guard(move || ObjectFile::link(oa, ob));
                let outi = match res {
                    Err(()) => { steps.push(json!({"a": a + 1, "b": b + 1, "res": "panic", "panic": 1, "out": 0, "err": err_none()})); None }
                    Ok(Err(e)) => { steps.push(json!({"a": a + 1, "b": b + 1, "res": kind_name(&e.kind), "panic": 0, "out": 0, "err": err_json(&e)})); None }
                    Ok(Ok(o)) => { table.push(o); steps.push(json!({"a": a + 1, "b": b + 1, "res": "ok", "panic": 0, "out": table.len(), "err": err_none()})); Some(table.len() - 1) }
                };
                memo.insert((a, b), outi);
                outi
            }
        }
    }
    for t in &exprs {
        let r = eval(t, &mut table, &mut steps, &mut memo);
        finals.push(json!({"expr": tree_text(t), "out": r.map(|x| x + 1).unwrap_or(0)}));
    }
    let objs_json: Vec<Value> = table.iter().map(|o| json!({"obj": js::obj(o), "load": load_json(o, &probe), "rt": rt_json(o), "dbgq": dbgq_json(o)})).collect();
    out.emit(json!({"ev": "Link", "run": run, "nf": nf, "files": files, "objs": objs_json, "steps": steps, "finals": finals, "panic": 0}));
    true
}

pub fn emit_link(a: &Args, out: &mut Out) {
    asmgen::EXOTIC_LABELS.with(|e| e.set(true));
    let mut rng = rng_for(a, 0x11C);
    let n = a.get_u64("n", if a.thorough() { 1500 } else { 150 });
    let mut run = 0u64;
    let mut made = 0u64;
    while made < n && run < n * 4 {
        run += 1;
        let progs = gen_linkset(&mut rng, a.thorough());
        let all_dbg = a.get_u64("alldbg", 0) == 1 || chance(&mut rng, 65);
        let mut set: Vec<(String, bool)> = progs.iter().map(|p| { let text = text_of(p, &mut rng); let dbg = all_dbg || chance(&mut rng, 50); (text, dbg) }).collect();
        // an empty source file (no statement at all, assembled with debug symbols: an empty source text) anywhere in the set
        if chance(&mut rng, 12) { let at = rng.random_range(0..=set.len()); set.insert(at, (pick(&mut rng, &["", "\n", "; nothing\n"]).to_string(), true)); }
        if link_set_record(&mut rng, run, &set, out) { made += 1; }
    }
}

/// `lc3v replay link hist=<file> ops=<file>`: ops lists the statement templates, `files=<file>` the files of
/// MC_Link as template sequences; a history is a flat list f1, d1, f2, d2, ... (file number, debug 0/1).  Selections
/// that differ only in order are replayed once (the record holds every order and bracketing).
pub fn replay_link(a: &Args, out: &mut Out) {
    let mut rng = rng_for(a, 0x11D);
    let cps = |v: &Value| -> String { v.as_array().unwrap().iter().map(|c| char::from_u32(c.as_u64().unwrap() as u32).unwrap()).collect() };
    let lines: Vec<Value> = std::fs::read_to_string(a.get_str("ops", "")).expect("ops file").lines().filter(|l| !l.trim().is_empty())
        .map(|l| serde_json::from_str(l).expect("ops line")).collect();
    let tpls: Vec<GStmt> = lines.iter().filter(|v| v.get("n").is_some()).map(|v| {
        let n = &v["n"];
        let mut g = GStmt::new(n["k"].as_str().unwrap(), n["a"].as_i64().unwrap(), n["b"].as_i64().unwrap(), n["c"].as_i64().unwrap(), n["m"].as_i64().unwrap());
        g.lbl = cps(&n["lbl"]); g.s = cps(&n["str"]);
        for l in v["labels"].as_array().unwrap() { g.labels.push(cps(l)); }
        g
    }).collect();
    let files: Vec<Vec<usize>> = lines.iter().filter_map(|v| v.get("file")).map(|f| f.as_array().unwrap().iter().map(|x| x.as_u64().unwrap() as usize).collect()).collect();
    let texts: Vec<String> = files.iter().map(|ts| { let p: Vec<GStmt> = ts.iter().map(|&t| tpls[t - 1].clone()).collect(); asmgen::render(&mut rng, &p, &Style::plain()).text }).collect();
    let hist = std::fs::read_to_string(a.get_str("hist", "")).expect("hist file");
    let mut seen = std::collections::HashSet::new();
    let mut run = 0u64;
    for line in hist.lines() {
        if line.trim().is_empty() { continue; }
        let h: Vec<usize> = serde_json::from_str(line).expect("history");
        let mut sel: Vec<(usize, bool)> = h.chunks(2).map(|c| (c[0], c[1] == 1)).collect();
        sel.sort();
        if !seen.insert(sel.clone()) { continue; }
        run += 1;
        let set: Vec<(String, bool)> = sel.iter().map(|&(f, d)| (texts[f - 1].clone(), d)).collect();
        link_set_record(&mut rng, run, &set, out);
    }
}

/// `lc3v emit rt`: single generated programs (exotic source text) through both object formats.
pub fn emit_rt(a: &Args, out: &mut Out) {
    asmgen::EXOTIC_LABELS.with(|e| e.set(true));
    let mut rng = rng_for(a, 0x27);
    let n = a.get_u64("n", if a.thorough() { 1500 } else { 150 });
    let mut run = 0u64;
    let mut made = 0;
    // very large blocks (their byte counts exceed 16 bits) and a label behind them
    for nw in [21845u32, 21846, 40000] {
        run += 1;
        let text = format!(".orig x3000\nBIG .blkw {nw}\nTAIL .fill x1234\n.end\n");
        let (rec, o) = asm_record(&mut rng, run, &text, nw == 21846, None, false);
        if let Some(o) = o { out.emit(json!({"ev": "Rt", "run": run, "src": rec["src"], "dbg": rec["dbg"], "obj": js::obj(&o), "rt": rt_json(&o), "panic": 0})); }
    }
    while made < n && run < 6 * n {
        run += 1;
        let mut cfg = cfg_for(&mut rng, a.thorough(), 0);
        cfg.exotic = true;
        let prog = asmgen::gen_program(&mut rng, &cfg);
        let mut st = Style::random(&mut rng);
        st.exotic = true; st.comments = *pick(&mut rng, &[30, 80, 100]); st.blank = *pick(&mut rng, &[20, 60]);
        let text = asmgen::render(&mut rng, &prog, &st).text;
        let dbg = chance(&mut rng, 80);
        let (rec, o) = asm_record(&mut rng, run, &text, dbg, None, false);
        let Some(o) = o else { continue };
        made += 1;
        out.emit(json!({"ev": "Rt", "run": run, "src": rec["src"], "dbg": rec["dbg"], "obj": js::obj(&o), "rt": rt_json(&o), "panic": 0}));
    }
}

// ---------------------------------------------------------------------------
// untrusted object files (C19)

/// An object file as data, free of the assembler's invariants; written by the harness's own
/// writers (the formats as documented in asm/encoding.rs), so that the real readers see
/// files no writer of the crate would produce.
#[derive(Clone, Debug, Default)]
struct MalObj {
    blocks: Vec<(u16, Vec<Option<u16>>)>,
    labels: Vec<(String, u16, bool, u64)>,
    rel: Vec<(u16, String)>,
    lines: Vec<(u64, Vec<u16>)>,
    src: Option<String>,
    sym: bool,
}
impl MalObj {
    fn of(o: &ObjectFile) -> MalObj {
        let mut m = MalObj::default();
        m.blocks = o.verif_block_iter().map(|(s, w)| (s, w.to_vec())).collect();
        if let Some(st) = o.symbol_table() {
            m.sym = true;
            m.labels = st.label_iter().map(|(k, a, x)| (k.to_string(), a, x, st.verif_label_src_start(k).unwrap_or(0) as u64)).collect();
            m.labels.sort();
            m.rel = st.verif_rel_iter().map(|(a, l)| (a, l.to_string())).collect();
            m.rel.sort();
            // contiguous line blocks
            let mut cur: Option<(u64, Vec<u16>)> = None;
            for (l, a) in st.line_iter() {
                match &mut cur {
                    Some((s, v)) if *s + v.len() as u64 == l as u64 => v.push(a),
                    _ => { if let Some(c) = cur.take() { m.lines.push(c); } cur = Some((l as u64, vec![a])); }
                }
            }
            if let Some(c) = cur { m.lines.push(c); }
            m.src = st.source_info().map(|s| s.source().to_string());
        }
        m
    }
    fn to_bin(&self) -> Vec<u8> {
        let mut b = b"obj\x21\x10\x00\x01".to_vec();
        for (s, w) in &self.blocks {
            b.push(0); b.extend(s.to_le_bytes()); b.extend((w.len() as u16).to_le_bytes());
            for x in w { match x { Some(v) => { b.push(0xFF); b.extend(v.to_le_bytes()); } None => b.extend([0, 0, 0]) } }
        }
        if self.sym {
            for (k, a, x, s) in &self.labels {
                b.push(1); b.extend(a.to_le_bytes()); b.push(*x as u8); b.extend(s.to_le_bytes()); b.extend((k.len() as u64).to_le_bytes()); b.extend(k.as_bytes());
            }
            for (l, v) in &self.lines { b.push(2); b.extend(l.to_le_bytes()); b.extend((v.len() as u16).to_le_bytes()); for a in v { b.extend(a.to_le_bytes()); } }
            if let Some(s) = &self.src { b.push(3); b.extend((s.len() as u64).to_le_bytes()); b.extend(s.as_bytes()); }
            for (a, l) in &self.rel { b.push(4); b.extend(a.to_le_bytes()); b.extend((l.len() as u64).to_le_bytes()); b.extend(l.as_bytes()); }
        }
        b
    }
    fn to_txt(&self) -> String {
        use std::fmt::Write;
        let mut t = String::from("LC-3 OBJ FILE\n\n.TEXT\n");
        for (s, w) in &self.blocks {
            let _ = writeln!(t, "{s:04X}\n{}", w.len());
            for x in w { match x { Some(v) => { let _ = writeln!(t, "{v:04X}"); } None => t.push_str("????\n") } }
        }
        t.push('\n');
        if self.sym {
            t.push_str(".SYMBOL\n");
            if !self.labels.is_empty() { t.push_str("ADDR | EXT | LABEL\n"); for (k, a, x, _) in &self.labels { let _ = writeln!(t, "{a:04X} | {:3} | {k}", *x as u8); } }
            t.push_str("\n.LINKER_INFO\n");
            if !self.rel.is_empty() { t.push_str("ADDR | LABEL\n"); for (a, l) in &self.rel { let _ = writeln!(t, "{a:04X} | {l}"); } }
            t.push_str("\n.DEBUG\n# DEBUG SYMBOLS FOR LC3TOOLS\n\n");
            if !self.labels.is_empty() { t.push_str("LABEL | INDEX\n"); for (k, _, _, s) in &self.labels { let _ = writeln!(t, "{k} | {s}"); } }
            t.push_str("====================\n");
            if let Some(src) = &self.src {
                // line table: one row per source line (and per mapped line beyond the source)
                let mut rows: std::collections::BTreeMap<u64, (Option<u16>, String)> = std::collections::BTreeMap::new();
                let mut start = 0usize;
                for (i, piece) in src.split_inclusive('\n').enumerate() { rows.insert(i as u64, (None, piece.to_string())); start += piece.len(); }
                let _ = start;
                if src.is_empty() || src.ends_with('\n') { let n = rows.len() as u64; rows.insert(n, (None, String::new())); }
                for (l, v) in &self.lines { for (i, a) in v.iter().enumerate() { rows.entry(l.wrapping_add(i as u64)).or_default().0 = Some(*a); } }
                t.push_str("LINE | ADDR | SOURCE\n");
                for (l, (a, s)) in rows.iter().take(4000) {
                    let _ = write!(t, "{l:4} | ");
                    match a { Some(a) => { let _ = write!(t, "{a:04X}"); } None => t.push_str("????") }
                    let _ = writeln!(t, " | {}", s.escape_default());
                }
            }
            t.push_str("====================\n");
        }
        t
    }
}

fn mutate_obj(rng: &mut StdRng, m: &mut MalObj) -> &'static str {
    let nb = m.blocks.len();
    match rng.random_range(0..26) {
        0 if nb > 0 => { let i = rng.random_range(0..nb); let l = m.blocks[i].1.len() as u32; m.blocks[i].0 = (0x10000u32 - l.min(0xFFFF)) as u16; "block-ends-at-10000" }
        1 if nb > 0 => { let i = rng.random_range(0..nb); let l = m.blocks[i].1.len() as u32; m.blocks[i].0 = (0x10000u32 - (l / 2).max(1).min(0xFFFF)) as u16; "block-wraps" }
        2 if nb > 0 => { let i = rng.random_range(0..nb); m.blocks[i].0 = *pick(rng, &[0xFFFFu16, 0xFFFE, 0xFE00, 0xFDFF, 0]); "block-at-edge" }
        3 if nb > 0 => { let i = rng.random_range(0..nb); let (s, w) = m.blocks[i].clone(); m.blocks.push((s.wrapping_add(1), w)); "block-overlap" }
        4 if nb > 0 => { let i = rng.random_range(0..nb); let n = m.blocks[i].1.len(); for k in (n.saturating_sub(rng.random_range(1..4)))..n { m.blocks[i].1[k] = None; } "uninit-tail" }
        5 if nb > 0 => { let i = rng.random_range(0..nb); m.blocks[i].0 = 0xFFFF - rng.random_range(0..3); m.blocks[i].1 = vec![None; rng.random_range(1..6)]; "uninit-run-at-top" }
        6 => { m.blocks.push((rng.random(), vec![])); "empty-block" }
        7 => { m.sym = true; m.rel.push((rng.random(), pick(rng, &["NOWHERE", "A", ""]).to_string())); "rel-anywhere" }
        8 if !m.labels.is_empty() => { m.sym = true; let l = m.labels[rng.random_range(0..m.labels.len())].0.clone(); m.rel.push((*pick(rng, &[0u16, 0xFE00, 0xFFFF, 0x2FFF]), l)); "rel-of-known-label-outside" }
        9 if !m.labels.is_empty() => { let i = rng.random_range(0..m.labels.len()); m.labels[i].2 = !m.labels[i].2; "flip-external" }
        10 if !m.labels.is_empty() => { let i = rng.random_range(0..m.labels.len()); m.labels[i].1 = rng.random(); "label-addr" }
        11 => { m.sym = true; m.labels.push((pick(rng, &["", " ", "a | b", "\u{e9}", "X", "====", ".TEXT"]).to_string(), rng.random(), chance(rng, 50), *pick(rng, &[0u64, 1 << 40, u64::MAX]))); "odd-label" }
        12 if !m.labels.is_empty() => { let i = rng.random_range(0..m.labels.len()); m.labels[i].3 = *pick(rng, &[u64::MAX, 1 << 63, 1 << 32, 99999]); "label-src-huge" }
        13 if !m.lines.is_empty() => { let i = rng.random_range(0..m.lines.len()); m.lines[i].0 = *pick(rng, &[u64::MAX, u64::MAX - 1, 1 << 63, 1 << 32, 100000]); "line-number-huge" }
        14 if !m.lines.is_empty() => { let i = rng.random_range(0..m.lines.len()); m.lines[i].0 = m.lines[i].0.wrapping_add(*pick(rng, &[1u64, 5, 1000])); "lines-past-source" }
        15 if !m.lines.is_empty() => { let i = rng.random_range(0..m.lines.len()); m.lines[i].1.reverse(); let v = m.lines[i].1.clone(); m.lines[i].1.extend(v); "lines-unsorted" }
        16 if !m.lines.is_empty() => { let (l, v) = m.lines[rng.random_range(0..m.lines.len())].clone(); m.lines.push((l.wrapping_add((v.len() as u64) / 2), v)); "line-blocks-overlap" }
        17 => { m.sym = true; m.lines.push((*pick(rng, &[0u64, 3, 50, u64::MAX - 2]), (0..rng.random_range(1..5)).map(|k| 0x3000 + k).collect())); if m.src.is_none() && chance(rng, 50) { m.src = Some("x\ny".into()); } "extra-lines" }
        18 => { if let Some(s) = &mut m.src { let n = s.len() / 2; let mut k = n; while !s.is_char_boundary(k) { k -= 1; } s.truncate(k); } "src-truncated" }
        19 => { m.src = None; "src-removed" }
        20 => { m.sym = true; m.src = Some(pick(rng, &["", "\n", "\n\n\n", "a | b | c\n====\n", "\u{0}7\\"]).to_string()); "src-replaced" }
        21 => { m.sym = !m.sym; "sym-toggled" }
        22 if nb > 0 => { let i = rng.random_range(0..nb); m.blocks[i].1 = vec![Some(0x1234); *pick(rng, &[0x200usize, 0x2000, 0xFFFF])]; "block-huge" }
        23 => { m.labels.clear(); "labels-cleared" }
        24 if !m.rel.is_empty() => { let (a, l) = m.rel[0].clone(); m.rel.push((a.wrapping_add(1), l)); "rel-dup" }
        _ => { m.blocks.push((rng.random(), vec![Some(rng.random()), None, Some(rng.random())])); "extra-block" }
    }
}

fn mutate_bytes(rng: &mut StdRng, b: &mut Vec<u8>) {
    if b.is_empty() { b.push(rng.random()); return; }
    for _ in 0..rng.random_range(1..4) {
        let i = rng.random_range(0..b.len());
        match rng.random_range(0..7) {
            0 => b[i] = rng.random(),
            1 => b[i] = *pick(rng, &[0u8, 0xFF, 0x7F, 0x80, 1, 2, 3, 4]),
            2 => { b.truncate(i); if b.is_empty() { return; } }
            3 => { let j = rng.random_range(i..=b.len().min(i + 24)); let seg: Vec<u8> = b[i..j].to_vec(); for (k, x) in seg.into_iter().enumerate() { b.insert(i + k, x); } }
            4 => { let j = (i + rng.random_range(1..9)).min(b.len()); b.drain(i..j); if b.is_empty() { return; } }
            5 => { for k in i..(i + 8).min(b.len()) { b[k] = 0xFF; } }
            _ => { b.insert(i, *pick(rng, &[0u8, 1, 2, 3, 4, 5])); }
        }
    }
}
fn mutate_text(rng: &mut StdRng, t: &mut String) {
    let mut lines: Vec<String> = t.split('\n').map(|s| s.to_string()).collect();
    for _ in 0..rng.random_range(1..4) {
        if lines.is_empty() { break; }
        let i = rng.random_range(0..lines.len());
        match rng.random_range(0..10) {
            0 => { lines.remove(i); }
            1 => { let l = lines[i].clone(); lines.insert(i, l); }
            2 => { lines[i] = pick(rng, &["====================", ".TEXT", ".SYMBOL", ".LINKER_INFO", ".DEBUG", "", "????", "FFFF", "65535", "LINE | ADDR | SOURCE", "LABEL | INDEX", "ADDR | EXT | LABEL", "="]).to_string(); }
            3 => { let j = rng.random_range(0..lines.len()); lines.swap(i, j); }
            4 => { lines[i] = lines[i].replace(" | ", *pick(rng, &["|", " |  | ", "  ", " | "])); }
            5 => { lines[i] = lines[i].replace(|c: char| c.is_ascii_digit(), *pick(rng, &["9", "F", "0", ""])); }
            6 => { lines[i].push_str(*pick(rng, &["\\", "\\u{110000}", "\\x", " | x", "\\u{D800}", "\u{e9}"])); }
            7 => { lines.truncate(i); }
            8 => { lines[i] = format!("{}{}", pick(rng, &["18446744073709551615", "99999999999999999999", "-1", "4294967296"]), &lines[i][lines[i].len().min(1)..]); }
            _ => { lines.insert(i, pick(rng, &["====================", ".DEBUG", "0 | 3000 | x", "FFFF", "3", "????"]).to_string()); }
        }
    }
    *t = lines.join("\n");
}

fn link_outcome(a: ObjectFile, b: ObjectFile) -> Value {
    match js::guard(move || ObjectFile::link(a, b)) {
        Err(()) => json!({"res": "panic", "panic": 1, "obj": js::obj_none(), "errq": 0, "after": 0}),
        Ok(Err(e)) => { let ej = err_json(&e); json!({"res": kind_name(&e.kind), "panic": 0, "obj": js::obj_none(), "errq": ej["qpanic"], "after": 0}) }
        Ok(Ok(o)) => {
            // the result is itself usable: serialize, load, query
            let after = js::guard(|| { let _ = BinaryFormat::serialize(&o); let _ = TextFormat::serialize(&o); let mut s = Simulator::new(SimFlags::default()); let _ = s.load_obj_file(&o); let d = dbgq_json(&o); if d["panic"] == 1 { panic!("query panicked"); } });
            let pj = js::guard(|| js::obj(&o));
            json!({"res": "ok", "panic": 0, "obj": pj.clone().unwrap_or(js::obj_none()), "errq": 0, "after": (after.is_err() || pj.is_err()) as u8})
        }
    }
}

/// `lc3v emit untrusted`: arbitrary and adversarially structured inputs to both readers, then
/// re-serialize, link (both orders, with assembled partners and with itself), load, step.
pub fn emit_untrusted(a: &Args, out: &mut Out) {
    let mut rng = rng_for(a, 0x19);
    let n = a.get_u64("n", if a.thorough() { 12000 } else { 1200 });
    // partners: assembled files (debug and not), one declaring an external, one defining common names
    let partner_src = [
        ".orig x6000\nPA ADD R0, R0, #1\n.fill PA\nHALT\n.end\n",
        ".external A\n.orig x6100\n.fill A\nX .fill x1\n.end\n",
        ".orig x0000\nA .fill x7\n.blkw 2\n.end\n.orig xFDFE\nNOWHERE .fill 1\n.fill 2\n.end\n",
    ];
    let mut partners: Vec<ObjectFile> = vec![];
    for (i, s) in partner_src.iter().enumerate() {
        let ast = parse_ast(s).unwrap();
        partners.push(if i == 1 { assemble(ast).unwrap() } else { assemble_debug(ast, s).unwrap() });
    }
    // the pool of valid objects to start from
    let mut pool: Vec<ObjectFile> = partners.clone();
    let mut tries = 0;
    while pool.len() < 40 && tries < 400 {
        tries += 1;
        let cfg = cfg_for(&mut rng, false, 0);
        let prog = asmgen::gen_program(&mut rng, &cfg);
        let text = text_of(&prog, &mut rng);
        if let Ok(ast) = parse_ast(&text) { if let Ok(o) = if chance(&mut rng, 70) { assemble_debug(ast, &text) } else { assemble(ast) } { pool.push(o); } }
    }
    // a deterministic sweep: every 8-byte window of two small valid files overwritten with the largest 64-bit
    // value and with the value that makes "position + length" wrap around to a small number (every length and
    // index field of the format is hit exactly)
    let mut extras: Vec<Vec<u8>> = vec![];
    {
        let tiny_src = ".orig x3000\nA .fill A\n.end\n";
        let tiny = assemble_debug(parse_ast(tiny_src).unwrap(), tiny_src).unwrap();
        for o in [&tiny, &partners[1]] {
            let b0 = BinaryFormat::serialize(o);
            for i in 7..b0.len().saturating_sub(7) {
                let mut b = b0.clone(); for k in i..i + 8 { b[k] = 0xFF; } extras.push(b);
                let mut b = b0.clone(); b[i..i + 8].copy_from_slice(&(0u64.wrapping_sub(i as u64 + 8)).to_le_bytes()); extras.push(b);
            }
        }
    }
    for run in 1..=n + extras.len() as u64 {
        let extra = if run > n { Some(extras[(run - n - 1) as usize].clone()) } else { None };
        let fmt_bin = if extra.is_some() { true } else { chance(&mut rng, 50) };
        let mode = if extra.is_some() { 99 } else { rng.random_range(0..10) };
        let mut what: Vec<&'static str> = vec![];
        let (bytes, text): (Vec<u8>, String) = match mode {
            99 => { what.push("length-field-sweep"); (extra.unwrap(), String::new()) }
            0 => { // random bytes / text
                what.push("random");
                let len = *pick(&mut rng, &[0usize, 1, 7, 8, 20, 200]);
                let mut b: Vec<u8> = (0..len).map(|_| rng.random()).collect();
                if chance(&mut rng, 50) { let mut h = b"obj\x21\x10\x00\x01".to_vec(); h.extend(b); b = h; }
                let t: String = (0..len).map(|_| *pick(&mut rng, &['a', '\n', '.', '=', '|', ' ', '0', 'F', '?', '#', '\u{e9}', '\\'])).collect();
                (b, if chance(&mut rng, 50) { format!("LC-3 OBJ FILE\n{t}") } else { t })
            }
            1 | 2 => { // byte / line mutations of a valid serialization
                what.push("mutated-serialization");
                let o = &pool[rng.random_range(0..pool.len())];
                let mut b = BinaryFormat::serialize(o); mutate_bytes(&mut rng, &mut b);
                let mut t = TextFormat::serialize(o); mutate_text(&mut rng, &mut t);
                (b, t)
            }
            _ => { // structured: an abstract object that breaks the writers' invariants
                let mut m = MalObj::of(&pool[rng.random_range(0..pool.len())]);
                for _ in 0..rng.random_range(1..=3) { what.push(mutate_obj(&mut rng, &mut m)); }
                (m.to_bin(), m.to_txt())
            }
        };
        let input_len = if fmt_bin { bytes.len() } else { text.len() };
        let d = if fmt_bin { js::guard(|| BinaryFormat::deserialize(&bytes)) } else { js::guard(|| TextFormat::deserialize(&text)) };
        let mut rec = json!({"ev": "Untrusted", "run": run, "fmt": if fmt_bin { "bin" } else { "txt" }, "what": what, "len": input_len, "panic": 0});
        if input_len <= 400 { rec["input"] = if fmt_bin { js::bytes(&bytes) } else { js::bytes(text.as_bytes()) }; }
        match d {
            Err(()) => { rec["deser"] = json!("panic"); rec["panic"] = json!(1); rec["obj"] = js::obj_none(); rec["links"] = json!([]); rec["uses"] = json!({"panic": 0}); }
            Ok(None) => { rec["deser"] = json!("reject"); rec["obj"] = js::obj_none(); rec["links"] = json!([]); rec["uses"] = json!({"panic": 0}); }
            Ok(Some(o)) => {
                rec["deser"] = json!("accept");
                let big = o.addr_iter().count() > 3000;
                // (the projection itself queries the object: label_iter, line_iter, source_info)
                let pj = js::guard(|| js::obj(&o));
                if pj.is_err() { rec["panic"] = json!(1); }
                rec["obj"] = if big { js::obj_none() } else { pj.unwrap_or(js::obj_none()) };
                rec["big"] = json!(big as u8);
                // uses: re-serialize (and read that back), load, step, debug queries
                let ser = js::guard(|| { let b = BinaryFormat::serialize(&o); let t = TextFormat::serialize(&o); (BinaryFormat::deserialize(&b).is_some(), TextFormat::deserialize(&t).is_some()) });
                let load = js::guard(|| { let mut s = Simulator::new(SimFlags::default()); let r = s.load_obj_file(&o); let _ = s.step_in(); let _ = s.run_with_limit(20); match r { Ok(()) => "ok", Err(SimErr::UnresolvedExternal(_)) => "UnresolvedExternal", Err(_) => "other" } });
                let dq = js::guard(|| dbgq_json(&o));
                rec["uses"] = json!({"panic": (ser.is_err() || load.is_err() || dq.is_err() || dq.as_ref().map(|v| v["panic"] == 1).unwrap_or(false)) as u8,
                                     "ser": ser.is_ok() as u8, "load": load.unwrap_or("panic"), "dbgq": dq.is_ok() as u8});
                let mut links = vec![];
                for (pi, p) in partners.iter().enumerate() {
                    let mut ab = link_outcome(o.clone(), p.clone()); ab["with"] = json!(pi + 1); ab["order"] = json!("ab");
                    let mut ba = link_outcome(p.clone(), o.clone()); ba["with"] = json!(pi + 1); ba["order"] = json!("ba");
                    if big { ab["obj"] = js::obj_none(); ba["obj"] = js::obj_none(); }
                    links.push(ab); links.push(ba);
                }
                let mut oo = link_outcome(o.clone(), o.clone()); oo["with"] = json!(0); oo["order"] = json!("self"); oo["obj"] = js::obj_none();
                links.push(oo);
                rec["links"] = Value::Array(links);
            }
        }
        out.emit(rec);
    }
    // the partners themselves, for the specification's Link
    out.emit(json!({"ev": "Partners", "run": 0, "objs": partners.iter().map(js::obj).collect::<Vec<_>>(), "panic": 0}));
}

// ---------------------------------------------------------------------------
// the binary format against its specification (spec/ObjFormat.tla)

fn limbs(x: u64) -> Value { json!([x & 0xFFFF, (x >> 16) & 0xFFFF, (x >> 32) & 0xFFFF, (x >> 48) & 0xFFFF]) }

/// What the queries of the crate show of an object file, with 64-bit quantities as 16-bit limbs
/// (spec/ObjFormat.tla `View`).
fn fmt_view(o: &ObjectFile) -> Value {
    let blocks: Vec<Value> = o.verif_block_iter()
        .map(|(s, w)| json!({"s": s, "w": w.iter().map(|x| x.map(|v| v as i64).unwrap_or(-1)).collect::<Vec<_>>()})).collect();
    match o.symbol_table() {
        None => json!({"blocks": blocks, "sym": 0, "labels": [], "rel": [], "lines": [], "dbg": 0, "src": []}),
        Some(st) => {
            let labels: Vec<Value> = st.label_iter().map(|(k, a, x)| json!({"k": js::bytes(k.as_bytes()), "a": a, "x": x as u8,
                "src": limbs(st.verif_label_src_start(k).unwrap_or(0) as u64)})).collect();
            let rel: Vec<Value> = st.verif_rel_iter().map(|(a, l)| json!([a, js::bytes(l.as_bytes())])).collect();
            let lines: Vec<Value> = st.line_iter().map(|(l, a)| json!([limbs(l as u64), a])).collect();
            let (dbg, src) = match st.source_info() { Some(si) => (1, js::bytes(si.source().as_bytes())), None => (0, json!([])) };
            json!({"blocks": blocks, "sym": 1, "labels": labels, "rel": rel, "lines": lines, "dbg": dbg, "src": src})
        }
    }
}
fn fmt_view_none() -> Value { json!({"blocks": [], "sym": 0, "labels": [], "rel": [], "lines": [], "dbg": 0, "src": []}) }

const FMT_MAX: usize = 1800;

/// `lc3v emit fmt`: (1) what the real writer produces for assembled and linked objects, to be recognised by
/// the specification's WrittenFor; (2) arbitrary and adversarially structured byte strings through the real
/// reader, to be compared with the specification's BinRead (accept/reject and the object), then written again.
pub fn emit_fmt(a: &Args, out: &mut Out) {
    asmgen::EXOTIC_LABELS.with(|e| e.set(true));
    let mut rng = rng_for(a, 0xF17);
    let n = a.get_u64("n", if a.thorough() { 6000 } else { 700 });
    // a pool of real objects
    let mut pool: Vec<ObjectFile> = vec![];
    for s in [".orig x6000\nPA ADD R0, R0, #1\n.fill PA\nHALT\n.end\n", ".external A\n.orig x6100\n.fill A\nX .fill x1\n.end\n",
              ".orig x0000\nA .fill x7\n.blkw 2\n.end\n.orig xFDFE\nNOWHERE .fill 1\n.fill 2\n.end\n", "", ".orig xFDFF\n.blkw 1\n.end"] {
        let ast = parse_ast(s).unwrap();
        pool.push(assemble_debug(ast.clone(), s).unwrap());
        pool.push(assemble(ast).unwrap());
    }
    let mut tries = 0;
    while pool.len() < 60 && tries < 600 {
        tries += 1;
        let mut cfg = cfg_for(&mut rng, false, 0);
        cfg.exotic = true;
        let prog = asmgen::gen_program(&mut rng, &cfg);
        let text = text_of(&prog, &mut rng);
        if text.len() > 700 { continue; }
        if let Ok(ast) = parse_ast(&text) { if let Ok(o) = if chance(&mut rng, 70) { assemble_debug(ast, &text) } else { assemble(ast) } { pool.push(o); } }
    }
    // linked objects join the pool
    let np = pool.len();
    for _ in 0..40 {
        let (x, y) = (pool[rng.random_range(0..np)].clone(), pool[rng.random_range(0..np)].clone());
        if let Ok(Ok(o)) = js::guard(move || ObjectFile::link(x, y)) { pool.push(o); }
    }
    let mut run = 0u64;
    // (1) written
    for o in &pool {
        run += 1;
        let r = js::guard(|| { let b = BinaryFormat::serialize(o); let d = BinaryFormat::deserialize(&b); (b, d) });
        match r {
            Err(()) => out.emit(json!({"ev": "Fmt", "kind": "written", "run": run, "panic": 1, "input": [], "view": fmt_view_none(), "eq": 0})),
            Ok((b, d)) => {
                if b.len() > FMT_MAX { continue; }
                out.emit(json!({"ev": "Fmt", "kind": "written", "run": run, "panic": 0, "input": js::bytes(&b), "view": fmt_view(o),
                                "eq": (d.as_ref() == Some(o)) as u8}));
            }
        }
    }
    // (1b) the text writer: its output is a function of the object (spec/TxtFormat.tla TxtWrite)
    for o in &pool {
        run += 1;
        let r = js::guard(|| { let t = TextFormat::serialize(o); let d = TextFormat::deserialize(&t); (t, d) });
        match r {
            Err(()) => out.emit(json!({"ev": "Fmt", "kind": "txt", "run": run, "panic": 1, "input": [], "view": fmt_view_none(), "eq": 0})),
            Ok((t, d)) => {
                if t.len() > 2 * FMT_MAX { continue; }
                out.emit(json!({"ev": "Fmt", "kind": "txt", "run": run, "panic": 0, "input": js::bytes(t.as_bytes()), "view": fmt_view(o),
                                "eq": (d.as_ref() == Some(o)) as u8}));
            }
        }
    }
    // (2) read
    let mut made = 0;
    while made < n {
        run += 1;
        let mode = rng.random_range(0..10);
        let mut what: Vec<&'static str> = vec![];
        let bytes: Vec<u8> = match mode {
            0 => {
                what.push("random");
                let len = *pick(&mut rng, &[0usize, 1, 7, 8, 12, 20, 40]);
                let mut b: Vec<u8> = (0..len).map(|_| if chance(&mut rng, 60) { *pick(&mut rng, &[0u8, 1, 2, 3, 4, 255, 65, 0xC3, 0xA9, 0x80]) } else { rng.random() }).collect();
                if chance(&mut rng, 80) { let mut h = b"obj\x21\x10\x00\x01".to_vec(); h.extend(b); b = h; }
                b
            }
            1..=3 => {
                what.push("mutated-serialization");
                let o = &pool[rng.random_range(0..pool.len())];
                let mut b = BinaryFormat::serialize(o); mutate_bytes(&mut rng, &mut b);
                b
            }
            _ => {
                let mut m = MalObj::of(&pool[rng.random_range(0..pool.len())]);
                for _ in 0..rng.random_range(1..=3) { what.push(mutate_obj(&mut rng, &mut m)); }
                if chance(&mut rng, 15) { let mut b = m.to_bin(); mutate_bytes(&mut rng, &mut b); b } else { m.to_bin() }
            }
        };
        if bytes.len() > FMT_MAX { continue; }
        made += 1;
        out.emit(fmt_read_record(run, &bytes, &what));
    }
}

/// One `Fmt` record of kind "read": a byte string through the real binary reader, the view of what it built,
/// and what the real writer makes of that.
fn fmt_read_record(run: u64, bytes: &[u8], what: &[&'static str]) -> Value {
    {
        let d = js::guard(|| BinaryFormat::deserialize(bytes));
        let mut rec = json!({"ev": "Fmt", "kind": "read", "run": run, "what": what, "panic": 0, "input": js::bytes(bytes)});
        match d {
            Err(()) => { rec["deser"] = json!("panic"); rec["panic"] = json!(1); rec["view"] = fmt_view_none(); rec["again"] = json!([]); rec["again_ok"] = json!(0); }
            Ok(None) => { rec["deser"] = json!("reject"); rec["view"] = fmt_view_none(); rec["again"] = json!([]); rec["again_ok"] = json!(0); }
            Ok(Some(o)) => {
                rec["deser"] = json!("accept");
                match js::guard(|| (fmt_view(&o), BinaryFormat::serialize(&o))) {
                    Err(()) => { rec["panic"] = json!(1); rec["view"] = fmt_view_none(); rec["again"] = json!([]); rec["again_ok"] = json!(0); }
                    Ok((v, b2)) => {
                        rec["view"] = v;
                        if b2.len() <= FMT_MAX { rec["again"] = js::bytes(&b2); rec["again_ok"] = json!(1); } else { rec["again"] = json!([]); rec["again_ok"] = json!(0); }
                    }
                }
            }
        }
        rec
    }
}

/// `lc3v replay fmt hist=<file>`: every byte string printed by MC_ObjFormat (RP configuration) through the real reader.
pub fn replay_fmt(a: &Args, out: &mut Out) {
    let hist = std::fs::read_to_string(a.get_str("hist", "")).expect("hist file");
    let mut run = 0u64;
    for line in hist.lines() {
        if line.trim().is_empty() { continue; }
        let b: Vec<u8> = serde_json::from_str::<Vec<u64>>(line).expect("history").iter().map(|&x| x as u8).collect();
        run += 1;
        out.emit(fmt_read_record(run, &b, &["enumerated"]));
    }
}


// ---------------------------------------------------------------------------
// RP: the programs enumerated by TLC (spec/MC_AsmRP.tla) through the real assembler
/// `lc3v replay asm hist=<file> ops=<file>`: ops lists the statement templates (one per line, as the
/// generator's statements), a history is a sequence of template numbers.
pub fn replay_asm(a: &Args, out: &mut Out) {
    let mut rng = rng_for(a, 0xA5B);
    let cps = |v: &Value| -> String { v.as_array().unwrap().iter().map(|c| char::from_u32(c.as_u64().unwrap() as u32).unwrap()).collect() };
    let tpls: Vec<GStmt> = std::fs::read_to_string(a.get_str("ops", "")).expect("ops file").lines().filter(|l| !l.trim().is_empty()).map(|l| {
        let v: Value = serde_json::from_str(l).expect("template");
        let n = &v["n"];
        let mut g = GStmt::new(n["k"].as_str().unwrap(), n["a"].as_i64().unwrap(), n["b"].as_i64().unwrap(), n["c"].as_i64().unwrap(), n["m"].as_i64().unwrap());
        g.lbl = cps(&n["lbl"]); g.s = cps(&n["str"]);
        for l in v["labels"].as_array().unwrap() { g.labels.push(cps(l)); }
        g
    }).collect();
    let hist = std::fs::read_to_string(a.get_str("hist", "")).expect("hist file");
    let mut run = 0u64;
    for line in hist.lines() {
        if line.trim().is_empty() { continue; }
        let h: Vec<usize> = serde_json::from_str(line).expect("history");
        run += 1;
        let prog: Vec<GStmt> = h.iter().map(|&t| tpls[t - 1].clone()).collect();
        let r = asmgen::render(&mut rng, &prog, &Style::plain());
        let (rec, _) = asm_record(&mut rng, run, &r.text, run % 2 == 0, Some(&prog), true);
        out.emit(rec);
    }
}


/// `lc3v replay txt hist=<file>`: every text printed by MC_TxtFormat (RP configuration) through the real text reader;
/// the view of what it built and what the real text writer makes of that.
pub fn replay_txt(a: &Args, out: &mut Out) {
    let hist = std::fs::read_to_string(a.get_str("hist", "")).expect("hist file");
    let mut run = 0u64;
    for line in hist.lines() {
        if line.trim().is_empty() { continue; }
        let b: Vec<u8> = serde_json::from_str::<Vec<u64>>(line).expect("history").iter().map(|&x| x as u8).collect();
        let Ok(text) = String::from_utf8(b.clone()) else { continue };
        run += 1;
        let mut rec = json!({"ev": "Fmt", "kind": "txtread", "run": run, "panic": 0, "input": js::bytes(&b)});
        match js::guard(|| TextFormat::deserialize(&text)) {
            Err(()) => { rec["deser"] = json!("panic"); rec["panic"] = json!(1); rec["view"] = fmt_view_none(); rec["again"] = json!([]); }
            Ok(None) => { rec["deser"] = json!("reject"); rec["view"] = fmt_view_none(); rec["again"] = json!([]); }
            Ok(Some(o)) => {
                rec["deser"] = json!("accept");
                match js::guard(|| (fmt_view(&o), TextFormat::serialize(&o))) {
                    Err(()) => { rec["panic"] = json!(1); rec["view"] = fmt_view_none(); rec["again"] = json!([]); }
                    Ok((v, t2)) => { rec["view"] = v; rec["again"] = js::bytes(t2.as_bytes()); }
                }
            }
        }
        out.emit(rec);
    }
}
