//! Driving real `Simulator`s and recording one event per public call, with the
//! projected post-state (spec/TV_Machine.tla).  Every run is step-bounded and has
//! a keyboard and a display attached.

use crate::{js, Out};
use lc3_ensemble::asm::ObjectFile;
use lc3_ensemble::ast::Reg;
use lc3_ensemble::sim::device::{
    BufferedDisplay, BufferedKeyboard, ExternalDevice, Interrupt, InterruptFromFn, TimerDevice,
};
use lc3_ensemble::sim::frame::{FrameType, ParameterList};
use lc3_ensemble::sim::mem::{MachineInitStrategy, Word};
use lc3_ensemble::sim::{InternalRegister, MemAccessCtx, SimErr, SimFlags, Simulator};
use serde_json::{json, Value};
use std::collections::VecDeque;
use std::sync::{Arc, Mutex, RwLock};

pub fn w(x: Word) -> Value { json!([x.get(), x.verif_mask()]) }
pub fn word(v: u16, m: u16) -> Word { Word::verif_from_parts(v, m) }
pub fn reg(r: u8) -> Reg { Reg::try_from(r).unwrap() }

pub fn err_name(e: &SimErr) -> &'static str {
    match e {
        SimErr::IllegalOpcode => "IllegalOpcode",
        SimErr::InvalidInstrFormat => "InvalidInstrFormat",
        SimErr::PrivilegeViolation => "PrivilegeViolation",
        SimErr::AccessViolation => "AccessViolation",
        SimErr::UnresolvedExternal(_) => "UnresolvedExternal",
        SimErr::Interrupt(_) => "Interrupt",
        SimErr::StrictRegSetUninit => "StrictRegSetUninit",
        SimErr::StrictMemSetUninit => "StrictMemSetUninit",
        SimErr::StrictIOSetUninit => "StrictIOSetUninit",
        SimErr::StrictJmpAddrUninit => "StrictJmpAddrUninit",
        SimErr::StrictSRAddrUninit => "StrictSRAddrUninit",
        SimErr::StrictMemAddrUninit => "StrictMemAddrUninit",
        SimErr::StrictPCCurrUninit => "StrictPCCurrUninit",
        SimErr::StrictPCNextUninit => "StrictPCNextUninit",
        SimErr::StrictPSRSetUninit => "StrictPSRSetUninit",
    }
}
pub fn res_name(r: &Result<(), SimErr>) -> &'static str {
    match r { Ok(()) => "ok", Err(e) => err_name(e) }
}

/// What a harness-controlled interrupt device returns on its next poll.
#[derive(Clone, Copy, Default, Debug)]
pub struct IntCmd { pub k: u8, pub vect: u8, pub prio: u8 }

/// State of a harness interrupt device: a fixed answer for single steps, or a
/// script indexed by the poll number for run-style calls (which may also clear
/// the MCR at a given poll, standing for another thread doing so).
#[derive(Default)]
pub struct IntState {
    pub cmd: IntCmd,
    pub scripted: bool,
    pub polls: u32,
    pub script: std::collections::HashMap<u32, IntCmd>,
    pub clr_at: u32,
    pub mcr: Option<lc3_ensemble::sim::MCR>,
}

#[derive(Debug)]
struct ExtErr;
impl std::fmt::Display for ExtErr {
    fn fmt(&self, f: &mut std::fmt::Formatter<'_>) -> std::fmt::Result { f.write_str("external") }
}
impl std::error::Error for ExtErr {}

/// A plain memory-mapped register device: reads give the last value written.
pub struct RegDev(pub Arc<Mutex<u16>>);
impl ExternalDevice for RegDev {
    fn io_read(&mut self, _addr: u16, _effectful: bool) -> Option<u16> { Some(*self.0.lock().unwrap()) }
    fn io_write(&mut self, _addr: u16, data: u16) -> bool { *self.0.lock().unwrap() = data; true }
    fn io_reset(&mut self) {}
    fn poll_interrupt(&mut self) -> Option<Interrupt> { None }
}

thread_local! {
    /// replayed behaviours: headers without memory segments (see TV_Machine!TraceBaseRd)
    pub static LIGHT_HEADERS: std::cell::Cell<bool> = const { std::cell::Cell::new(false) }; pub static PAIR_TAG: std::cell::RefCell<String> = std::cell::RefCell::new("none".to_string()); }
thread_local! {
    /// replayed adversarial machines (MC_Machine): the header names the memory pattern instead of listing memory
    pub static PATTERN: std::cell::Cell<u8> = const { std::cell::Cell::new(0) };
    /// bytes queued on the keyboard before the header is taken
    pub static PRE_KEYS: std::cell::RefCell<Vec<u8>> = const { std::cell::RefCell::new(Vec::new()) };
}
thread_local! { static PAIR_POS: std::cell::Cell<u32> = const { std::cell::Cell::new(0) }; }
pub fn set_pair_tag(t: &str) { PAIR_TAG.with(|p| *p.borrow_mut() = t.to_string()); PAIR_POS.with(|c| c.set(0)); }
fn next_pair_pos() -> &'static str {
    let tagged = PAIR_TAG.with(|p| p.borrow().as_str() != "none");
    if !tagged { return "-"; }
    PAIR_POS.with(|c| { let v = c.get(); c.set(v + 1); if v % 2 == 0 { "A" } else { "B" } })
}

pub struct Flags { pub strict: bool, pub real: bool, pub dbg: bool, pub ignp: bool }
impl Flags {
    pub fn json(&self) -> Value {
        json!({"strict": self.strict as u8, "real": self.real as u8, "dbg": self.dbg as u8, "ignp": self.ignp as u8})
    }
    pub fn of(f: &SimFlags) -> Flags {
        Flags { strict: f.strict, real: f.use_real_traps, dbg: f.debug_frames, ignp: f.ignore_privilege }
    }
}

pub struct M {
    pub sim: Simulator,
    shadow: Vec<Word>,
    pub kbd: Arc<RwLock<VecDeque<u8>>>,
    pub disp: Arc<RwLock<Vec<u8>>>,
    pub intfns: Vec<Arc<Mutex<IntState>>>,
    pub timers: Vec<Arc<RwLock<TimerDevice>>>,
    pub timer_cfg: Vec<(u32, u32)>,
    pub devs: Vec<Value>,
    pub regdevs: Vec<Arc<Mutex<u16>>>,
    pub last_res: &'static str,
    pub run: u64,
    pub dead: bool,
    /// a byte removed from the display in the `final` summary (a handler's own output)
    pub filter_disp: Option<u8>,
}

fn dev_json(k: &str, time: u32, en: bool, lo: u32, hi: u32, vect: u8, prio: u8, slot: usize, val: u16) -> Value {
    json!({"k": k, "ie": 0, "val": val, "time": time, "en": en as u8, "lo": lo, "hi": hi,
           "vect": vect, "prio": prio, "slot": slot})
}

/// Countdowns are logged up to this value (TLC integers are 32-bit; an open-ended timer range draws up to 2^32 - 1).
pub const TIME_CAP: u32 = 1_000_000_000;
/// Fill values of MachineProps!FillTab.
pub const FILL_TAB: [u16; 4] = [4369, 8738, 0, 65535];

impl M {
    /// Creates a simulator, attaches keyboard and display and emits the `New` header.
    pub fn new(run: u64, flags: SimFlags, out: &mut Out) -> M { Self::new_from(run, flags, out, |_| vec![]) }

    /// As `new`, but `pre` may use the simulator before the header is taken (unlogged): attach timers
    /// (returned with their configuration so that the header lists them), run something, reset.
    pub fn new_from(run: u64, flags: SimFlags, out: &mut Out,
                    pre: impl FnOnce(&mut Simulator) -> Vec<(Arc<RwLock<TimerDevice>>, (u32, u32), u8, u8)>) -> M {
        let mut sim = Simulator::new(flags);
        let kb = BufferedKeyboard::default();
        let ds = BufferedDisplay::default();
        let kbd = kb.get_buffer().clone();
        let disp = ds.get_buffer().clone();
        sim.device_handler.set_keyboard(kb);
        sim.device_handler.set_display(ds);
        let pre_timers = pre(&mut sim);
        PRE_KEYS.with(|k| kbd.write().unwrap().extend(k.borrow().iter().copied()));
        let shadow: Vec<Word> = (0..=u16::MAX).map(|a| sim.mem[a]).collect();
        let mut m = M {
            sim, shadow, kbd, disp, intfns: vec![], timers: vec![], timer_cfg: vec![],
            devs: vec![dev_json("null", 0, false, 0, 0, 0, 0, 0, 0), dev_json("kbd", 0, false, 0, 0, 0, 0, 0, 0),
                       dev_json("disp", 0, false, 0, 0, 0, 0, 0, 0)],
            regdevs: vec![], last_res: "none",
            run, dead: false, filter_disp: None,
        };
        for (t, (lo, hi), vect, prio) in pre_timers {
            let (time, en) = { let g = t.read().unwrap(); (g.get_remaining(), g.enabled) };
            m.timers.push(t);
            m.timer_cfg.push((lo, hi));
            let slot = m.timers.len();
            m.devs.push(dev_json("timer", time, en, lo, hi, vect, prio, slot, 0));
        }
        // initial memory as dense segments over a fill word
        let fill = match flags.machine_init {
            MachineInitStrategy::Known { value } => word(value, 0),
            _ => word(0, 0),
        };
        let mut segs = vec![];
        let mut a = 0usize;
        let light = LIGHT_HEADERS.with(|l| l.get()) && matches!(flags.machine_init, MachineInitStrategy::Known { .. });
        while a < 65536 && !light {
            if m.shadow[a] != fill {
                let s = a;
                let mut ws = vec![];
                // maximal runs of non-fill words
                let mut gap = 0;
                while a < 65536 && gap < 1 {
                    if m.shadow[a] == fill { gap += 1 } else { gap = 0 }
                    ws.push(w(m.shadow[a]));
                    a += 1;
                }
                for _ in 0..gap { ws.pop(); }
                segs.push(json!({"s": s, "w": ws}));
            } else {
                a += 1;
            }
        }
        let init = match flags.machine_init {
            MachineInitStrategy::Known { value } => json!({"k": "known", "v": value}),
            MachineInitStrategy::Seeded { seed } => json!({"k": "seeded", "v": (seed % 1_000_000_000) as u32}),
            MachineInitStrategy::Unseeded => json!({"k": "unseeded", "v": 0}),
        };
        let p = m.proj_with(false);
        let pattern = PATTERN.with(|p| p.get());
        if light && pattern != 0 {
            out.emit(json!({
                "ev": "New", "run": run, "pair": PAIR_TAG.with(|p| p.borrow().clone()), "pairpos": next_pair_pos(), "light": 1, "pattern": pattern, "poke": [m.sim.pc, m.sim.mem[m.sim.pc].get()],
                "flags": Flags::of(&flags).json(), "init": init, "fill": w(fill), "segs": [], "devs": m.devs,
                "ports": [[0xFE00, 1], [0xFE02, 1], [0xFE04, 2], [0xFE06, 2]], "ireg": [[0xFFFC, "PSR"], [0xFFFE, "MCR"]],
                "alloca": m.sim.verif_alloca().iter().map(|&(s, l)| json!([s, l])).collect::<Vec<_>>(), "proj": p,
            }));
            return m;
        }
        if light {
            out.emit(json!({
                "ev": "New", "run": run, "pair": PAIR_TAG.with(|p| p.borrow().clone()), "pairpos": next_pair_pos(), "light": 1,
                "flags": Flags::of(&flags).json(), "init": init, "fill": w(fill), "segs": [], "devs": m.devs,
                "ports": [[0xFE00, 1], [0xFE02, 1], [0xFE04, 2], [0xFE06, 2]], "ireg": [[0xFFFC, "PSR"], [0xFFFE, "MCR"]],
                "alloca": m.sim.verif_alloca().iter().map(|&(s, l)| json!([s, l])).collect::<Vec<_>>(), "proj": p,
            }));
            return m;
        }
        out.emit(json!({
            "ev": "New", "run": run, "pair": PAIR_TAG.with(|p| p.borrow().clone()), "pairpos": next_pair_pos(),
            "flags": Flags::of(&flags).json(), "init": init,
            "fill": w(fill), "segs": segs, "devs": m.devs,
            "ports": [[0xFE00, 1], [0xFE02, 1], [0xFE04, 2], [0xFE06, 2]],
            "ireg": [[0xFFFC, "PSR"], [0xFFFE, "MCR"]],
            "alloca": m.sim.verif_alloca().iter().map(|&(s, l)| json!([s, l])).collect::<Vec<_>>(),
            "proj": p,
        }));
        m
    }

    /// Emits the `Os` record: the blocks of the built-in OS object file.
    pub fn emit_os(out: &mut Out) {
        let os = lc3_ensemble::sim::_os_obj_file();
        let blocks: Vec<Value> = os.verif_block_iter().map(|(s, ws)| json!({"s": s,
            "w": ws.iter().map(|x| x.map(|v| v as i64).unwrap_or(-1)).collect::<Vec<_>>()})).collect();
        let prompt = os.symbol_table().and_then(|s| s.lookup_label("S_IN_PROMPT")).unwrap_or(0);
        out.emit(json!({"ev": "Os", "blocks": blocks, "prompt": prompt}));
    }

    /// `Simulator::reset`; logs whether the MCR handle is still the same Arc.
    pub fn reset(&mut self, out: &mut Out) {
        let mcr_before = self.sim.mcr().clone();
        let nbp = self.sim.breakpoints.len();
        match js::guard(|| self.sim.reset()) {
            Err(()) => self.panic(out, "reset"),
            Ok(()) => {
                let same = Arc::ptr_eq(&mcr_before, self.sim.mcr());
                let draws: Vec<u32> = self.timers.iter().map(|t| t.read().unwrap().get_remaining().min(TIME_CAP)).collect();
                let nbp2 = self.sim.breakpoints.len();
                self.host(out, json!({"op": "reset", "mcr_same": same as u8, "draws": draws, "bp_before": nbp, "bp_after": nbp2}))
            }
        }
    }
    pub fn add_breakpoint_pc(&mut self, out: &mut Out, pc: u16) {
        self.sim.breakpoints.insert(lc3_ensemble::sim::debug::Breakpoint::PC(pc));
        self.host(out, json!({"op": "addbp", "bp": {"k": "pc", "a": pc, "c": {"k": "never", "v": 0}}}));
    }
    fn cmp_of(k: &str, v: u16) -> lc3_ensemble::sim::debug::Comparator {
        use lc3_ensemble::sim::debug::Comparator as C;
        match k { "never" => C::Never, "lt" => C::Lt(v), "eq" => C::Eq(v), "le" => C::Le(v), "gt" => C::Gt(v),
                  "ne" => C::Ne(v), "ge" => C::Ge(v), _ => C::Always }
    }
    /// kind: "reg" (a = register) or "mem" (a = address), comparator name and operand.
    pub fn add_breakpoint_cmp(&mut self, out: &mut Out, kind: &str, a: u16, ck: &str, cv: u16) {
        use lc3_ensemble::sim::debug::Breakpoint as B;
        let bp = if kind == "reg" { B::Reg { reg: reg(a as u8), value: Self::cmp_of(ck, cv) } } else { B::Mem { addr: a, value: Self::cmp_of(ck, cv) } };
        self.sim.breakpoints.insert(bp);
        self.host(out, json!({"op": "addbp", "bp": {"k": kind, "a": a, "c": {"k": ck, "v": cv}}}));
    }
    pub fn remove_breakpoint_pc(&mut self, out: &mut Out, pc: u16) {
        self.sim.breakpoints.remove(&lc3_ensemble::sim::debug::Breakpoint::PC(pc));
        self.host(out, json!({"op": "rmbp", "bp": {"k": "pc", "a": pc, "c": {"k": "never", "v": 0}}}));
    }
    pub fn mark(&mut self, out: &mut Out) { self.host(out, json!({"op": "mark"})); }
    pub fn trapdone(&mut self, out: &mut Out, vect: u16, prompt: u16, hch: i32) { self.host(out, json!({"op": "trapdone", "vect": vect, "prompt": prompt, "hch": hch})); }
    pub fn halted(&mut self, out: &mut Out) { self.host(out, json!({"op": "halted"})); }
    /// Replace the keyboard by a fresh BufferedKeyboard (new empty buffer) or by a register device.
    pub fn set_keyboard_new(&mut self, out: &mut Out, as_reg: Option<u16>) {
        if self.devs[1]["k"] == "reg" { self.regdevs.remove(0); }
        match as_reg {
            None => {
                let kb = BufferedKeyboard::default();
                self.kbd = kb.get_buffer().clone();
                self.sim.device_handler.set_keyboard(kb);
                self.devs[1] = dev_json("kbd", 0, false, 0, 0, 0, 0, 0, 0);
                self.host(out, json!({"op": "setdev", "id": 1, "dev": self.devs[1], "clearbuf": "kbd"}));
            }
            Some(v) => {
                let cell = Arc::new(Mutex::new(v));
                self.sim.device_handler.set_keyboard(RegDev(cell.clone()));
                self.devs[1] = dev_json("reg", 0, false, 0, 0, 0, 0, 0, v);
                // device-table order: this register device sits at id 1, before any added ones
                self.regdevs.insert(0, cell);
                self.kbd = Arc::new(RwLock::new(VecDeque::new()));
                self.host(out, json!({"op": "setdev", "id": 1, "dev": self.devs[1], "clearbuf": "kbd"}));
            }
        }
    }
    pub fn set_display_new(&mut self, out: &mut Out) {
        let ds = BufferedDisplay::default();
        self.disp = ds.get_buffer().clone();
        self.sim.device_handler.set_display(ds);
        self.devs[2] = dev_json("disp", 0, false, 0, 0, 0, 0, 0, 0);
        self.host(out, json!({"op": "setdev", "id": 2, "dev": self.devs[2], "clearbuf": "disp"}));
    }
    pub fn set_mcr(&mut self, out: &mut Out, v: bool) {
        self.sim.mcr().store(v, std::sync::atomic::Ordering::Relaxed);
        self.host(out, json!({"op": "setmcr", "v": v as u8}));
    }
    pub fn timer_enable(&mut self, out: &mut Out, slot: usize, en: bool) {
        self.timers[slot - 1].write().unwrap().enabled = en;
        self.host(out, json!({"op": "timeren", "slot": slot, "en": en as u8}));
    }
    pub fn remove_device(&mut self, out: &mut Out, id: u16) {
        // keep the list of register cells aligned with the device table
        let mut nth = 0usize;
        for (j, d) in self.devs.iter().enumerate() {
            if d["k"] == "reg" { if j as u16 == id { self.regdevs.remove(nth); break; } nth += 1; }
        }
        if (id as usize) < self.devs.len() { self.devs[id as usize] = dev_json("null", 0, false, 0, 0, 0, 0, 0, 0); }
        self.sim.device_handler.remove_device(id);
        self.host(out, json!({"op": "rmdev", "id": id}));
    }

    /// Bring the shadow memory up to date without logging (used after unlogged bulk initialisation).
    pub fn resync_shadow(&mut self) {
        for a in 0..=u16::MAX { self.shadow[a as usize] = self.sim.mem[a]; }
    }

    pub fn kbd_ie(&mut self) -> u8 {
        // effect-free status read straight from the device handler (does not touch sim.mem)
        if self.devs[1]["k"] != "kbd" { return 0; }
        match self.sim.device_handler.io_read(0xFE00, false) {
            Some(v) => ((v >> 14) & 1) as u8,
            None => 0,
        }
    }

    fn frames(&self) -> Value {
        match self.sim.frame_stack.frames() {
            None => json!([]),
            Some(fs) => Value::Array(fs.iter().map(|f| json!({
                "caller": f.caller_addr, "callee": f.callee_addr,
                "ft": match f.frame_type { FrameType::Subroutine => "Subroutine", FrameType::Trap => "Trap", FrameType::Interrupt => "Interrupt" },
                "fp": match f.frame_ptr { Some(x) => w(x), None => json!([-1, -1]) },
                "args": f.arguments.iter().map(|&x| w(x)).collect::<Vec<_>>(),
            })).collect()),
        }
    }

    /// Projection of the simulator; the memory diff is taken against the shadow
    /// copy, which is then brought up to date.
    pub fn proj(&mut self) -> Value { self.proj_with(true) }
    fn proj_with(&mut self, diff: bool) -> Value {
        let mut memdiff = vec![];
        if diff {
            for a in 0..=u16::MAX {
                let cur = self.sim.mem[a];
                if cur != self.shadow[a as usize] {
                    memdiff.push(json!([a, cur.get(), cur.verif_mask()]));
                    self.shadow[a as usize] = cur;
                }
            }
        }
        let mut obs = vec![];
        for a in 0..=u16::MAX {
            let s = self.sim.observer.get_mem_accesses(a);
            if s.accessed() {
                obs.push(json!([a, (s.read() as u8) | ((s.written() as u8) << 1) | ((s.modified() as u8) << 2)]));
            }
        }
        let icount = self.sim.instructions_run;
        assert!(icount < (1 << 30), "instruction counter too large for the JSON vocabulary");
        let fno = self.sim.frame_stack.len();
        assert!(fno < (1 << 30));
        let kbd: Vec<u8> = self.kbd.read().map(|g| g.iter().copied().collect()).unwrap_or_default();
        let disp: Vec<u8> = self.disp.read().map(|g| g.clone()).unwrap_or_default();
        let kbdie = self.kbd_ie();
        json!({
            "pc": self.sim.pc, "psr": self.sim.psr().get(),
            "regs": (0..8).map(|r| w(self.sim.reg_file[reg(r)])).collect::<Vec<_>>(),
            "ssp": w(self.sim.verif_saved_sp()),
            "mcr": self.sim.mcr().load(std::sync::atomic::Ordering::Relaxed) as u8,
            "prefetch": self.sim.verif_prefetch() as u8,
            "fno": fno, "dbgf": self.sim.frame_stack.frames().is_some() as u8, "frames": self.frames(),
            "icount": icount, "obs": obs, "kbd": kbd, "kbdie": kbdie, "disp": disp,
            "timers": self.timers.iter().map(|t| t.read().unwrap().get_remaining().min(TIME_CAP)).collect::<Vec<_>>(),
            "timer_en": self.timers.iter().map(|t| t.read().unwrap().enabled as u8).collect::<Vec<_>>(),
            "memdiff": memdiff,
            "regvals": self.regdevs.iter().map(|r| *r.lock().unwrap()).collect::<Vec<_>>(),
            "alloca": self.sim.verif_alloca().iter().map(|&(s, l)| json!([s, l])).collect::<Vec<_>>(),
            "hit_halt": self.sim.hit_halt() as u8, "hit_bp": self.sim.hit_breakpoint() as u8,
        })
    }

    fn host(&mut self, out: &mut Out, mut ev: Value) {
        let p = self.proj();
        ev["ev"] = json!("Host");
        ev["run"] = json!(self.run);
        ev["proj"] = p;
        out.emit(ev);
    }
    fn panic(&mut self, out: &mut Out, what: &str) {
        self.dead = true;
        out.emit(json!({"ev": "Panic", "run": self.run, "in": what}));
    }

    // ---- host operations ---------------------------------------------------
    pub fn set_reg(&mut self, out: &mut Out, r: u8, x: Word) {
        self.sim.reg_file[reg(r)] = x;
        self.host(out, json!({"op": "setreg", "r": r, "w": w(x)}));
    }
    pub fn set_mem(&mut self, out: &mut Out, a: u16, x: Word) {
        self.sim.mem[a] = x;
        self.host(out, json!({"op": "setmem", "a": a, "w": w(x)}));
    }
    pub fn set_mems(&mut self, out: &mut Out, pokes: &[(u16, Word)]) {
        for &(a, x) in pokes { self.sim.mem[a] = x; }
        self.host(out, json!({"op": "setmems", "pokes": pokes.iter().map(|&(a, x)| json!([a, x.get(), x.verif_mask()])).collect::<Vec<_>>()}));
    }
    pub fn set_pc(&mut self, out: &mut Out, v: u16) {
        self.sim.pc = v;
        self.host(out, json!({"op": "setpc", "v": v}));
    }
    pub fn keys(&mut self, out: &mut Out, bytes: &[u8]) {
        self.kbd.write().unwrap().extend(bytes.iter().copied());
        self.host(out, json!({"op": "keys", "bytes": bytes}));
    }
    pub fn set_flags(&mut self, out: &mut Out, f: &Flags) {
        self.sim.flags.strict = f.strict;
        self.sim.flags.use_real_traps = f.real;
        self.sim.flags.debug_frames = f.dbg;
        self.sim.flags.ignore_privilege = f.ignp;
        self.host(out, json!({"op": "flag", "flags": f.json()}));
    }
    /// Changes the initialization strategy of the live simulator to Known{FILL_TAB[k-1]} (the flags are a public
    /// field); nothing happens until the next reset, which must build the machine for the current flags.
    pub fn set_init(&mut self, out: &mut Out, k: usize) {
        self.sim.flags.machine_init = MachineInitStrategy::Known { value: FILL_TAB[k - 1] };
        self.host(out, json!({"op": "setinit", "k": k}));
    }
    pub fn env_json(&self, lock_k: bool, lock_d: bool) -> Value {
        json!({"lockK": lock_k as u8, "lockD": lock_d as u8,
               "ints": self.intfns.iter().map(|c| { let c = c.lock().unwrap().cmd; json!({"k": c.k, "vect": c.vect, "prio": c.prio}) }).collect::<Vec<_>>(),
               "draws": self.timers.iter().map(|t| t.read().unwrap().get_remaining().min(TIME_CAP)).collect::<Vec<_>>()})
    }
    pub fn ctx_json(c: &MemAccessCtx) -> Value {
        json!({"priv": c.privileged as u8, "strict": c.strict as u8, "fx": c.io_effects as u8, "track": c.track_access as u8})
    }
    pub fn write_mem(&mut self, out: &mut Out, a: u16, x: Word, ctx: MemAccessCtx) {
        match js::guard(|| self.sim.write_mem(a, x, ctx)) {
            Err(()) => self.panic(out, "write_mem"),
            Ok(r) => {
                let env = self.env_json(false, false);
                self.host(out, json!({"op": "wmem", "a": a, "w": w(x), "ctx": Self::ctx_json(&ctx), "env": env, "res": res_name(&r)}))
            }
        }
    }
    pub fn read_mem(&mut self, out: &mut Out, a: u16, ctx: MemAccessCtx) {
        match js::guard(|| self.sim.read_mem(a, ctx)) {
            Err(()) => self.panic(out, "read_mem"),
            Ok(r) => {
                let env = self.env_json(false, false);
                let (res, val) = match &r { Ok(x) => ("ok", w(*x)), Err(e) => (err_name(e), json!([0, 0])) };
                self.host(out, json!({"op": "rmem", "a": a, "ctx": Self::ctx_json(&ctx), "env": env, "res": res, "w": val}))
            }
        }
    }
    /// Set the PSR through its memory-mapped port with an omnipotent context.
    pub fn set_psr(&mut self, out: &mut Out, v: u16) {
        self.write_mem(out, 0xFFFC, Word::new_init(v), MemAccessCtx::omnipotent());
    }
    pub fn load(&mut self, out: &mut Out, obj: &ObjectFile) {
        match js::guard(|| self.sim.load_obj_file(obj)) {
            Err(()) => self.panic(out, "load_obj_file"),
            Ok(r) => {
                let blocks: Vec<Value> = obj.verif_block_iter().map(|(s, ws)| json!({"s": s,
                    "w": ws.iter().map(|x| x.map(|v| v as i64).unwrap_or(-1)).collect::<Vec<_>>()})).collect();
                let ext = obj.symbol_table().map(|s| s.label_iter().any(|(_, _, e)| e)).unwrap_or(false);
                self.host(out, json!({"op": "load", "blocks": blocks, "ext": ext as u8, "res": res_name(&r)}))
            }
        }
    }
    pub fn mmap(&mut self, out: &mut Out, a: u16, r: InternalRegister) {
        let name = match r { InternalRegister::PC => "PC", InternalRegister::PSR => "PSR", InternalRegister::MCR => "MCR", InternalRegister::SavedSP => "SSP" };
        let res = self.sim.mmap_internal(a, r);
        self.host(out, json!({"op": "mmap", "a": a, "reg": name, "res": if res.is_ok() { "ok" } else { "err" }}));
    }
    pub fn munmap(&mut self, out: &mut Out, a: u16) {
        let res = self.sim.munmap_internal(a);
        self.host(out, json!({"op": "munmap", "a": a, "res": if res { "ok" } else { "err" }}));
    }
    pub fn add_intfn(&mut self, out: &mut Out) -> usize {
        let cmd = Arc::new(Mutex::new(IntState::default()));
        let c2 = cmd.clone();
        let dev = InterruptFromFn::new(move || {
            let mut st = c2.lock().unwrap();
            let c = if st.scripted {
                st.polls += 1;
                if st.polls == st.clr_at {
                    if let Some(m) = &st.mcr { m.store(false, std::sync::atomic::Ordering::Relaxed); }
                }
                st.script.get(&st.polls).copied().unwrap_or_default()
            } else { st.cmd };
            match c.k {
                1 => Some(Interrupt::vectored(c.vect, c.prio)),
                2 => Some(Interrupt::external(ExtErr)),
                _ => None,
            }
        });
        self.intfns.push(cmd);
        let slot = self.intfns.len();
        let d = dev_json("intfn", 0, false, 0, 0, 0, 0, slot, 0);
        let res = self.sim.device_handler.add_device(dev, &[]);
        self.devs.push(d.clone());
        self.host(out, json!({"op": "adddev", "dev": d, "ports": [], "res": res.map(|x| x as i64).unwrap_or(-1)}));
        slot
    }
    pub fn add_regdev(&mut self, out: &mut Out, ports: &[u16], val: u16) {
        let d = dev_json("reg", 0, false, 0, 0, 0, 0, 0, val);
        let cell = Arc::new(Mutex::new(val));
        let res = self.sim.device_handler.add_device(RegDev(cell.clone()), ports);
        if res.is_ok() { self.devs.push(d.clone()); self.regdevs.push(cell); }
        self.host(out, json!({"op": "adddev", "dev": d, "ports": ports, "res": res.map(|x| x as i64).unwrap_or(-1)}));
    }
    /// Adds a device of the crate's own kinds through `add_device` (a null device, a second
    /// keyboard or display): they own ports like any other device and must free them on removal.
    pub fn add_plain_dev(&mut self, out: &mut Out, kind: &str, ports: &[u16]) {
        use lc3_ensemble::sim::device::NullDevice;
        let res = match kind {
            "null" => self.sim.device_handler.add_device(NullDevice, ports).map_err(|_| ()),
            _ => panic!("unknown plain device kind"),
        };
        let d = dev_json("null", 0, false, 0, 0, 0, 0, 0, 0);
        if res.is_ok() { self.devs.push(d.clone()); }
        self.host(out, json!({"op": "adddev", "dev": d, "ports": ports, "res": res.map(|x| x as i64).unwrap_or(-1)}));
    }
    /// Adds a seeded timer with inclusive range lo..=hi; returns its slot.
    pub fn add_timer(&mut self, out: &mut Out, seed: u64, lo: u32, hi: u32, vect: u8, prio: u8, enabled: bool) -> usize {
        let mut t = TimerDevice::new(Some(seed), lo..=hi, vect, prio);
        t.enabled = enabled;
        let time = t.get_remaining();
        let t = Arc::new(RwLock::new(t));
        self.timers.push(t.clone());
        self.timer_cfg.push((lo, hi));
        let slot = self.timers.len();
        let d = dev_json("timer", time, enabled, lo, hi, vect, prio, slot, 0);
        let res = self.sim.device_handler.add_device(t, &[]);
        self.devs.push(d.clone());
        self.host(out, json!({"op": "adddev", "dev": d, "ports": [], "res": res.map(|x| x as i64).unwrap_or(-1), "drawn": time}));
        slot
    }
    /// Gives timer `slot` an open-ended range after construction (`lo..`, `..`, `lo..=u32::MAX`): the next redraw
    /// samples up to the largest u32.  Logged as a reconfiguration with the upper bound capped at TIME_CAP.
    pub fn timer_open_range(&mut self, out: &mut Out, slot: usize, variant: u8, lo: u32, vect: u8, prio: u8) {
        let (time, en) = {
            let mut g = self.timers[slot - 1].write().unwrap();
            match variant { 0 => { g.set_range(lo..); } 1 => { g.set_range(..); } _ => { g.set_range(lo..=u32::MAX); } }
            (g.get_remaining().min(TIME_CAP), g.enabled)
        };
        let lo = if variant == 1 { 0 } else { lo };
        self.timer_cfg[slot - 1] = (lo, TIME_CAP);
        let id = self.devs.iter().position(|d| d["k"] == "timer" && d["slot"] == slot).expect("timer device");
        let d = dev_json("timer", time, en, lo, TIME_CAP, vect, prio, slot, 0);
        self.devs[id] = d.clone();
        self.host(out, json!({"op": "timercfg", "id": id, "dev": d}));
    }
    pub fn srdef(&mut self, out: &mut Out, addr: u16, cc: Option<usize>, regs: &[u8]) {
        let pl = match cc {
            Some(n) => ParameterList::with_calling_convention(&vec!["p"; n]),
            None => ParameterList::with_pass_by_register(&regs.iter().map(|&r| ("p", reg(r))).collect::<Vec<_>>(), None),
        };
        self.sim.frame_stack.set_subroutine_def(addr, pl);
        self.host(out, json!({"op": "srdef", "addr": addr, "cc": cc.is_some() as u8, "n": cc.unwrap_or(0), "regs": regs}));
    }
    pub fn prefetch_pc(&mut self, out: &mut Out) {
        match js::guard(|| self.sim.prefetch_pc()) {
            Err(()) => self.panic(out, "prefetch_pc"),
            Ok(v) => self.host(out, json!({"op": "prefetchpc", "v": v})),
        }
    }

    // ---- stepping ------------------------------------------------------------
    /// One `step_in`, optionally holding the keyboard / display buffer locks.
    /// Returns the result name ("panic" if the code panicked).
    pub fn step(&mut self, out: &mut Out, lock_k: bool, lock_d: bool) -> &'static str {
        self.step_locks(out, lock_k as u8, lock_d as u8)
    }
    /// As `step`; lock kinds: 0 = not held, 1 = another party holds the write guard, 2 = another
    /// party holds a read guard (a reader of the buffer, e.g. a front end displaying it).
    pub fn step_locks(&mut self, out: &mut Out, lk: u8, ld: u8) -> &'static str {
        if self.dead { return "panic"; }
        let (lock_k, lock_d) = (lk != 0, ld != 0);
        let kb = self.kbd.clone();
        let ds = self.disp.clone();
        let r = {
            let _gkw = if lk == 1 { Some(kb.write().unwrap()) } else { None };
            let _gkr = if lk == 2 { Some(kb.read().unwrap()) } else { None };
            let _gdw = if ld == 1 { Some(ds.write().unwrap()) } else { None };
            let _gdr = if ld == 2 { Some(ds.read().unwrap()) } else { None };
            js::guard(|| self.sim.step_in())
        };
        match r {
            Err(()) => { self.panic(out, "step_in"); "panic" }
            Ok(r) => {
                let env = self.env_json(lock_k, lock_d);
                let p = self.proj();
                let name = res_name(&r);
                self.last_res = name;
                out.emit(json!({"ev": "Step", "run": self.run, "env": env, "res": name, "proj": p}));
                name
            }
        }
    }
    pub fn set_int(&mut self, slot: usize, c: IntCmd) { self.intfns[slot - 1].lock().unwrap().cmd = c; }

    /// A run-style call (`run`, `run_with_limit`, `step_over`, `step_out`, `run_while(pc != a)`).
    /// Interrupt device 1 follows `script` (poll number -> interrupt) and clears the MCR
    /// at poll `clr_at`, which also bounds the run.
    pub fn run_call(&mut self, out: &mut Out, kind: &str, arg: u64, script: &[(u32, IntCmd)], clr_at: u32) -> &'static str {
        if self.dead { return "panic"; }
        assert!(!self.intfns.is_empty(), "run scenarios need interrupt device 1");
        for (k, &(lo, hi)) in self.timer_cfg.iter().enumerate() { assert!(lo == hi, "timer {k} must be exact in run scenarios"); }
        {
            let mut st = self.intfns[0].lock().unwrap();
            st.scripted = true; st.polls = 0; st.clr_at = clr_at;
            st.script = script.iter().copied().collect();
            st.mcr = Some(self.sim.mcr().clone());
        }
        let r = js::guard(|| match kind {
            "run" => self.sim.run(),
            "limit" => self.sim.run_with_limit(arg),
            "over" => self.sim.step_over(),
            "out" => self.sim.step_out(),
            "pcne" => { let a = arg as u16; self.sim.run_while(move |s| s.pc != a) }
            // a tripwire that edits the simulator it is handed: a PC breakpoint inserted after n instructions
            "bpat" => { let (n, a) = (arg >> 16, arg as u16); let i0 = self.sim.instructions_run;
                        self.sim.run_while(move |s| { if s.instructions_run.wrapping_sub(i0) >= n { s.breakpoints.insert(lc3_ensemble::sim::debug::Breakpoint::PC(a)); } true }) }
            _ => panic!("unknown run kind"),
        });
        let (polls, cmds): (u32, std::collections::HashMap<u32, IntCmd>) = {
            let mut st = self.intfns[0].lock().unwrap();
            st.scripted = false;
            (st.polls, st.script.clone())
        };
        match r {
            Err(()) => { self.panic(out, "run"); "panic" }
            Ok(r) => {
                let others: Vec<IntCmd> = self.intfns.iter().skip(1).map(|c| c.lock().unwrap().cmd).collect();
                let draws: Vec<u32> = self.timer_cfg.iter().map(|&(lo, _)| lo).collect();
                let envs: Vec<Value> = (1..=polls).map(|i| {
                    let c = cmds.get(&i).copied().unwrap_or_default();
                    let mut ints = vec![json!({"k": c.k, "vect": c.vect, "prio": c.prio})];
                    for o in &others { ints.push(json!({"k": o.k, "vect": o.vect, "prio": o.prio})); }
                    json!({"lockK": 0, "lockD": 0, "ints": ints, "draws": draws, "clr": (i == clr_at) as u8})
                }).collect();
                let p = self.proj();
                let name = res_name(&r);
                self.last_res = name;
                // (TLC integers are 32-bit: a limit that no bounded run can reach is logged as 1 000 000)
                out.emit(json!({"ev": "Run", "run": self.run, "kind": kind, "arg": arg.min(1_000_000), "envs": envs, "nsteps": polls, "res": name, "proj": p}));
                name
            }
        }
    }
    /// FNV-1a digest of the whole memory (values and masks), as two 30-bit integers.
    pub fn mem_digest_range(&self, lo: u16, hi: u16) -> (u32, u32) {
        let mut h: u64 = 0xcbf29ce484222325;
        for a in lo..=hi {
            let x = self.sim.mem[a];
            for b in [x.get() as u8, (x.get() >> 8) as u8, x.verif_mask() as u8, (x.verif_mask() >> 8) as u8] {
                h ^= b as u64; h = h.wrapping_mul(0x100000001b3);
            }
        }
        ((h & 0x3FFF_FFFF) as u32, ((h >> 32) & 0x3FFF_FFFF) as u32)
    }
    pub fn end(&mut self, out: &mut Out) {
        if self.dead { return; }
        let p = self.proj();
        let (h1, h2) = self.mem_digest_range(0, 0xFFFF);
        let (u1, u2) = self.mem_digest_range(0x3000, 0xFDFF);
        let disp_f: Value = match self.filter_disp {
            Some(b) => Value::Array(p["disp"].as_array().unwrap().iter().filter(|x| x.as_u64() != Some(b as u64)).cloned().collect()),
            None => p["disp"].clone(),
        };
        let fin = json!({"pc": p["pc"], "psr": p["psr"], "regs": p["regs"], "ssp": p["ssp"], "icount": p["icount"],
                         "disp": disp_f, "kbd": p["kbd"], "fno": p["fno"], "memh": [h1, h2], "umemh": [u1, u2],
                         "hit_halt": p["hit_halt"], "mcr": p["mcr"], "lastres": self.last_res,
                         "athalt": (self.sim.mem[self.sim.pc].get() == 0xF025 && self.sim.verif_prefetch()) as u8});
        out.emit(json!({"ev": "End", "run": self.run, "proj": p, "final": fin}));
    }
}
