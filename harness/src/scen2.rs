//! Scenarios for loading (C29), reset (C30), reproducibility (C31) and strict pairs (C14).

use crate::machine::{word, IntCmd, M};
use crate::scen::{assemble_src, chance, interesting, pick, rand_instr, rand_word};
use crate::{Args, Out};
use lc3_ensemble::asm::{assemble, assemble_debug, ObjectFile};
use lc3_ensemble::parse::parse_ast;
use lc3_ensemble::sim::mem::{MachineInitStrategy, Word};
use lc3_ensemble::sim::{InternalRegister, MemAccessCtx, SimFlags};
use rand::rngs::StdRng;
use rand::{Rng, SeedableRng};

fn rng_for(a: &Args, salt: u64) -> StdRng { StdRng::seed_from_u64(a.seed.wrapping_mul(0x9E3779B97F4A7C15) ^ salt) }

fn init_strategy(rng: &mut StdRng, k: u64) -> MachineInitStrategy {
    match k % 4 {
        0 => MachineInitStrategy::Known { value: 0 },
        1 => MachineInitStrategy::Known { value: rng.random() },
        2 => MachineInitStrategy::Seeded { seed: rng.random_range(0..1_000_000u64) },
        _ => MachineInitStrategy::Unseeded,
    }
}

/// A generated object: 1-3 blocks with .fill/.blkw/.stringz/instructions at
/// interesting origins (x0000 inside the OS, ending exactly at xFE00, user space).
pub fn gen_object(rng: &mut StdRng, with_ext: bool, debug: bool) -> ObjectFile {
    let mut src = String::new();
    let nblocks = rng.random_range(1..4);
    let mut origins: Vec<u16> = vec![];
    for b in 0..nblocks {
        let body_len: u16 = rng.random_range(1..12);
        let orig: u16 = match rng.random_range(0..6) {
            0 if b == 0 => 0x0000,
            1 if b == 0 => 0xFE00 - 40,
            2 => 0x3000 + 0x100 * b as u16,
            3 => 0x1000 + 0x40 * b as u16,
            _ => 0x4000 + 0x200 * b as u16 + rng.random_range(0..0x100u16),
        };
        if origins.iter().any(|&o| (o as i32 - orig as i32).abs() < 0x60) { continue; }
        origins.push(orig);
        src += &format!(".orig x{orig:04X}\n");
        let mut used = 0u16;
        for i in 0..body_len {
            if orig == 0xFE00 - 40 && used + 5 > 40 { break; }
            let line = match rng.random_range(0..8) {
                0 => { used += 1; format!("L{b}_{i} .fill x{:04X}\n", rng.random::<u16>()) }
                1 => { let n = rng.random_range(1..5u16); used += n; format!("B{b}_{i} .blkw {n}\n") }
                2 => { used += 4; format!(".stringz \"a{}b\"\n", i % 10) }
                3 => { used += 1; "ADD R1, R1, #1\n".to_string() }
                4 => { used += 1; "HALT\n".to_string() }
                5 => { used += 1; format!("AND R{}, R{}, #0\n", i % 8, i % 8) }
                6 => { used += 1; "NOT R2, R3\n".to_string() }
                _ => { used += 1; "RET\n".to_string() }
            };
            src += &line;
        }
        if orig == 0xFE00 - 40 {
            // end exactly at xFE00
            let rest = 40 - used.min(40) - (with_ext && b == 0) as u16;
            if rest > 0 { src += &format!(".blkw {rest}\n"); }
        }
        if with_ext && b == 0 { src += ".external EXTL\n.fill EXTL\n"; }
        src += ".end\n";
    }
    let ast = parse_ast(&src).unwrap_or_else(|e| panic!("generated object does not parse: {e:?}\n{src}"));
    if debug || with_ext { assemble_debug(ast, &src).unwrap_or_else(|e| panic!("generated object does not assemble: {e:?}\n{src}")) }
    else { assemble(ast).unwrap_or_else(|e| panic!("generated object does not assemble: {e:?}\n{src}")) }
}

/// C29: new machines under every initialization strategy, loads of generated objects,
/// repeated loads, loads after execution, objects with unresolved externals.
pub fn gen_load(a: &Args, out: &mut Out, run0: u64, nruns: u64) {
    let mut rng = rng_for(a, 0x7777 ^ run0);
    for k in 0..nruns {
        let flags = SimFlags {
            strict: chance(&mut rng, 20), use_real_traps: chance(&mut rng, 50),
            machine_init: init_strategy(&mut rng, k), debug_frames: chance(&mut rng, 50), ignore_privilege: chance(&mut rng, 20),
        };
        let mut m = M::new(run0 + k, flags, out);
        if chance(&mut rng, 40) {
            for r in 0..8u8 { if chance(&mut rng, 50) { let x = rand_word(&mut rng); m.set_reg(out, r, x); } }
            let pc = interesting(&mut rng); m.set_pc(out, pc);
        }
        let nloads = rng.random_range(1..4);
        for j in 0..nloads {
            let (we, dbg) = (chance(&mut rng, 20), chance(&mut rng, 50));
            let obj = gen_object(&mut rng, we, dbg);
            // the I/O page is not part of any file: what device and register accesses (or the host) left in its
            // shadow words stays there across a load
            if chance(&mut rng, 60) {
                let p: Vec<(u16, Word)> = (0..3).map(|_| (0xFE00 + rng.random_range(0..0x200u16), rand_word(&mut rng))).collect();
                m.set_mems(out, &p);
                for a in [0xFE04u16, 0xFFFC, 0xFFFE, 0xFE00] { if chance(&mut rng, 50) { m.read_mem(out, a, MemAccessCtx::omnipotent()); } }
            }
            // words of the file's own blocks that execution (or the host) left partially initialized: a reserved word
            // becomes uninitialized whatever it held
            if chance(&mut rng, 50) {
                let spots: Vec<u16> = obj.verif_block_iter().flat_map(|(s, ws)| (0..ws.len() as u16).map(move |k| s.wrapping_add(k))).collect();
                if !spots.is_empty() {
                    let p: Vec<(u16, Word)> = (0..4).map(|_| (spots[rng.random_range(0..spots.len())], word(rng.random(), pick(&mut rng, &[0xFF00u16, 0x00FF, 0x8000, 0xFFFE])))).collect();
                    m.set_mems(out, &p);
                }
            }
            m.load(out, &obj);
            if j == 0 && chance(&mut rng, 50) {
                // execute a little between loads
                m.set_pc(out, 0x3000);
                for _ in 0..rng.random_range(1..6) { if m.step(out, false, false) == "panic" { break; } }
            }
            if chance(&mut rng, 30) { m.load(out, &obj); }
        }
        m.end(out);
    }
}

/// C30: random histories of steps, flag changes, device attachments, MMIO mappings, then reset
/// (deterministic initialization strategies only), then more of the same and a second reset.
pub fn gen_reset(a: &Args, out: &mut Out, run0: u64, nruns: u64) {
    let mut rng = rng_for(a, 0x8888 ^ run0);
    let prog = assemble_src(crate::scen::PROG_ECHO);
    let mut inits_left = 12u32;
    for k in 0..nruns {
        let init = if k % 2 == 0 { MachineInitStrategy::Known { value: rng.random() } } else { MachineInitStrategy::Seeded { seed: rng.random_range(0..1_000_000u64) } };
        let flags = SimFlags { strict: chance(&mut rng, 20), use_real_traps: chance(&mut rng, 50), machine_init: init,
                               debug_frames: chance(&mut rng, 50), ignore_privilege: chance(&mut rng, 20) };
        let mut m = M::new(run0 + k, flags, out);
        for round in 0..2 {
            if chance(&mut rng, 70) { m.load(out, &prog); }
            if chance(&mut rng, 50) { m.keys(out, &[b'a', b'b', 0]); }
            if chance(&mut rng, 40) && round == 0 { m.add_timer(out, rng.random(), 2, 5, 0x81, 3, chance(&mut rng, 70)); }
            if chance(&mut rng, 40) && round == 0 { m.add_regdev(out, &[0xFE40, 0xFE41], 7); }
            if chance(&mut rng, 40) { m.mmap(out, 0xFE50 + round as u16, pick(&mut rng, &[InternalRegister::PC, InternalRegister::SavedSP, InternalRegister::PSR])); }
            // the default mappings are configuration like any other: removed, or rebound to another register
            if chance(&mut rng, 35) { let p = pick(&mut rng, &[0xFFFCu16, 0xFFFE]); m.munmap(out, p);
                                      if chance(&mut rng, 50) { m.mmap(out, p, pick(&mut rng, &[InternalRegister::PC, InternalRegister::SavedSP, InternalRegister::MCR, InternalRegister::PSR])); } }
            if chance(&mut rng, 30) { m.srdef(out, 0x3005, Some(2), &[]); }
            if chance(&mut rng, 30) { m.write_mem(out, 0xFE00, Word::new_init(0x4000), MemAccessCtx::omnipotent()); }
            for r in 0..8u8 { if chance(&mut rng, 30) { let x = rand_word(&mut rng); m.set_reg(out, r, x); } }
            if chance(&mut rng, 50) { let p: Vec<(u16, Word)> = (0..4).map(|_| (interesting(&mut rng), rand_word(&mut rng))).collect(); m.set_mems(out, &p); }
            if chance(&mut rng, 40) {
                let f = crate::machine::Flags { strict: chance(&mut rng, 20), real: chance(&mut rng, 50), dbg: chance(&mut rng, 50), ignp: chance(&mut rng, 20) };
                m.set_flags(out, &f);
            }
            if chance(&mut rng, 30) { m.add_breakpoint_pc(out, 0x3002); }
            for _ in 0..rng.random_range(0..40) { let r = m.step(out, false, false); if r == "panic" { break; } }
            if chance(&mut rng, 30) { m.set_mcr(out, true); }
            // the strategy itself is a flag: a reset after a change builds the machine of the new strategy
            // (at most 12 per trace: the reset that follows logs a diff of 52 000 words)
            if k % 2 == 0 && chance(&mut rng, 35) { let q = rng.random_range(1..=4usize); if inits_left > 0 { inits_left -= 1; m.set_init(out, q); } }
            m.reset(out);
            // probe the kept configuration after reset
            m.read_mem(out, 0xFE40, MemAccessCtx::omnipotent());
            m.read_mem(out, 0xFE50, MemAccessCtx::omnipotent());
            m.read_mem(out, 0xFFFC, MemAccessCtx::omnipotent());
            m.read_mem(out, 0xFFFE, MemAccessCtx::omnipotent());
            m.read_mem(out, 0xFE51, MemAccessCtx::omnipotent());
        }
        for _ in 0..5 { if m.step(out, false, false) == "panic" { break; } }
        m.end(out);
    }
}

/// One scripted scenario applied to a fresh machine; used twice for pairs.
fn scripted(a: &Args, out: &mut Out, run: u64, flags: SimFlags, script_seed: u64, max_steps: u32, fullinit: bool) {
    let mut rng = StdRng::seed_from_u64(script_seed);
    let mut m = M::new(run, flags, out);
    let _ = a;
    let which = rng.random_range(0..crate::scen::PROGS.len());
    let obj = assemble_src(crate::scen::PROGS[which]);
    m.load(out, &obj);
    if fullinit {
        // every register initialized; memory words the program may touch are initialized by set_mems
        for r in 0..8u8 { let x = word(interesting(&mut rng), 0xFFFF); m.set_reg(out, r, x); }
    } else {
        for r in 0..8u8 { if chance(&mut rng, 50) { let x = rand_word(&mut rng); m.set_reg(out, r, x); } }
    }
    // jumps into OS memory / IO pages, .blkw regions and stack-relative accesses come from the
    // programs plus random pokes of instructions near the entry
    if chance(&mut rng, 50) {
        let mut pokes = vec![];
        let base = 0x3000 + rng.random_range(0..6u16);
        for d in 0..3u16 { pokes.push((base + d, word(rand_instr(&mut rng), 0xFFFF))); }
        m.set_mems(out, &pokes);
    }
    let s1 = m.add_intfn(out);
    if chance(&mut rng, 40) { m.add_timer(out, rng.random(), 2, 6, 0x81, rng.random_range(1..8u8), true); }
    let nk = rng.random_range(0..4);
    let ks: Vec<u8> = (0..nk).map(|_| rng.random()).collect();
    m.keys(out, &ks);
    let mut steps = 0;
    while steps < max_steps {
        m.set_int(s1, if chance(&mut rng, 5) { IntCmd { k: 1, vect: 0x90, prio: rng.random_range(0..8u8) } } else { IntCmd::default() });
        let r = m.step(out, false, false);
        steps += 1;
        if r != "ok" { break; }
    }
    m.end(out);
}

/// C31: two independent runs per configuration (seeded / known strategy, seeded timers).
pub fn gen_repro(a: &Args, out: &mut Out, run0: u64, npairs: u64) {
    let mut rng = rng_for(a, 0x9999 ^ run0);
    for k in 0..npairs {
        let init = match k % 3 { 0 => MachineInitStrategy::Known { value: rng.random() }, _ => MachineInitStrategy::Seeded { seed: rng.random_range(0..1_000_000u64) } };
        let flags = SimFlags { strict: chance(&mut rng, 20), use_real_traps: chance(&mut rng, 50), machine_init: init,
                               debug_frames: chance(&mut rng, 50), ignore_privilege: chance(&mut rng, 20) };
        let ss: u64 = rng.random();
        crate::machine::set_pair_tag("repro");
        scripted(a, out, run0 + 2 * k, flags, ss, 150, false);
        scripted(a, out, run0 + 2 * k + 1, flags, ss, 150, false);
    }
}

/// C31: a machine that has been used and reset behaves as a fresh one: run A starts on a new simulator
/// (with exact timers attached), run B on one that carried the same timers through some execution and a
/// `reset()`; header (registers, memory, timer countdowns) and every event must be identical.
pub fn gen_repro_reset(a: &Args, out: &mut Out, run0: u64, npairs: u64) {
    use lc3_ensemble::sim::device::TimerDevice;
    use std::sync::{Arc, RwLock};
    let mut rng = rng_for(a, 0x9A9A ^ run0);
    let prog = assemble_src(crate::scen::PROG_ECHO);
    crate::machine::set_pair_tag("repro");
    for k in 0..npairs {
        // (a seeded machine logs its whole memory in the header: one pair in three)
        let init = match k % 3 { 0 => MachineInitStrategy::Seeded { seed: rng.random_range(0..1_000_000u64) }, _ => MachineInitStrategy::Known { value: rng.random() } };
        let flags = SimFlags { strict: false, use_real_traps: chance(&mut rng, 50), machine_init: init,
                               debug_frames: chance(&mut rng, 50), ignore_privilege: false };
        let nt = rng.random_range(0..3usize);
        let tcfg: Vec<(u64, u32, u8, u8)> = (0..nt).map(|_| (rng.random(), rng.random_range(2..30u32), 0x80 + rng.random_range(0..4u8), rng.random_range(1..8u8))).collect();
        let before: u32 = rng.random_range(1..40);
        let nsteps: u32 = rng.random_range(30..90);
        for used in [false, true] {
            let (tc, pg) = (tcfg.clone(), prog.clone());
            let mut m = M::new_from(run0 + 2 * k + used as u64, flags, out, move |sim| {
                let mut ts = vec![];
                for &(seed, n, vect, prio) in &tc {
                    let t = Arc::new(RwLock::new(TimerDevice::new(Some(seed), n..=n, vect, prio)));
                    let _ = sim.device_handler.add_device(t.clone(), &[]);
                    ts.push((t, (n, n), vect, prio));
                }
                if used {
                    let _ = sim.load_obj_file(&pg);
                    for _ in 0..before { let _ = sim.step_in(); }
                    sim.reset();
                }
                ts
            });
            m.load(out, &prog);
            m.keys(out, &[b'h', b'i', 0]);
            for _ in 0..nsteps { if m.step(out, false, false) != "ok" { break; } }
            m.end(out);
        }
    }
}

/// C14: run A (strict off) and run B (strict on) driven in lockstep from identical
/// states by the same script.  With `fullinit` every memory word and register is
/// initialized first (these runs are only checked relationally).
pub fn gen_strict_pairs(a: &Args, out: &mut Out, run0: u64, npairs: u64, fullinit: bool) {
    let mut rng = rng_for(a, 0xAAAA ^ run0 ^ fullinit as u64);
    crate::machine::set_pair_tag(if fullinit { "strictfull" } else { "strict" });
    for k in 0..npairs {
        let init = match k % 3 { 0 => MachineInitStrategy::Known { value: 0 }, 1 => MachineInitStrategy::Known { value: rng.random() },
                                 _ => MachineInitStrategy::Seeded { seed: rng.random_range(0..1_000_000u64) } };
        let base = SimFlags { strict: false, use_real_traps: chance(&mut rng, 50), machine_init: init,
                              debug_frames: chance(&mut rng, 40), ignore_privilege: chance(&mut rng, 25) };
        let mut oa = Out::buffer();
        let mut ob = Out::buffer();
        let mut ma = M::new(run0 + 2 * k, base, &mut oa);
        let mut mb = M::new(run0 + 2 * k + 1, SimFlags { strict: true, ..base }, &mut ob);
        let ss: u64 = rng.random();
        let mut ra = StdRng::seed_from_u64(ss);
        let mut rb = StdRng::seed_from_u64(ss);
        if fullinit {
            for addr in 0..=u16::MAX {
                let v = ma.sim.mem[addr].get();
                ma.sim.mem[addr] = Word::new_init(v);
                mb.sim.mem[addr] = Word::new_init(v);
            }
            ma.resync_shadow(); mb.resync_shadow();
        }
        // identical preparation on both machines
        for (m, o, r) in [(&mut ma, &mut oa, &mut ra), (&mut mb, &mut ob, &mut rb)] {
            let which = r.random_range(0..crate::scen::PROGS.len());
            let obj = assemble_src(crate::scen::PROGS[which]);
            if !fullinit || which != 1 && which != 4 && which != 7 { m.load(o, &obj); }   // .blkw would un-initialize words
            for reg in 0..8u8 {
                let x = if fullinit { word(interesting(r), 0xFFFF) } else if chance(r, 60) { rand_word(r) } else { continue };
                m.set_reg(o, reg, x);
            }
            if chance(r, 60) {
                let mut pokes = vec![];
                let basea = pick(r, &[0x3000u16, 0x3002, 0x3005, 0x3100]);
                for d in 0..4u16 { pokes.push((basea + d, word(rand_instr(r), 0xFFFF))); }
                for _ in 0..3 { let x = if fullinit { word(interesting(r), 0xFFFF) } else { rand_word(r) }; pokes.push((interesting(r), x)); }
                m.set_mems(o, &pokes);
            }
            if chance(r, 30) { let p = pick(r, &[0x3000u16, 0x3100, 0x0200, 0xFE00, 0x2FFF]); m.set_pc(o, p); }
            if chance(r, 40) { m.set_psr(o, pick(r, &[0x8002u16, 0x0002, 0x8001, 0x0304])); }
            let nk = r.random_range(0..4);
            let ks: Vec<u8> = (0..nk).map(|_| r.random()).collect();
            m.keys(o, &ks);
            if chance(r, 30) { m.add_timer(o, 7, 2, 6, 0x81, r.random_range(1..8u8), true); }
        }
        let mut steps = 0;
        while steps < 120 {
            let xa = ma.step(&mut oa, false, false);
            let xb = mb.step(&mut ob, false, false);
            steps += 1;
            if xa != "ok" || xb != "ok" { break; }
        }
        ma.end(&mut oa); mb.end(&mut ob);
        out.append(oa); out.append(ob);
    }
    // targeted pairs on FULLY INITIALISED machines: loads from ports nobody answers (unmapped port, empty
    // keyboard data register, display data register) and use of the loaded value - never a strict error
    if fullinit {
        let mut run = run0 + 2 * npairs;
        for &port in &[0xFE10u16, 0xFE02, 0xFE06, 0xFE0E, 0xFFF0] {
            for real in [false, true] {
                let base = SimFlags { strict: false, use_real_traps: real, machine_init: MachineInitStrategy::Known { value: 0 },
                                      debug_frames: false, ignore_privilege: true };
                let mut oa = Out::buffer();
                let mut ob = Out::buffer();
                let mut ma = M::new(run, base, &mut oa);
                let mut mb = M::new(run + 1, SimFlags { strict: true, ..base }, &mut ob);
                run += 2;
                for addr in 0..=u16::MAX { let v = ma.sim.mem[addr].get(); ma.sim.mem[addr] = Word::new_init(v); mb.sim.mem[addr] = Word::new_init(v); }
                ma.resync_shadow(); mb.resync_shadow();
                for (m, o) in [(&mut ma, &mut oa), (&mut mb, &mut ob)] {
                    for reg in 0..8u8 { m.set_reg(o, reg, word(0x3100 + reg as u16, 0xFFFF)); }
                    // LDI R1, PTR ; ADD R2, R1, #1 ; STR R1, R6, #0 ; LDR R3, R2, #0 ; JMP R4 ... PTR
                    m.set_mems(o, &[(0x3000, word(0xA205, 0xFFFF)), (0x3001, word(0x1461, 0xFFFF)), (0x3002, word(0x7380, 0xFFFF)),
                                    (0x3003, word(0x6680, 0xFFFF)), (0x3004, word(0xC100, 0xFFFF)), (0x3006, word(port, 0xFFFF))]);
                    m.set_pc(o, 0x3000);
                }
                for _ in 0..6 {
                    let xa = ma.step(&mut oa, false, false);
                    let xb = mb.step(&mut ob, false, false);
                    if xa != "ok" || xb != "ok" { break; }
                }
                ma.end(&mut oa); mb.end(&mut ob);
                out.append(oa); out.append(ob);
            }
        }
    }
    // targeted pairs under REAL traps: an execute-stage fault (access violation, user-mode RTI) is vectored
    // with the same saved PC whether strict mode is on or not
    if !fullinit {
        let mut run = run0 + 2 * npairs + 1000;
        for &(iw, r1) in &[(0x2200u16, 0u16), (0x6240, 0x0000), (0x7240, 0xFE00), (0x8000, 0), (0xA201, 0), (0x3200, 0)] {
            let base = SimFlags { strict: false, use_real_traps: true, machine_init: MachineInitStrategy::Known { value: 0 },
                                  debug_frames: false, ignore_privilege: false };
            let mut oa = Out::buffer();
            let mut ob = Out::buffer();
            let mut ma = M::new(run, base, &mut oa);
            let mut mb = M::new(run + 1, SimFlags { strict: true, ..base }, &mut ob);
            run += 2;
            for (m, o) in [(&mut ma, &mut oa), (&mut mb, &mut ob)] {
                for reg in 0..8u8 { m.set_reg(o, reg, word(0x3100 + reg as u16, 0xFFFF)); }
                m.set_reg(o, 1, word(r1, 0xFFFF));
                // the faulting instruction sits at x2FFF-relative distance so that LD/ST reach below x3000
                m.set_mems(o, &[(0x3000, word(if iw == 0x2200 { 0x23FE } else if iw == 0x3200 { 0x33FD } else { iw }, 0xFFFF)),
                                (0x3001, word(0x1021, 0xFFFF)), (0x3002, word(0x0100, 0xFFFF))]);
                m.set_pc(o, 0x3000);
            }
            for _ in 0..40 {
                let xa = ma.step(&mut oa, false, false);
                let xb = mb.step(&mut ob, false, false);
                if xa != "ok" || xb != "ok" { break; }
            }
            ma.end(&mut oa); mb.end(&mut ob);
            out.append(oa); out.append(ob);
        }
    }
    // targeted pairs: an accepted jump / call / return into each device and internal-register port
    // (the strict-mode check of the next PC must not touch the port or its memory mirror)
    if !fullinit {
        let mut run = run0 + 2 * npairs;
        for &target in &[0xFFFCu16, 0xFFFE, 0xFE00, 0xFE02, 0xFE04, 0xFE06, 0xFE10] {
            for (iw, r7) in [(0xC080u16, false), (0x4080, false), (0xC1C0, true)] {   // JMP R2, JSRR R2, RET
                for ignp in [false, true] {
                    let base = SimFlags { strict: false, use_real_traps: false, machine_init: MachineInitStrategy::Known { value: 0 },
                                          debug_frames: false, ignore_privilege: ignp };
                    let mut oa = Out::buffer();
                    let mut ob = Out::buffer();
                    let mut ma = M::new(run, base, &mut oa);
                    let mut mb = M::new(run + 1, SimFlags { strict: true, ..base }, &mut ob);
                    run += 2;
                    for (m, o) in [(&mut ma, &mut oa), (&mut mb, &mut ob)] {
                        for reg in 0..8u8 { m.set_reg(o, reg, word(0x3100 + reg as u16, 0xFFFF)); }
                        m.set_reg(o, if r7 { 7 } else { 2 }, word(target, 0xFFFF));
                        m.set_mems(o, &[(0x3000, word(iw, 0xFFFF)), (0x3001, word(0x1021, 0xFFFF))]);
                        m.set_pc(o, 0x3000);
                        if !ignp { m.set_psr(o, 0x0002); }
                        m.keys(o, &[b'k', b'q']);
                    }
                    for _ in 0..3 {
                        let xa = ma.step(&mut oa, false, false);
                        let xb = mb.step(&mut ob, false, false);
                        if xa != "ok" || xb != "ok" { break; }
                    }
                    ma.end(&mut oa); mb.end(&mut ob);
                    out.append(oa); out.append(ob);
                }
            }
        }
    }
    crate::machine::set_pair_tag("none");
}

const RUN_PROGS: &[&str] = &[
// 0: loop with a subroutine call per iteration
"
.orig x3000
      LD R6, USP
      AND R1, R1, #0
      ADD R1, R1, #6
LOOP  ADD R2, R2, #1
      ST R2, CNT
      JSR F
      ADD R1, R1, #-1
      BRp LOOP
      LEA R0, MSG
      PUTS
      HALT
F     ADD R3, R3, #1
      ST R7, SAVE
      JSR G
      LD R7, SAVE
      RET
G     ADD R4, R4, #2
      RET
USP   .fill xFD00
SAVE  .blkw 1
CNT   .blkw 1
MSG   .stringz \"hi\"
.end
",
// 1: echo through the OS traps until NUL
"
.orig x3000
LOOP GETC
     OUT
     ADD R0, R0, #0
     BRnp LOOP
     HALT
.end
",
];

fn run_scene_setup(m: &mut M, out: &mut Out, rng: &mut StdRng, which: usize, with_handler: bool) {
    let obj = assemble_src(RUN_PROGS[which]);
    if with_handler {
        let handler = assemble_src(crate::scen::INT_HANDLER);
        m.load(out, &handler);
        m.set_mems(out, &[(0x190, word(0x1000, 0xFFFF)), (0x191, word(0x1000, 0xFFFF))]);
    }
    m.load(out, &obj);
    if which == 1 { let n = rng.random_range(2..6); let mut ks: Vec<u8> = (0..n).map(|_| rng.random_range(1..=255u8)).collect(); ks.push(0); m.keys(out, &ks); }
    for r in 0..6u8 { let x = word(rng.random_range(0..5u16), 0xFFFF); m.set_reg(out, r, x); }
}

/// C13: random sequences of run-style calls with breakpoints, limits, MCR clears and
/// scripted interrupts (unpaired runs), and segmented-vs-unbroken pairs.
pub fn gen_run(a: &Args, out: &mut Out, run0: u64, nruns: u64, npairs: u64) {
    let mut rng = rng_for(a, 0xBBBB ^ run0);
    crate::machine::set_pair_tag("none");
    let mut run = run0;
    for k in 0..nruns {
        let flags = SimFlags { strict: false, use_real_traps: chance(&mut rng, 50), machine_init: MachineInitStrategy::Known { value: 0 },
                               debug_frames: chance(&mut rng, 50), ignore_privilege: false };
        let mut m = M::new(run, flags, out); run += 1;
        let which = (k % 2) as usize;
        m.add_intfn(out);
        if chance(&mut rng, 30) { m.add_timer(out, 1, 7, 7, 0x91, rng.random_range(1..8u8), true); }
        run_scene_setup(&mut m, out, &mut rng, which, true);
        // breakpoints
        if chance(&mut rng, 50) { let pc = 0x3000 + rng.random_range(0..16u16); m.add_breakpoint_pc(out, pc); }
        if chance(&mut rng, 30) { let ck = pick(&mut rng, &["eq", "gt", "ge", "lt", "le", "ne", "never", "always"]); let v = if ck == "always" || ck == "never" { 0 } else { rng.random_range(0..8u16) };
                                  m.add_breakpoint_cmp(out, "reg", rng.random_range(1..5u16), ck, v); }
        // comparisons are unsigned: thresholds and values on both sides of x8000
        if chance(&mut rng, 30) { let ck = pick(&mut rng, &["gt", "ge", "lt", "le"]); let v = pick(&mut rng, &[0x7FFFu16, 0x8000, 0x8001, 0xFFFF, 0xFFF0, 3]);
                                  let r = rng.random_range(2..5u8); m.add_breakpoint_cmp(out, "reg", r as u16, ck, v);
                                  if chance(&mut rng, 60) { m.set_reg(out, r, word(pick(&mut rng, &[0x7FFEu16, 0x7FFF, 0x8000, 0xFFFE, 0xFFFA, 1]), 0xFFFF)); } }
        if chance(&mut rng, 20) { m.set_mems(out, &[(0x3013, word(pick(&mut rng, &[0x7FFFu16, 0x8000, 0xFFFF]), 0xFFFF))]);
                                  m.add_breakpoint_cmp(out, "mem", 0x3013, pick(&mut rng, &["gt", "lt", "ge", "le"]), pick(&mut rng, &[0x7FFFu16, 0x8000, 5])); }
        if chance(&mut rng, 30) { m.add_breakpoint_cmp(out, "mem", 0x3012 + rng.random_range(0..3u16), pick(&mut rng, &["eq", "gt", "ne"]), rng.random_range(0..6u16)); }
        let mut calls = 0;
        while calls < 8 {
            calls += 1;
            let kind = pick(&mut rng, &["limit", "limit", "over", "out", "run", "pcne", "stepin", "bpat"]);
            if kind == "stepin" { if m.step(out, false, false) == "panic" { break; } continue; }
            // (limits far beyond what the run can reach, up to u64::MAX: the count must not wrap)
            let arg: u64 = match kind { "limit" => if chance(&mut rng, 20) { pick(&mut rng, &[u64::MAX, u64::MAX - 1, u64::MAX - 7, 1u64 << 63, (1u64 << 32) + 3, 1u64 << 31]) } else { rng.random_range(0..25u64) },
                                        "pcne" => 0x3000 + rng.random_range(0..20u64),
                                        "bpat" => (rng.random_range(0..12u64) << 16) | (0x3000 + rng.random_range(0..20u64)), _ => 0 };
            let clr_at = if chance(&mut rng, 30) { rng.random_range(1..25u32) } else { 150 };
            let mut script = vec![];
            if chance(&mut rng, 40) { script.push((rng.random_range(1..40u32), IntCmd { k: 1, vect: pick(&mut rng, &[0x90u8, 0x91, 0x92]), prio: rng.random_range(0..8u8) })); }
            if chance(&mut rng, 15) { script.push((rng.random_range(1..40u32), IntCmd { k: 2, vect: 0, prio: 0 })); }
            let r = m.run_call(out, kind, arg, &script, clr_at);
            if r == "panic" { break; }
            if m.sim.hit_halt() && chance(&mut rng, 60) { break; }
            if chance(&mut rng, 15) { let pc = 0x3000 + rng.random_range(0..16u16); m.remove_breakpoint_pc(out, pc); }
        }
        m.end(out);
    }
    // segmentation pairs: A = segments (limits, breakpoints, MCR clears, step_over/out), B = one unbroken run
    crate::machine::set_pair_tag("segments");
    for k in 0..npairs {
        let flags = SimFlags { strict: false, use_real_traps: false, machine_init: MachineInitStrategy::Known { value: 0 },
                               debug_frames: chance(&mut rng, 50), ignore_privilege: false };
        let which = (k % 2) as usize;
        let ss: u64 = rng.random();
        for variant in 0..2 {
            let mut r2 = StdRng::seed_from_u64(ss);
            let mut m = M::new(run, flags, out); run += 1;
            m.add_intfn(out);
            run_scene_setup(&mut m, out, &mut r2, which, false);
            if variant == 1 {
                m.run_call(out, "run", 0, &[], 1500);
            } else {
                let mut r3 = StdRng::seed_from_u64(ss ^ 0x55);
                if chance(&mut r3, 50) { let pc = 0x3000 + r3.random_range(0..16u16); m.add_breakpoint_pc(out, pc); }
                let mut guard = 0;
                // (until the HALT itself has executed: an MCR clear by another thread may stop a segment right before it,
                // with the PC resting on the HALT word and hit_halt() true, but the word not yet fetched)
                while !(m.sim.hit_halt() && m.sim.mem[m.sim.pc].get() == 0xF025 && m.sim.verif_prefetch()) && guard < 400 {
                    guard += 1;
                    let kind = pick(&mut r3, &["limit", "limit", "over", "out", "run", "stepin"]);
                    if kind == "stepin" { if m.step(out, false, false) != "ok" { break; } continue; }
                    let arg: u64 = if kind == "limit" { r3.random_range(0..20u64) } else { 0 };
                    let clr_at = if chance(&mut r3, 40) { r3.random_range(1..30u32) } else { 1500 };
                    // an MCR clear by another thread stops the run but counts as a halt for hit_halt(); keep going
                    let res = m.run_call(out, kind, arg, &[], clr_at);
                    if res != "ok" { break; }
                    if m.sim.hit_halt() && m.sim.mem[m.sim.pc].get() != 0xF025 { continue_after_mcr(&mut m); }
                }
            }
            m.end(out);
        }
    }
    crate::machine::set_pair_tag("none");
}
// hit_halt() is also true when the run stopped because the MCR was cleared; the loop above
// must go on in that case (the program has not executed HALT yet).
fn continue_after_mcr(_m: &mut M) {}

/// C34: `TimerDevice` driven directly: random exact counts and ranges, seeds,
/// enable/disable toggles, resets; emitted in pairs with the same seed ("repro").
pub fn emit_timer(a: &Args, out: &mut Out) {
    use lc3_ensemble::sim::device::{ExternalDevice, TimerDevice};
    use serde_json::json;
    let mut rng = rng_for(a, 0xCCCC);
    let nruns = a.get_u64("n", if a.thorough() { 600 } else { 60 });
    let npolls = a.get_u64("polls", if a.thorough() { 400 } else { 150 });
    let mut run = 1u64;
    for k in 0..nruns {
        let exact = k % 3 == 0;
        let lo: u32 = if k % 11 == 10 { 0 } else { rng.random_range(1..9) };
        let hi: u32 = if exact { lo } else { lo + rng.random_range(0..9) };
        let seed: u64 = rng.random_range(0..1_000_000);
        let vect: u8 = rng.random();
        let prio: u8 = rng.random_range(0..12);
        let script_seed: u64 = rng.random();
        for pos in ["A", "B"] {
            let mut r2 = StdRng::seed_from_u64(script_seed);
            // the same set of values in any of the range notations the API accepts
            let form = r2.random_range(0..4);
            let mut t = match form {
                0 => TimerDevice::new(Some(seed), lo..=hi, vect, prio),
                1 => TimerDevice::new(Some(seed), lo..(hi + 1), vect, prio),
                2 if lo > 0 => TimerDevice::new(Some(seed), (std::ops::Bound::Excluded(lo - 1), std::ops::Bound::Included(hi)), vect, prio),
                _ => TimerDevice::new(Some(seed), lo..=hi, vect, prio),
            };
            out.emit(json!({"ev": "New", "dom": "timer", "run": run, "pair": "repro", "pairpos": pos, "seed": seed as u32,
                            "lo": lo, "hi": hi, "vect": vect, "prio": prio, "time": t.get_remaining()}));
            run += 1;
            let mut cur = (lo, hi);
            let mut after_fire = false;
            for pn in 0..npolls {
                // an exact timer widened later must keep drawing from its seeded generator
                if pn == 10 && exact { let nhi = lo + 1 + r2.random_range(0..4u32); t.set_range(lo..=nhi); cur = (lo, nhi); out.emit(json!({"ev": "TRange", "lo": cur.0, "hi": cur.1})); }
                // right after an interrupt: disable, poll a few times while disabled, enable again
                if after_fire && r2.random_range(0..100) < 30 {
                    t.enabled = false; out.emit(json!({"ev": "TEnable", "en": 0}));
                    for _ in 0..r2.random_range(1..4) {
                        let i = t.poll_interrupt();
                        let (fired, v, p) = match &i { Some(x) => (1, int_vect(x), x.priority().unwrap_or(0)), None => (0, 0, 0) };
                        out.emit(json!({"ev": "TPoll", "fired": fired, "vect": v, "prio": p, "remaining": t.get_remaining()}));
                    }
                    t.enabled = true; out.emit(json!({"ev": "TEnable", "en": 1}));
                }
                after_fire = false;
                match r2.random_range(0..100) {
                    0..=3 => { let en = !t.enabled; t.enabled = en; out.emit(json!({"ev": "TEnable", "en": en as u8})); }
                    4..=5 => { t.enabled = true; out.emit(json!({"ev": "TEnable", "en": 1})); }
                    6 => { t.io_reset(); out.emit(json!({"ev": "TReset", "remaining": t.get_remaining()})); }
                    7 => { t.reset_remaining(); out.emit(json!({"ev": "TReset", "remaining": t.get_remaining()})); }
                    8 => {
                        let nlo: u32 = r2.random_range(1..7); let nhi = nlo + r2.random_range(0..5u32);
                        match r2.random_range(0..4) {
                            0 => { t.set_exact(nlo); cur = (nlo, nlo); }
                            1 => { t.set_range(nlo..(nlo + 1)); cur = (nlo, nlo); }          // exact, written half-open
                            2 => { t.set_range(nlo..(nhi + 1)); cur = (nlo, nhi); }
                            _ => { t.set_range(nlo..=nhi); cur = (nlo, nhi); }
                        }
                        out.emit(json!({"ev": "TRange", "lo": cur.0, "hi": cur.1}));
                    }
                    _ => {
                        match crate::js::guard(|| t.poll_interrupt()) {
                            Err(()) => { out.emit(json!({"ev": "Panic", "in": "poll_interrupt"})); break; }
                            Ok(i) => {
                                let (fired, v, p) = match &i { Some(x) => (1, int_vect(x), x.priority().unwrap_or(0)), None => (0, 0, 0) };
                                out.emit(json!({"ev": "TPoll", "fired": fired, "vect": v, "prio": p, "remaining": t.get_remaining()}));
                                after_fire = fired == 1;
                            }
                        }
                    }
                }
            }
            out.emit(json!({"ev": "End"}));
        }
    }
}
/// The vector of an interrupt is not publicly readable; recover it through Debug formatting.
fn int_vect(i: &lc3_ensemble::sim::device::Interrupt) -> u32 {
    let s = format!("{i:?}");
    s.split("vect: ").nth(1).and_then(|r| r.split(',').next()).and_then(|n| n.trim().parse().ok()).unwrap_or(999)
}


/// `lc3v replay load hist=<file>`: each history is a case of MC_Load: neighbours initialized first (0/1), number of
/// blocks, then per block start, length and words (-1 = reserved word).  The object is assembled from a source
/// text written from the blocks and loaded with the real load_obj_file.
pub fn replay_load(a: &Args, out: &mut Out) {
    let hist = std::fs::read_to_string(a.get_str("hist", "")).expect("hist file");
    crate::machine::set_pair_tag("none");
    crate::machine::LIGHT_HEADERS.with(|l| l.set(true));
    let mut run = 0u64;
    for line in hist.lines() {
        if line.trim().is_empty() { continue; }
        let h: Vec<i64> = serde_json::from_str(line).expect("history");
        let (pre, pmask, nb) = (h[0] >= 1, if h[0] == 2 { 0xFF00u16 } else { 0xFFFF }, h[1] as usize);
        let mut blocks: Vec<(u16, Vec<i64>)> = vec![];
        let mut i = 2;
        for _ in 0..nb { let (s, n) = (h[i] as u16, h[i + 1] as usize); blocks.push((s, h[i + 2..i + 2 + n].to_vec())); i += 2 + n; }
        let mut src = String::new();
        for (s, ws) in &blocks {
            src.push_str(&format!(".orig x{s:04X}\n"));
            for w in ws { if *w < 0 { src.push_str(".blkw 1\n"); } else { src.push_str(&format!(".fill x{:04X}\n", *w as u16)); } }
            src.push_str(".end\n");
        }
        let obj = assemble_src(&src);
        run += 1;
        let mut m = M::new(run, SimFlags { strict: false, use_real_traps: false, machine_init: MachineInitStrategy::Known { value: 0 },
                                           debug_frames: false, ignore_privilege: false }, out);
        if pre {
            let mut pokes: Vec<(u16, Word)> = vec![];
            for (s, ws) in &blocks {
                if *s > 0 { pokes.push((*s - 1, word(0x1111, pmask))); }
                for k in 0..=ws.len() as u32 { let a = *s as u32 + k; if a <= 0xFFFF { pokes.push((a as u16, word(0x1111, pmask))); } }
            }
            m.set_mems(out, &pokes);
        }
        m.load(out, &obj);
        m.end(out);
    }
}
