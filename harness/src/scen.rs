//! Scenario generators for the machine domain (C08, C09, C14, C16, C27, C28, ...).
//! All random choices derive from the seed.

use crate::machine::{word, Flags, IntCmd, M};
use crate::{Args, Out};
use lc3_ensemble::asm::{assemble_debug, ObjectFile};
use lc3_ensemble::parse::parse_ast;
use lc3_ensemble::sim::mem::{MachineInitStrategy, Word};
use lc3_ensemble::sim::{InternalRegister, MemAccessCtx, SimFlags};
use rand::rngs::StdRng;
use rand::{Rng, SeedableRng};

pub const INTERESTING: &[u16] = &[
    0x0000, 0x0001, 0x0025, 0x00FF, 0x0100, 0x0101, 0x0102, 0x0180, 0x01FF, 0x0200, 0x2FFE, 0x2FFF, 0x3000,
    0x3001, 0x3002, 0x4000, 0x7FFF, 0x8000, 0x8001, 0xFDFE, 0xFDFF, 0xFE00, 0xFE01, 0xFE02, 0xFE04, 0xFE06,
    0xFE10, 0xFFFB, 0xFFFC, 0xFFFD, 0xFFFE, 0xFFFF,
];

pub fn pick<T: Copy>(rng: &mut StdRng, xs: &[T]) -> T { xs[rng.random_range(0..xs.len())] }
pub fn chance(rng: &mut StdRng, pct: u32) -> bool { rng.random_range(0..100) < pct }

pub fn interesting(rng: &mut StdRng) -> u16 {
    match rng.random_range(0..10) {
        0..=5 => {
            let b = pick(rng, INTERESTING);
            b.wrapping_add(rng.random_range(0..3u16)).wrapping_sub(1)
        }
        6..=7 => 0x3000 + rng.random_range(0..0x200u16),
        _ => rng.random(),
    }
}
pub fn rand_word(rng: &mut StdRng) -> Word {
    let v = interesting(rng);
    let m = match rng.random_range(0..10) { 0..=6 => 0xFFFF, 7 => 0, 8 => rng.random(), _ => 0xFF00 };
    word(v, m)
}
pub fn rand_flags(rng: &mut StdRng, strict_pct: u32) -> SimFlags {
    let mut f = rand_flags0(rng, strict_pct);
    if FORCE_DBG.load(std::sync::atomic::Ordering::Relaxed) { f.debug_frames = true; }
    f
}
pub static FORCE_DBG: std::sync::atomic::AtomicBool = std::sync::atomic::AtomicBool::new(false);
fn rand_flags0(rng: &mut StdRng, strict_pct: u32) -> SimFlags {
    let init = match rng.random_range(0..3) {
        0 => MachineInitStrategy::Known { value: 0 },
        1 => MachineInitStrategy::Known { value: 0xFFFF },
        _ => MachineInitStrategy::Known { value: rng.random() },
    };
    SimFlags {
        strict: chance(rng, strict_pct),
        use_real_traps: chance(rng, 50),
        machine_init: init,
        debug_frames: chance(rng, 50),
        ignore_privilege: chance(rng, 15),
    }
}

/// A random instruction word, biased towards canonical encodings and towards
/// operands that hit boundaries.
pub fn rand_instr(rng: &mut StdRng) -> u16 {
    let op: u16 = pick(rng, &[0u16, 1, 1, 2, 3, 4, 4, 5, 5, 6, 6, 7, 7, 8, 9, 10, 11, 12, 12, 13, 14, 15, 15]);
    let r = |rng: &mut StdRng| rng.random_range(0..8u16);
    let base = op << 12;
    let w = match op {
        0 => base | (rng.random_range(0..8u16) << 9) | (rng.random::<u16>() & 0x1FF),
        1 | 5 => {
            if chance(rng, 50) { base | (r(rng) << 9) | (r(rng) << 6) | 0x20 | (rng.random::<u16>() & 0x1F) }
            else { base | (r(rng) << 9) | (r(rng) << 6) | r(rng) }
        }
        2 | 3 | 10 | 11 | 14 => base | (r(rng) << 9) | (pick(rng, &[0u16, 1, 2, 0x1FF, 0x1FE, 0xFF, 0x100, 5, 0x1F0]) & 0x1FF),
        4 => if chance(rng, 50) { base | 0x800 | (rng.random::<u16>() & 0x7FF) } else { base | (r(rng) << 6) },
        6 | 7 => base | (r(rng) << 9) | (r(rng) << 6) | (pick(rng, &[0u16, 1, 0x3F, 0x20, 0x1F, 2]) & 0x3F),
        8 => base,
        9 => base | (r(rng) << 9) | (r(rng) << 6) | 0x3F,
        12 => base | (r(rng) << 6),
        13 => base | (rng.random::<u16>() & 0xFFF),
        _ => base | pick(rng, &[0x20u16, 0x21, 0x22, 0x23, 0x24, 0x25, 0x00, 0x26, 0xFF, 0x80]),
    };
    // forms that random draws almost never produce: calls and returns through R7, R6-based accesses,
    // destination = source, every TRAP vector class
    if chance(rng, 8) {
        return pick(rng, &[0x41C0u16, 0xC1C0, 0x4180, 0xC180, 0x6FBF, 0x7FBF, 0x6DBE, 0x1FFF, 0x5FFF, 0x9FFF, 0x1DA1, 0xEFFF, 0xAFFF, 0xBFFF, 0x2FFF, 0x3FFF,
                           0x4FFF, 0x4800, 0x0FFF, 0x0E00, 0xF000, 0xF0FF, 0xF01F, 0xF026, 0x927F, 0x1240, 0x5240]);
    }
    // occasionally corrupt a must-be-zero bit
    if chance(rng, 6) { w ^ (1 << rng.random_range(0..12)) } else { w }
}

pub fn assemble_src(src: &str) -> ObjectFile {
    let ast = parse_ast(src).unwrap_or_else(|e| panic!("harness program does not parse: {e:?}\n{src}"));
    assemble_debug(ast, src).unwrap_or_else(|e| panic!("harness program does not assemble: {e:?}\n{src}"))
}

// ---------------------------------------------------------------------------
/// Random machine states, random words at the PC: every opcode and exception path.
pub fn gen_rand(a: &Args, out: &mut Out, run0: u64, nruns: u64, strict_pct: u32) {
    let mut rng = StdRng::seed_from_u64(a.seed.wrapping_mul(0x9E3779B97F4A7C15) ^ 0x1111 ^ run0);
    for k in 0..nruns {
        let flags = rand_flags(&mut rng, strict_pct);
        let mut m = M::new(run0 + k, flags, out);
        // a loaded object file: its blocks are what strict mode exempts (in_alloca); none, one or several
        // blocks, the lowest well above x0000, reserved words inside, also an empty file
        if chance(&mut rng, 40) {
            let mut bases = vec![0x2F00u16, 0x3000, 0x3100, 0x4000, 0x7FFE, 0xC000, 0xFD00];
            let nb = rng.random_range(0..4usize);
            let mut src = String::new();
            for _ in 0..nb {
                let b = bases.remove(rng.random_range(0..bases.len())) + rng.random_range(0..3u16);
                src.push_str(&format!(".orig x{b:04X}\n"));
                for _ in 0..rng.random_range(1..4) {
                    if chance(&mut rng, 50) { src.push_str(&format!(".blkw {}\n", rng.random_range(1..4))); } else { src.push_str(&format!(".fill x{:04X}\n", rng.random::<u16>())); }
                }
                src.push_str(".end\n");
            }
            let obj = assemble_src(&src);
            m.load(out, &obj);
        }
        // privilege / priority / condition codes
        let psr = (if chance(&mut rng, 55) { 0x8000 } else { 0 }) | (rng.random_range(0..8u16) << 8)
            | pick(&mut rng, &[1u16, 2, 4, 2, 0, 7]);
        m.set_psr(out, psr);
        for r in 0..8u8 {
            let x = if r == 6 && chance(&mut rng, 50) {
                word(pick(&mut rng, &[0x3000u16, 0x2FF0, 0xFE00, 0x4000, 0x0001, 0xFDFF]), 0xFFFF)
            } else { rand_word(&mut rng) };
            m.set_reg(out, r, x);
        }
        if chance(&mut rng, 30) {
            m.mmap(out, 0xFE20, InternalRegister::SavedSP);
            let x = rand_word(&mut rng);
            m.write_mem(out, 0xFE20, x, MemAccessCtx::omnipotent());
        }
        if chance(&mut rng, 15) { m.mmap(out, 0xFE22, InternalRegister::PC); }
        if chance(&mut rng, 20) { let n = rng.random_range(1..4); let ks: Vec<u8> = (0..n).map(|_| rng.random()).collect(); m.keys(out, &ks); }
        let pc = interesting(&mut rng);
        m.set_pc(out, pc);
        // code at and around the PC, data at interesting places
        let mut pokes = vec![];
        for d in 0..4u16 { pokes.push((pc.wrapping_add(d), word(rand_instr(&mut rng), if chance(&mut rng, 92) { 0xFFFF } else { 0 }))); }
        for _ in 0..6 { pokes.push((interesting(&mut rng), rand_word(&mut rng))); }
        // pointers for LDI/STI near the PC
        for d in [0u16, 1, 2, 6, 0x100, 0xFFFF, 0xFFF1] { if chance(&mut rng, 40) { pokes.push((pc.wrapping_add(d).wrapping_add(1), word(interesting(&mut rng), 0xFFFF))); } }
        m.set_mems(out, &pokes);
        // the flags are a public field of a live simulator: debug frames switched on or off (or another flag changed)
        // after construction, without a reset
        if chance(&mut rng, 25) {
            let f0 = crate::machine::Flags::of(&flags);
            let f = if chance(&mut rng, 70) { crate::machine::Flags { strict: f0.strict, real: f0.real, dbg: !f0.dbg, ignp: f0.ignp } }
                    else { crate::machine::Flags { strict: f0.strict, real: !f0.real, dbg: f0.dbg, ignp: chance(&mut rng, 30) } };
            m.set_flags(out, &f);
        }
        let nsteps = rng.random_range(1..7);
        for _ in 0..nsteps {
            if m.step(out, false, false) == "panic" { break; }
        }
        m.prefetch_pc(out);
        m.end(out);
    }
}

/// One machine stepped many thousand times: a prologue executed once, then a long loop with a rare
/// excursion.  Whatever a step-scoped structure keeps per step (the access observer is cleared before
/// every step) must not come back after any number of steps.
pub fn gen_long(a: &Args, out: &mut Out, nsteps: u32) {
    let mut rng = StdRng::seed_from_u64(a.seed.wrapping_mul(0x9E3779B97F4A7C15) ^ 0x1046);
    let flags = SimFlags { strict: false, use_real_traps: chance(&mut rng, 50), machine_init: MachineInitStrategy::Known { value: 0 },
                           debug_frames: false, ignore_privilege: false };
    let mut m = M::new(1, flags, out);
    let n1 = 40 + rng.random_range(0..60u16);
    let src = format!("
.orig x3000
      LD R1, N
      ST R1, X
      LEA R2, X
      STR R1, R2, #1
      LD R3, M
L     ADD R1, R1, #-1
      BRnp L
      LDI R4, P
      ADD R3, R3, #-1
      BRz DONE
      LD R1, N2
      BRnzp L
DONE  HALT
N     .fill x{n1:04X}
N2    .fill x03FF
M     .fill x0040
P     .fill X
X     .blkw 2
.end
");
    let obj = assemble_src(&src);
    m.load(out, &obj);
    m.set_psr(out, 0x8002);
    m.set_pc(out, 0x3000);
    for _ in 0..nsteps { if m.step(out, false, false) != "ok" { break; } }
    m.end(out);
}

// ---------------------------------------------------------------------------
pub const PROG_ECHO: &str = "
.orig x3000
LOOP GETC
     OUT
     ADD R0, R0, #0
     BRnp LOOP
     HALT
.end
";
pub const PROGS: &[&str] = &[
// 0: echo until NUL, then print a string and halt
"
.orig x3000
LOOP GETC
     OUT
     ADD R0, R0, #0
     BRnp LOOP
     LEA R0, MSG
     PUTS
     HALT
MSG  .stringz \"ok!\"
.end
",
// 1: nested subroutines with a software stack (calling convention)
"
.orig x3000
      LD R6, SP
      AND R0, R0, #0
      ADD R0, R0, #3
      ADD R6, R6, #-1
      STR R0, R6, #0
      JSR FACT
      LDR R1, R6, #0
      ADD R6, R6, #2
      ST R1, RESULT
      HALT
SP    .fill xF000
RESULT .blkw 1
FACT  ADD R6, R6, #-4
      STR R7, R6, #2
      STR R5, R6, #1
      ADD R5, R6, #0
      LDR R0, R5, #4
      BRz BASE
      ADD R0, R0, #-1
      ADD R6, R6, #-1
      STR R0, R6, #0
      JSR FACT
      LDR R1, R6, #0
      ADD R6, R6, #2
      LDR R0, R5, #4
      ADD R1, R1, R0
      BR DONE
BASE  AND R1, R1, #0
      ADD R1, R1, #1
DONE  STR R1, R5, #3
      ADD R6, R5, #0
      LDR R5, R6, #1
      LDR R7, R6, #2
      ADD R6, R6, #3
      RET
.end
",
// 2: PUTSP, IN, JSRR, LDI/STI on the display, then an illegal instruction
"
.orig x3000
      LEA R0, PK
      PUTSP
      IN
      LEA R2, SUB
      JSRR R2
      LDI R3, DSRP
      LD R4, CH
      STI R4, DDRP
      .fill xD000
      HALT
SUB   ADD R1, R1, #1
      RET
PK    .fill x6548
      .fill x006C
DSRP  .fill xFE04
DDRP  .fill xFE06
CH    .fill x0021
.end
",
// 3: user program pokes at supervisor memory (access violation), with data block
"
.orig x3000
      LD R1, PTR
      LDR R0, R1, #0
      STR R0, R1, #1
      HALT
PTR   .fill x0200
.end
",
// 4: RTI in user mode (privilege violation) after some arithmetic
"
.orig x3000
      AND R0, R0, #0
      ADD R0, R0, #-1
      NOT R1, R0
      ST R1, X
      LD R2, X
      RTI
X     .blkw 2
.end
",
// 5: unbalanced returns, JMP through registers, BR on every condition
"
.orig x3000
      LEA R7, L1
      RET
L1    LEA R3, L2
      JMP R3
L2    AND R0, R0, #0
      BRz L3
      HALT
L3    ADD R0, R0, #1
      BRp L4
      HALT
L4    ADD R0, R0, #-2
      BRn L5
      HALT
L5    JSR S1
      RET
S1    JSR S2
      RET
S2    RET
.end
",
// 6: TRAP with unusual vectors (bad trap handler), reads KBSR/KBDR directly
"
.orig x3000
      LDI R0, KS
      LDI R1, KD
      LDI R0, KS
      TRAP x30
      HALT
KS    .fill xFE00
KD    .fill xFE02
.end
",
// 7: stores into its own .blkw area and the stack; stack-relative loads
"
.orig x3000
      LD R6, SP
      ADD R6, R6, #-2
      STR R1, R6, #0
      STR R2, R6, #1
      LDR R3, R6, #0
      LDR R4, R6, #1
      ST R3, BUF
      LD R5, BUF
      LEA R1, BUF
      STR R5, R1, #1
      HALT
SP    .fill x4000
BUF   .blkw 3
.end
",
];

/// Structured programs through the real OS, with keyboard input.
pub fn gen_prog(a: &Args, out: &mut Out, run0: u64, nruns: u64, strict_pct: u32, max_steps: u32) {
    let mut rng = StdRng::seed_from_u64(a.seed.wrapping_mul(0x9E3779B97F4A7C15) ^ 0x2222 ^ run0);
    for k in 0..nruns {
        let flags = rand_flags(&mut rng, strict_pct);
        let mut m = M::new(run0 + k, flags, out);
        let pi = (k as usize) % PROGS.len();
        let obj = assemble_src(PROGS[pi]);
        m.load(out, &obj);
        if pi == 1 { m.srdef(out, 0x300C, Some(1), &[]); }
        if pi == 2 { m.srdef(out, 0x300A, None, &[1, 2]); }
        if pi == 5 { m.srdef(out, 0x300F, None, &[7, 0]); m.srdef(out, 0x3011, None, &[7]); }
        if chance(&mut rng, 70) {
            let n = rng.random_range(0..5);
            let mut ks: Vec<u8> = (0..n).map(|_| rng.random_range(1..=255u8)).collect();
            if chance(&mut rng, 60) { ks.push(0); }
            m.keys(out, &ks);
        }
        if chance(&mut rng, 30) {
            for r in 0..8u8 { if chance(&mut rng, 50) { let x = word(interesting(&mut rng), 0xFFFF); m.set_reg(out, r, x); } }
        }
        let mut steps = 0;
        let mut stuck = 0;
        while steps < max_steps {
            let r = m.step(out, false, false);
            steps += 1;
            if r == "panic" { break; }
            if r != "ok" { stuck += 1; if stuck > 2 { break; } }
            // virtual halt: PC stays on the HALT; stop after seeing it twice
            if !m.sim.flags.use_real_traps && m.sim.mem[m.sim.pc].get() == 0xF025 && stuck == 0 && steps > 3 {
                stuck += 1;
            }
            // late keyboard input
            if steps == 40 && chance(&mut rng, 50) { m.keys(out, &[b'x', 0]); }
            // real halt: MCR cleared
            if !m.sim.mcr().load(std::sync::atomic::Ordering::Relaxed) && m.sim.flags.use_real_traps && steps > 3 && m.sim.pc < 0x3000 && chance(&mut rng, 30) { break; }
        }
        m.prefetch_pc(out);
        m.end(out);
    }
}

// ---------------------------------------------------------------------------
const INT_PROG: &str = "
.orig x3000
      LD R6, USP
      AND R1, R1, #0
      ADD R1, R1, #12
LOOP  ADD R2, R2, #1
      ST R2, CNT
      JSR F
      ADD R1, R1, #-1
      BRp LOOP
      HALT
F     ADD R3, R3, #1
      RET
USP   .fill xFD00
CNT   .blkw 1
.end
";
// handler: saves R0,R1 on the supervisor stack, bumps a counter, reads KBDR, restores, RTI
pub const INT_HANDLER: &str = "
.orig x1000
H     ADD R6, R6, #-2
      STR R0, R6, #0
      STR R1, R6, #1
      LD R0, HC
      ADD R0, R0, #1
      ST R0, HC
      LDI R1, KBD
      ST R1, LAST
      LDR R0, R6, #0
      LDR R1, R6, #1
      ADD R6, R6, #2
      RTI
HC    .fill 0
LAST  .fill 0
KBD   .fill xFE02
.end
";

/// Interrupt scenarios: harness interrupt devices with random priorities and
/// timing, keyboard interrupts, seeded timers.
pub fn gen_int(a: &Args, out: &mut Out, run0: u64, nruns: u64, max_steps: u32) {
    let mut rng = StdRng::seed_from_u64(a.seed.wrapping_mul(0x9E3779B97F4A7C15) ^ 0x3333 ^ run0);
    let prog = assemble_src(INT_PROG);
    let handler = assemble_src(INT_HANDLER);
    for k in 0..nruns {
        let mut flags = rand_flags(&mut rng, 0);
        flags.ignore_privilege = false;
        let mut m = M::new(run0 + k, flags, out);
        m.load(out, &handler);
        m.load(out, &prog);
        // vectors x80 (keyboard), x81 (timer), x90, x91 -> handler; others stay on the OS default
        let mut pokes = vec![];
        for v in [0x180u16, 0x181, 0x190, 0x191] { pokes.push((v, word(0x1000, 0xFFFF))); }
        m.set_mems(out, &pokes);
        // signatures registered at the vector-table addresses (the callee of an interrupt frame is x0100 + vector):
        // calling-convention and pass-by-register
        if chance(&mut rng, 50) {
            for v in [0x180u16, 0x181, 0x190, 0x191] {
                if chance(&mut rng, 50) { if chance(&mut rng, 50) { m.srdef(out, v, Some(rng.random_range(0..3usize)), &[]); } else { m.srdef(out, v, None, &[rng.random_range(0..6u8), rng.random_range(0..6u8)]); } }
            }
        }
        let s1 = m.add_intfn(out);
        let s2 = m.add_intfn(out);
        let use_timer = chance(&mut rng, 50);
        if use_timer {
            let lo = rng.random_range(1..6u32);
            let hi = lo + rng.random_range(0..5u32);
            m.add_timer(out, rng.random(), lo, hi, 0x81, rng.random_range(1..8u8), true);
        }
        let kbd_int = chance(&mut rng, 50);
        if kbd_int {
            // set KBSR[14]
            m.write_mem(out, 0xFE00, Word::new_init(0x4000), MemAccessCtx::omnipotent());
        }
        let mut steps = 0;
        while steps < max_steps {
            m.set_int(s1, if chance(&mut rng, 12) { IntCmd { k: 1, vect: pick(&mut rng, &[0x90u8, 0x91, 0x92]), prio: rng.random_range(0..10u8) } } else { IntCmd::default() });
            m.set_int(s2, if chance(&mut rng, 8) { IntCmd { k: if chance(&mut rng, 4) { 2 } else { 1 }, vect: 0x91, prio: rng.random_range(0..8u8) } } else { IntCmd::default() });
            if kbd_int && chance(&mut rng, 6) { let b: u8 = rng.random(); m.keys(out, &[b]); }
            let r = m.step(out, false, false);
            steps += 1;
            if r == "panic" { break; }
            if r != "ok" && r != "Interrupt" { break; }
            if !m.sim.flags.use_real_traps && m.sim.mem[m.sim.pc].get() == 0xF025 && m.sim.pc >= 0x3000 && chance(&mut rng, 50) { break; }
            if m.sim.flags.use_real_traps && !m.sim.mcr().load(std::sync::atomic::Ordering::Relaxed) && m.sim.pc < 0x3000 && steps > 10 && chance(&mut rng, 20) { break; }
        }
        m.prefetch_pc(out);
        m.end(out);
    }
}

// ---------------------------------------------------------------------------
/// Seeded full-memory random images (C16/C31): everything random, run a few steps.
pub fn gen_full(a: &Args, out: &mut Out, run0: u64, nruns: u64) {
    let mut rng = StdRng::seed_from_u64(a.seed.wrapping_mul(0x9E3779B97F4A7C15) ^ 0x4444 ^ run0);
    for k in 0..nruns {
        let flags = SimFlags {
            strict: chance(&mut rng, 25), use_real_traps: chance(&mut rng, 50),
            machine_init: MachineInitStrategy::Seeded { seed: rng.random_range(0..1_000_000u64) },
            debug_frames: chance(&mut rng, 50), ignore_privilege: chance(&mut rng, 30),
        };
        let mut m = M::new(run0 + k, flags, out);
        // make the random image "initialized" half of the time by poking words around the PC
        let pc = pick(&mut rng, &[0x3000u16, 0x00FF, 0x0100, 0xFDFF, 0xFE00, 0xFFFF, 0x0000, 0x7FFF, 0x8000, 0x2FFF, 0x1234, 0xABCD]);
        m.set_pc(out, pc);
        if chance(&mut rng, 60) {
            let mut pokes = vec![];
            for d in 0..6u16 { let a = pc.wrapping_add(d); let v = m.sim.mem[a].get(); pokes.push((a, word(if chance(&mut rng, 50) { v } else { rand_instr(&mut rng) }, 0xFFFF))); }
            m.set_mems(out, &pokes);
        }
        for r in 0..8u8 { if chance(&mut rng, 60) { let x = rand_word(&mut rng); m.set_reg(out, r, x); } }
        if chance(&mut rng, 50) { m.set_psr(out, rng.random()); }
        for _ in 0..rng.random_range(2..10) {
            if m.step(out, false, false) == "panic" { break; }
        }
        m.prefetch_pc(out);
        m.end(out);
    }
}

// ---------------------------------------------------------------------------
/// C09: adversarial user-mode states; every addressing mode aimed at boundary addresses.
pub fn gen_adv(a: &Args, out: &mut Out, run0: u64, reps: u64) -> u64 {
    let mut rng = StdRng::seed_from_u64(a.seed.wrapping_mul(0x9E3779B97F4A7C15) ^ 0x5555 ^ run0);
    let mut run = run0;
    let modes = ["LD", "ST", "LDR", "STR", "LDI", "STI", "JMP", "JSRR", "BR", "FALL", "JSR", "RTI", "TRAPPTR", "LEA"];
    for _ in 0..reps {
        for mode in modes {
            let mut targets: Vec<u16> = vec![0x0000, 0x0001, 0x01FF, 0x0200, 0x2FFF, 0x3000, 0x3001, 0xFDFE, 0xFDFF, 0xFE00, 0xFE02, 0xFE04, 0xFE06, 0xFFFC, 0xFFFE, 0xFFFF];
            targets.push(rng.random());
            targets.push(rng.random::<u16>() % 0x3000);
            for &t in &targets {
                let strict = chance(&mut rng, 20);
                let flags = SimFlags {
                    strict, use_real_traps: chance(&mut rng, 50),
                    machine_init: MachineInitStrategy::Known { value: pick(&mut rng, &[0u16, 0xFFFF, 0x1234]) },
                    debug_frames: chance(&mut rng, 30), ignore_privilege: false,
                };
                let mut m = M::new(run, flags, out);
                run += 1;
                m.keys(out, &[b'k', b'q']);
                // (strict runs leave some registers uninitialised: the privilege decision must not depend on it)
                for r in 0..8u8 { if strict && chance(&mut rng, 40) { continue; } let x = word(rng.random(), 0xFFFF); m.set_reg(out, r, x); }
                let sr = rng.random_range(0..6u16);
                let br = 1 + rng.random_range(0..5u16);
                // a store of the very word the target already holds is still a store
                let same_value = chance(&mut rng, 25);
                let mut pokes: Vec<(u16, Word)> = vec![];
                // recognisable data at the target (not for MMIO ports, which the device answers)
                if t < 0xFE00 { pokes.push((t, word(0xBEEF, 0xFFFF))); }
                let (pc, steps): (u16, u32) = match mode {
                    "LD" | "ST" | "LEA" | "BR" | "JSR" => {
                        // PC-relative: place the instruction so that pc+1+off = t, preferring a user-space pc
                        let off: i16 = pick(&mut rng, &[-2i16, -1, 0, 1, 5, -256, 255]);
                        let pc = t.wrapping_sub(1).wrapping_sub(off as u16);
                        let o9 = (off as u16) & 0x1FF;
                        let w = match mode {
                            "LD" => 0x2000 | (sr << 9) | o9,
                            "ST" => 0x3000 | (sr << 9) | o9,
                            "LEA" => 0xE000 | (sr << 9) | o9,
                            "BR" => 0x0E00 | o9,
                            _ => 0x4800 | ((off as u16) & 0x7FF),
                        };
                        pokes.push((pc, word(w, 0xFFFF)));
                        (pc, 2)
                    }
                    "LDR" | "STR" => {
                        let off: i16 = pick(&mut rng, &[0i16, 1, -1, 31, -32]);
                        let pc = 0x3100 + rng.random_range(0..0x100u16);
                        let w = (if mode == "LDR" { 0x6000 } else { 0x7000 }) | (sr << 9) | (br << 6) | ((off as u16) & 0x3F);
                        pokes.push((pc, word(w, 0xFFFF)));
                        m.set_reg(out, br as u8, word(t.wrapping_sub(off as u16), 0xFFFF));
                        (pc, 1)
                    }
                    "LDI" | "STI" => {
                        let pc = 0x3100 + rng.random_range(0..0x100u16);
                        let w = (if mode == "LDI" { 0xA000 } else { 0xB000 }) | (sr << 9) | 0x005;
                        pokes.push((pc, word(w, 0xFFFF)));
                        pokes.push((pc.wrapping_add(6), word(t, 0xFFFF)));
                        (pc, 1)
                    }
                    "JMP" | "JSRR" => {
                        let pc = 0x3100 + rng.random_range(0..0x100u16);
                        let w = (if mode == "JMP" { 0xC000 } else { 0x4000 }) | (br << 6);
                        pokes.push((pc, word(w, 0xFFFF)));
                        m.set_reg(out, br as u8, word(t, 0xFFFF));
                        (pc, 2)
                    }
                    "FALL" => {
                        // an ALU instruction just before the target: the next fetch is at t
                        let pc = t.wrapping_sub(1);
                        pokes.push((pc, word(0x1021, 0xFFFF)));
                        (pc, 2)
                    }
                    "RTI" => {
                        let pc = if t >= 0x3000 && t < 0xFE00 { t } else { 0x3000 + (t % 0x100) };
                        pokes.push((pc, word(0x8000, 0xFFFF)));
                        m.set_reg(out, 6, word(t, 0xFFFF));
                        (pc, 2)
                    }
                    _ => {
                        // TRAP with a pointer argument aimed at t (PUTS / PUTSP / OUT): the OS dereferences it
                        let pc = 0x3100 + rng.random_range(0..0x100u16);
                        let v = pick(&mut rng, &[0x22u16, 0x24, 0x21, 0x20, 0x30]);
                        pokes.push((pc, word(0xF000 | v, 0xFFFF)));
                        pokes.push((pc.wrapping_add(1), word(0xF025, 0xFFFF)));
                        m.set_reg(out, 0, word(t, 0xFFFF));
                        m.set_reg(out, 6, word(0xF000, 0xFFFF));
                        (pc, 60)
                    }
                };
                m.set_mems(out, &pokes);
                if same_value && matches!(mode, "ST" | "STR" | "STI") { let cur = m.sim.mem[t]; m.set_reg(out, sr as u8, cur); }
                if strict && mode == "RTI" && chance(&mut rng, 50) { m.set_reg(out, 6, word(t, 0)); }
                m.set_pc(out, pc);
                for _ in 0..steps {
                    let r = m.step(out, false, false);
                    if r == "panic" { break; }
                }
                m.end(out);
            }
        }
    }
    run - run0
}

/// C16: PC at every page boundary, all 16 flag combinations, devices and mappings attached.
pub fn gen_edge(a: &Args, out: &mut Out, run0: u64, stride: u16) -> u64 {
    let mut rng = StdRng::seed_from_u64(a.seed.wrapping_mul(0x9E3779B97F4A7C15) ^ 0x6666 ^ run0);
    let mut run = run0;
    let mut combo = 0u32;
    let mut page = 0u32;
    while page < 256 {
        for lowb in [0x00u16, 0xFF] {
            let pc = ((page as u16) << 8) | lowb;
            let flags = SimFlags {
                strict: combo & 1 != 0, use_real_traps: combo & 2 != 0,
                machine_init: MachineInitStrategy::Known { value: rng.random() },
                debug_frames: combo & 4 != 0, ignore_privilege: combo & 8 != 0,
            };
            combo += 1;
            let mut m = M::new(run, flags, out);
            run += 1;
            if chance(&mut rng, 30) { m.add_timer(out, rng.random(), 1, 3, 0x81, rng.random_range(0..8), true); }
            if chance(&mut rng, 30) { m.mmap(out, 0xFE30, pick(&mut rng, &[InternalRegister::PC, InternalRegister::PSR, InternalRegister::MCR, InternalRegister::SavedSP])); }
            if chance(&mut rng, 30) { m.keys(out, &[1, 2, 3]); }
            if chance(&mut rng, 50) { m.set_psr(out, rng.random()); }
            for r in 0..8u8 { if chance(&mut rng, 70) { let x = rand_word(&mut rng); m.set_reg(out, r, x); } }
            let mut pokes = vec![];
            for d in 0..3u16 { pokes.push((pc.wrapping_add(d), word(rand_instr(&mut rng), if chance(&mut rng, 85) { 0xFFFF } else { rng.random() }))); }
            // the word at xFFFF / x0000 matters for wrap-around
            if chance(&mut rng, 50) { pokes.push((0xFFFF, word(rand_instr(&mut rng), 0xFFFF))); pokes.push((0, word(rand_instr(&mut rng), 0xFFFF))); }
            m.set_mems(out, &pokes);
            m.set_pc(out, pc);
            for _ in 0..rng.random_range(1..5) {
                if m.step(out, false, false) == "panic" { break; }
                m.prefetch_pc(out);
            }
            m.end(out);
        }
        page += stride as u32;
    }
    run - run0
}

// ---------------------------------------------------------------------------
/// Boundary-value scenarios: ALU results at x7FFF/x8000/0/xFFFF, effective addresses that wrap
/// around xFFFF/x0000 (supervisor or privilege checks off), MMIO stores of arbitrary values to
/// every device and internal-register port, RTI popping unusual PSR words, interrupts on the
/// vectors that alias the exception vectors, JSR/TRAP at the last address.
pub fn gen_bound(a: &Args, out: &mut Out, run0: u64, reps: u64) -> u64 {
    let mut rng = StdRng::seed_from_u64(a.seed.wrapping_mul(0x9E3779B97F4A7C15) ^ 0x7171 ^ run0);
    let mut run = run0;
    let edge: [u16; 8] = [0x7FFF, 0x8000, 0x0000, 0xFFFF, 0x0001, 0x7FFE, 0x8001, 0xFFFE];
    for _ in 0..reps {
        for case in 0..13u32 {
            for sub in 0..8u32 {
                let sup = case != 4 || sub % 2 == 0;
                let flags = SimFlags {
                    strict: chance(&mut rng, 20), use_real_traps: chance(&mut rng, 50),
                    machine_init: MachineInitStrategy::Known { value: pick(&mut rng, &[0u16, 0xFFFF]) },
                    debug_frames: chance(&mut rng, 50), ignore_privilege: chance(&mut rng, 25),
                };
                let flags = if case == 7 { SimFlags { use_real_traps: sub >= 4, strict: false, ..flags } }
                            else if case == 10 { SimFlags { strict: true, ignore_privilege: false, ..flags } }
                            else if case == 11 { SimFlags { debug_frames: true, strict: false, ..flags } } else { flags };
                let mut m = M::new(run, flags, out); run += 1;
                let psr = (if sup { 0 } else { 0x8000 }) | (rng.random_range(0..(if case == 7 { 7 } else { 8 })) << 8) | pick(&mut rng, &[1u16, 2, 4]);
                m.set_psr(out, psr);
                let pc: u16 = if sup { pick(&mut rng, &[0x1000u16, 0x0300, 0x3000, 0x2FFE]) } else { 0x3000 + rng.random_range(0..0x100u16) };
                let mut pokes: Vec<(u16, Word)> = vec![];
                let mut pcs = pc;
                match case {
                    0 => { // ADD/AND/NOT with results at the sign boundaries
                        let want = edge[sub as usize];
                        let x: u16 = rng.random();
                        m.set_reg(out, 1, word(x, 0xFFFF));
                        m.set_reg(out, 2, word(want.wrapping_sub(x), 0xFFFF));
                        m.set_reg(out, 3, word(want, 0xFFFF));
                        m.set_reg(out, 4, word(!want, 0xFFFF));
                        pokes.push((pc, word(0x1042, 0xFFFF)));           // ADD R0, R1, R2
                        pokes.push((pc + 1, word(0x5AC3, 0xFFFF)));       // AND R5, R3, R3
                        pokes.push((pc + 2, word(0x9D3F, 0xFFFF)));       // NOT R6, R4
                        pokes.push((pc + 3, word(0x16FF, 0xFFFF)));       // ADD R3, R3, #-1
                        pokes.push((pc + 4, word(0x16E1, 0xFFFF)));       // ADD R3, R3, #1
                        pokes.push((pc + 5, word(0x0E01, 0xFFFF)));       // BRnzp +1
                    }
                    1 => { // loads of boundary values: LD, LDR, LDI set the condition codes
                        let want = edge[sub as usize];
                        pokes.push((pc, word(0x2004, 0xFFFF)));           // LD R0, +4
                        pokes.push((pc + 1, word(0x6240, 0xFFFF)));       // LDR R1, R1, #0
                        pokes.push((pc + 2, word(0xA403, 0xFFFF)));       // LDI R2, +3
                        pokes.push((pc + 3, word(0x0401, 0xFFFF)));       // BRz +1
                        pokes.push((pc + 5, word(want, 0xFFFF)));
                        pokes.push((pc + 6, word(pc + 5, 0xFFFF)));
                        m.set_reg(out, 1, word(pc + 5, 0xFFFF));
                    }
                    2 | 3 => { // LDR / STR whose base + offset wraps around the address space
                        let off: i16 = pick(&mut rng, &[-1i16, -5, -32, 1, 2, 31]);
                        let base: u16 = if off < 0 { rng.random_range(0..(-off) as u16) } else { 0xFFFFu16 - rng.random_range(0..off as u16) };
                        m.set_reg(out, 2, word(base, 0xFFFF));
                        m.set_reg(out, 3, word(rng.random(), 0xFFFF));
                        let op = if case == 2 { 0x6000 } else { 0x7000 };
                        pokes.push((pc, word(op | (3 << 9) | (2 << 6) | ((off as u16) & 0x3F), 0xFFFF)));
                        pokes.push((base.wrapping_add(off as u16), word(0x1234, 0xFFFF)));
                    }
                    4 => { // PC-relative addressing that wraps: code at the very top / bottom of memory
                        pcs = pick(&mut rng, &[0xFFFEu16, 0xFFFF, 0x0000, 0x0001]);
                        let off: u16 = pick(&mut rng, &[0x1FFu16, 0x1FE, 0x001, 0x002, 0x100, 0x0FF]);
                        let op = pick(&mut rng, &[0x2000u16, 0x3000, 0xA000, 0xB000, 0xE000, 0x0E00, 0x4800]);
                        pokes.push((pcs, word(op | (if op == 0x4800 { off & 0x7FF } else { off }), 0xFFFF)));
                    }
                    5 => { // MMIO stores of arbitrary values (STI) and loads back (LDI), every port in turn
                        let port = [0xFE00u16, 0xFE02, 0xFE04, 0xFE06, 0xFFFC, 0xFFFE, 0xFE20, 0xFE22][sub as usize];
                        let vals: [u16; 4] = [
                            pick(&mut rng, &[0x8000u16, 0xBFFF, 0x8001, 0xA5A5]) ,
                            pick(&mut rng, &[0xC000u16, 0x4000, 0x7FFF, 0xFFFF]),
                            pick(&mut rng, &[0x0000u16, 0x8007, 0x0700, 0x8300, 0x0003]),
                            rng.random(),
                        ];
                        m.mmap(out, 0xFE20, InternalRegister::SavedSP);
                        m.mmap(out, 0xFE22, InternalRegister::PC);
                        m.keys(out, &[b'z']);
                        for (i, v) in vals.iter().enumerate() { m.set_reg(out, 1 + i as u8, word(*v, 0xFFFF)); }
                        // STI R1..R4 / LDI R5 through the pointer at pc+12
                        for i in 0..4u16 {
                            pokes.push((pc + 2 * i, word(0xB000 | ((1 + i) << 9) | ((12 - 2 * i - 1) & 0x1FF), 0xFFFF)));
                            pokes.push((pc + 2 * i + 1, word(0xAA00 | ((12 - 2 * i - 2) & 0x1FF), 0xFFFF)));
                        }
                        pokes.push((pc + 8, word(0x1021, 0xFFFF)));
                        pokes.push((pc + 12, word(port, 0xFFFF)));
                    }
                    6 => { // RTI popping unusual PSR words
                        let sp: u16 = 0x2F00 + rng.random_range(0..0x40u16);
                        let newpsr: u16 = pick(&mut rng, &[0x8010u16, 0x8000, 0x0007, 0x8003, 0xFFFF, 0x0000, 0x8702, 0x0F02, 0x8006]);
                        m.set_reg(out, 6, word(sp, 0xFFFF));
                        pokes.push((sp, word(0x3100, 0xFFFF)));
                        pokes.push((sp + 1, word(newpsr, 0xFFFF)));
                        pokes.push((pc, word(0x8000, 0xFFFF)));
                        pokes.push((0x3100, word(0x0601, 0xFFFF)));       // BRzp +1
                        pokes.push((0x3101, word(0x0801, 0xFFFF)));       // BRn +1
                        pokes.push((0x3102, word(0x1021, 0xFFFF)));
                        pokes.push((0x3103, word(0x1021, 0xFFFF)));
                    }
                    7 => { // interrupts whose vectors alias the exception vectors (x100-x102) or the HALT vector number
                        let s1 = m.add_intfn(out);
                        let vect: u8 = [0x00u8, 0x01, 0x02, 0x25, 0x00, 0x01, 0x02, 0x80][sub as usize];
                        m.set_int(s1, IntCmd { k: 1, vect, prio: 7 });
                        m.set_reg(out, 6, word(pick(&mut rng, &[0x2F00u16, 0x2F80, 0x3000]), 0xFFFF));
                        pokes.push((pc, word(0x1021, 0xFFFF)));
                        pokes.push((pc + 1, word(0x1021, 0xFFFF)));
                    }
                    8 => { // stack pointer at the bottom of memory when a trap / exception is entered
                        m.set_reg(out, 6, word(pick(&mut rng, &[0x0000u16, 0x0001, 0x0002, 0xFFFF]), 0xFFFF));
                        if !sup { m.mmap(out, 0xFE20, InternalRegister::SavedSP); m.write_mem(out, 0xFE20, word(pick(&mut rng, &[0u16, 1, 2]), 0xFFFF), MemAccessCtx::omnipotent()); }
                        pokes.push((pc, word(pick(&mut rng, &[0xF021u16, 0xF030, 0xD000, 0x8000]), 0xFFFF)));
                    }
                    10 => { // strict mode: a return that is rejected (R7 uninitialized, or pointing at uninitialized
                            // memory) while a frame is open; the harness clobbers R7 between the call and the return
                        pcs = 0x3000;
                        pokes.push((0x3000, word(0x4802, 0xFFFF)));       // JSR +2 -> x3003
                        pokes.push((0x3001, word(0x1021, 0xFFFF)));
                        pokes.push((0x3003, word(if sub % 2 == 0 { 0xC1C0 } else { 0x1021 }, 0xFFFF)));  // RET | ADD
                        pokes.push((0x3004, word(0xC1C0, 0xFFFF)));       // RET
                        m.set_mems(out, &pokes);
                        pokes.clear();
                        m.set_psr(out, 0x8002);
                        m.set_pc(out, pcs);
                        if m.step(out, false, false) == "panic" { continue; }
                        let bad_r7 = match sub % 4 { 0 | 1 => word(0x3001, 0x0000), 2 => word(0x5000, 0xFFFF), _ => word(0x3001, 0xFF00) };
                        m.set_reg(out, 7, bad_r7);
                        pcs = m.sim.pc;
                    }
                    11 => { // a subroutine with a calling-convention signature entered while the stack pointer sits at the
                            // bottom or at the top of memory: the argument slots FP+4.. wrap around the address space
                        let n = 1 + (sub as usize % 3);
                        let r6: u16 = [0u16, 1, 2, 3, 0xFFFF, 0xFFFE, 0xFFFD, 4][sub as usize];
                        m.set_reg(out, 6, word(r6, 0xFFFF));
                        m.srdef(out, pc.wrapping_add(2), Some(n), &[]);
                        pokes.push((pc, word(0x4801, 0xFFFF)));           // JSR +1
                        pokes.push((pc + 2, word(0x1021, 0xFFFF)));
                        pokes.push((pc + 3, word(0xC1C0, 0xFFFF)));       // RET
                        for (i, a) in [0xFFFBu16, 0xFFFC, 0xFFFD, 0xFFFE, 0xFFFF, 0, 1, 2, 3, 4, 5, 6].iter().enumerate() { pokes.push((*a, word(0x1100 + i as u16, 0xFFFF))); }
                    }
                    12 => { // JSRR and JMP through every base register (R7 included: the target is read before the link)
                        let target: u16 = 0x3400 + rng.random_range(0..0x40u16);
                        for r in 0..8u8 { m.set_reg(out, r, word(0x3500 + r as u16, 0xFFFF)); }
                        m.set_reg(out, sub as u8, word(target, 0xFFFF));
                        pokes.push((pc, word(0x4000 | ((sub as u16) << 6), 0xFFFF)));          // JSRR Rsub
                        pokes.push((target, word(0x1021, 0xFFFF)));
                        pokes.push((target + 1, word(0xC000 | ((sub as u16) << 6), 0xFFFF)));   // JMP Rsub
                        pokes.push((pc + 1, word(0x1021, 0xFFFF)));
                    }
                    _ => { // JSR / JSRR / TRAP / BR placed at the last address, RET to x0000
                        pcs = 0xFFFF;
                        pokes.push((0xFFFF, word(pick(&mut rng, &[0x4801u16, 0x4080, 0xF021, 0x0E00, 0xC1C0, 0x1021]), 0xFFFF)));
                        pokes.push((0x0000, word(0x1021, 0xFFFF)));
                        m.set_reg(out, 2, word(0x0000, 0xFFFF));
                        m.set_reg(out, 7, word(0x0000, 0xFFFF));
                        m.set_reg(out, 6, word(0x2F00, 0xFFFF));
                    }
                }
                m.set_mems(out, &pokes);
                m.set_pc(out, pcs);
                let nsteps = if case == 7 || case == 0 { 6 } else { 4 };
                for _ in 0..nsteps {
                    if m.step(out, false, false) == "panic" { break; }
                    if case == 9 || case == 4 { m.prefetch_pc(out); }
                }
                m.prefetch_pc(out);
                m.end(out);
            }
        }
    }
    run - run0
}

pub fn emit_machine(a: &Args, out: &mut Out) {
    M::emit_os(out);
    let kind = a.get_str("kind", "all").to_string();
    if a.get_u64("dbg", 0) == 1 { FORCE_DBG.store(true, std::sync::atomic::Ordering::Relaxed); }
    if kind == "adv" { gen_adv(a, out, 1, a.get_u64("reps", if a.thorough() { 6 } else { 1 })); return; }
    if kind == "load" { crate::scen2::gen_load(a, out, 1, a.get_u64("n", if a.thorough() { 400 } else { 40 })); return; }
    if kind == "reset" { crate::scen2::gen_reset(a, out, 1, a.get_u64("n", if a.thorough() { 300 } else { 30 })); return; }
    // (a seeded machine logs its whole memory in the header: the thorough file is kept below 100 MB, which TLC reads in minutes)
    if kind == "repro" { let n = a.get_u64("n", if a.thorough() { 80 } else { 20 }); crate::scen2::gen_repro(a, out, 1, n); crate::scen2::gen_repro_reset(a, out, 1 + 2 * n, if a.thorough() { 30 } else { n }); return; }
    // (headers of seeded and fully initialized machines carry the whole memory: the thorough files stay below 100 MB)
    if kind == "strictpairs" { crate::scen2::gen_strict_pairs(a, out, 1, a.get_u64("n", if a.thorough() { 160 } else { 40 }), false); return; }
    if kind == "strictfull" { crate::scen2::gen_strict_pairs(a, out, 1, a.get_u64("n", if a.thorough() { 60 } else { 20 }), true); return; }
    if kind == "run" { crate::scen2::gen_run(a, out, 1, a.get_u64("n", if a.thorough() { 300 } else { 30 }), a.get_u64("np", if a.thorough() { 150 } else { 15 })); return; }
    if kind == "transparent" { crate::scen3::gen_transparent(a, out); return; }
    if kind == "traps" { crate::scen3::gen_traps(a, out); return; }
    if kind == "trapmode" { crate::scen3::gen_trapmode(a, out); return; }
    if kind == "locks" { crate::scen3::gen_locks(a, out); return; }
    if kind == "devices" { crate::scen3::gen_devices(a, out); return; }
    if kind == "obsrun" { crate::scen3::gen_obsrun(a, out); return; }
    if kind == "timeropen" { crate::scen3::gen_timeropen(a, out); return; }
    if kind == "bound" { gen_bound(a, out, 1, a.get_u64("reps", if a.thorough() { 10 } else { 1 })); return; }
    if kind == "long" { gen_long(a, out, a.get_u64("steps", 8700) as u32); return; }
    if kind == "edge" { gen_edge(a, out, 1, a.get_u64("stride", if a.thorough() { 1 } else { 3 }) as u16); return; }
    let scale = if a.thorough() { 12 } else { 1 };
    let n = |k: &str, d: u64| a.get_u64(k, d * scale);
    let strict = a.get_u64("strict", 0) as u32;
    let mut run0 = 1;
    if kind == "all" || kind == "rand" { let c = n("nrand", 120); gen_rand(a, out, run0, c, strict); run0 += c; }
    if kind == "all" || kind == "prog" { let c = n("nprog", 32); gen_prog(a, out, run0, c, strict, 400); run0 += c; }
    if kind == "all" || kind == "int"  { let c = n("nint", 24); gen_int(a, out, run0, c, 300); run0 += c; }
    if kind == "all" || kind == "full" { let c = n("nfull", 4); gen_full(a, out, run0, c); run0 += c; }
    if kind == "all" { gen_bound(a, out, run0, if a.thorough() { 8 } else { 1 }); }
}
