//! Lexer / parser domains (C03, C04, C05, C36): texts through the real `parse_ast`
//! (and the real lexer through `Parser`), recorded for spec/Lexer.tla + spec/Grammar.tla.

use crate::asmgen::{self, chance, pick, GStmt, Style};
use crate::objs::cfg_for;
use crate::{js, Args, Out};
use lc3_ensemble::asm::{assemble, SymbolTable};
use lc3_ensemble::ast::asm::Stmt;
use lc3_ensemble::err::Error as _;
use lc3_ensemble::parse::lex::Token;
use lc3_ensemble::parse::{parse_ast, Parser};
use rand::rngs::StdRng;
use rand::{Rng, SeedableRng};
use serde_json::{json, Value};

fn rng_for(a: &Args, salt: u64) -> StdRng { StdRng::seed_from_u64(a.seed.wrapping_mul(0x9E3779B97F4A7C15) ^ salt) }

/// Outcome of `parse_ast`: ("ok", stmts) | ("err", span, message) | ("panic").
pub fn parse_json(text: &str) -> Value {
    match js::guard(|| parse_ast(text)) {
        Err(()) => json!({"res": "panic", "stmts": [], "span": [-1, -1], "msg": "", "spanq": 0}),
        Ok(Ok(ast)) => json!({"res": "ok", "stmts": ast.iter().map(js::stmt).collect::<Vec<_>>(), "span": [-1, -1], "msg": "", "spanq": 0}),
        Ok(Err(e)) => {
            let sp = js::guard(|| e.span().map(|s| { let f = s.first(); (f.start, f.end, s.iter().count()) }));
            let msg: String = e.to_string().chars().filter(|c| c.is_ascii() && *c != '"' && *c != '\\').collect();
            match sp {
                Ok(Some((s, en, n))) => json!({"res": "err", "stmts": [], "span": [s, en], "msg": msg, "spanq": n}),
                Ok(None) => json!({"res": "err", "stmts": [], "span": [-1, -1], "msg": msg, "spanq": 0}),
                Err(()) => json!({"res": "panic", "stmts": [], "span": [-1, -1], "msg": "span panicked", "spanq": 0}),
            }
        }
    }
}

/// What assembling the text gives: result kind, image, labels (for the layout-insensitivity relation).
fn asm_digest(text: &str) -> Value {
    let r = js::guard(|| {
        let ast = parse_ast(text).map_err(|_| "noparse")?;
        let st = SymbolTable::new(&ast, None).map_err(|e| crate::objs::kind_name(&e.kind))?;
        let mut labels: Vec<(String, u16, bool)> = st.label_iter().map(|(k, a, x)| (k.to_string(), a, x)).collect();
        labels.sort();
        let o = assemble(ast).map_err(|e| crate::objs::kind_name(&e.kind))?;
        let image: Vec<Value> = o.addr_iter().map(|(a, w)| json!([a, w.map(|v| v as i64).unwrap_or(-1)])).collect();
        Ok::<_, &'static str>((image, labels))
    });
    match r {
        Err(()) => json!({"res": "panic", "image": [], "labels": []}),
        Ok(Err(k)) => json!({"res": k, "image": [], "labels": []}),
        Ok(Ok((image, labels))) => json!({"res": "ok", "image": image,
            "labels": labels.iter().map(|(k, a, x)| json!([js::text(k), a, *x as u8])).collect::<Vec<_>>()}),
    }
}

/// `lc3v emit parse`: generated statement lists, each rendered twice with different surface syntax.
pub fn emit_parse(a: &Args, out: &mut Out) {
    let mut rng = rng_for(a, 0x9a5);
    let n = a.get_u64("n", if a.thorough() { 2500 } else { 220 });
    for run in 1..=n {
        let faults = if chance(&mut rng, 20) { 60 } else { 0 };
        let mut cfg = cfg_for(&mut rng, a.thorough(), faults);
        cfg.max_body = cfg.max_body.min(20);
        let prog = asmgen::gen_program(&mut rng, &cfg);
        let mut variants = vec![];
        for v in 0..2 {
            let st = if v == 0 && chance(&mut rng, 30) { Style::plain() } else { Style::random(&mut rng) };
            let r = asmgen::render(&mut rng, &prog, &st);
            let mut pj = parse_json(&r.text);
            pj["src"] = js::bytes(r.text.as_bytes());
            pj["asm"] = asm_digest(&r.text);
            // where the generator put the pieces (byte offsets): nucleus and label spans
            pj["gspans"] = Value::Array(r.nucleus_spans.iter().map(|(s, e)| json!([s, e])).collect());
            pj["glabels"] = Value::Array(r.label_spans.iter().map(|ls| Value::Array(ls.iter().map(|(s, e)| json!([s, e])).collect())).collect());
            variants.push(pj);
        }
        out.emit(json!({"ev": "Parse", "run": run, "gen": prog.iter().map(|g| g.json()).collect::<Vec<_>>(), "variants": variants, "panic": 0}));
    }
}

// ---------------------------------------------------------------------------
// C05

fn token_json(text: &str) -> Value {
    // the real lexer, through the public Parser: exactly one token expected
    match js::guard(|| Parser::new(text)) {
        Err(()) => json!({"k": "panic", "v": 0, "n": 0}),
        Ok(Err(_)) => json!({"k": "E", "v": 0, "n": 0}),
        Ok(Ok(mut p)) => {
            let mut toks = vec![];
            while let Some((t, _)) = p.peek() {
                toks.push(match t {
                    Token::Unsigned(v) => ("U", *v as i64),
                    Token::Signed(v) => ("S", *v as i64),
                    Token::Reg(r) => ("R", *r as i64),
                    Token::Ident(_) => ("I", 0),
                    _ => ("O", 0),
                });
                p.advance();
            }
            if toks.len() == 1 { json!({"k": toks[0].0, "v": toks[0].1, "n": 1}) } else { json!({"k": "M", "v": 0, "n": toks.len()}) }
        }
    }
}

/// The operand as each field sees it: (field name, template with `{}`), value read back from the statement.
const FIELDS: [(&str, &str, &str); 11] = [
    ("imm5", "ADD R0, R0, {}", "c"), ("off6", "LDR R0, R0, {}", "c"), ("pc9", "LD R0, {}", "b"), ("br9", "BRnz {}", "b"),
    ("pc11", "JSR {}", "a"), ("trap8", "TRAP {}", "a"), ("orig", ".orig {}", "a"), ("blkw", ".blkw {}", "a"), ("fill", ".fill {}", "a"),
    ("nop9", "NOP {}", "a"), ("reg", "NOT {}, R0", "a"),
];

fn field_json(text: &str) -> Value {
    let mut v = vec![];
    for (f, tpl, fld) in FIELDS.iter() {
        let src = tpl.replace("{}", text);
        let r = js::guard(|| parse_ast(&src));
        v.push(match r {
            Err(()) => json!({"f": f, "ok": -1, "v": 0}),
            Ok(Err(_)) => json!({"f": f, "ok": 0, "v": 0}),
            Ok(Ok(ast)) => {
                if ast.len() != 1 { json!({"f": f, "ok": 0, "v": 0}) } else {
                    let n = js::nucleus(&ast[0].nucleus);
                    // a label operand is not a number
                    if n["m"] == 2 { json!({"f": f, "ok": 2, "v": 0}) } else { json!({"f": f, "ok": 1, "v": n[*fld]}) }
                }
            }
        });
    }
    Value::Array(v)
}

fn spellings(v: i64) -> Vec<String> {
    let mut s = vec![];
    if v >= 0 {
        s.push(format!("{v}")); s.push(format!("#{v}")); s.push(format!("x{v:X}")); s.push(format!("X{v:x}"));
        s.push(format!("0{v}")); s.push(format!("#00{v}")); s.push(format!("x0{v:x}")); s.push(format!("x000{v:X}"));
    }
    if v <= 0 {
        let n = -v;
        s.push(format!("-{n}")); s.push(format!("#-{n}")); s.push(format!("x-{n:X}")); s.push(format!("X-{n:x}"));
        s.push(format!("-0{n}")); s.push(format!("#-00{n}")); s.push(format!("x-0{n:x}"));
    }
    s
}

/// `lc3v emit num [lo=.. hi=..]`: numeric and register spellings as bare tokens and as operands of every field.
pub fn emit_num(a: &Args, out: &mut Out) {
    let mut rng = rng_for(a, 0x05);
    let mut vals: std::collections::BTreeSet<i64> = std::collections::BTreeSet::new();
    if let (Some(lo), Some(hi)) = (a.kv.get("lo"), a.kv.get("hi")) {
        let (lo, hi): (i64, i64) = (lo.parse().unwrap(), hi.parse().unwrap());
        for v in lo..=hi { vals.insert(v); }
    } else {
        for p in 0..=17u32 { for d in -4i64..=4 { let x = (1i64 << p) + d; vals.insert(x); vals.insert(-x); } }
        for d in -4i64..=4 { for b in [0i64, 32767, 32768, 65535, 65536, 70000, 100000, 140000, -32768, -32769, -65536, -70000] { vals.insert(b + d); } }
        for _ in 0..(if a.thorough() { 4000 } else { 400 }) { vals.insert(rng.random_range(-70000..=140000)); }
    }
    let fields_every = a.get_u64("fields", 1);
    let mut k = 0u64;
    for &v in &vals {
        for sp in spellings(v) {
            k += 1;
            let fields = if fields_every == 1 || k % fields_every == 0 { field_json(&sp) } else { json!([]) };
            out.emit(json!({"ev": "Num", "text": js::bytes(sp.as_bytes()), "tok": token_json(&sp), "fields": fields, "panic": 0}));
        }
    }
    if a.kv.get("lo").is_none() {
        // huge values, malformed spellings, registers
        let odd = ["99999999999", "#99999999999", "-99999999999", "xFFFFFFFFF", "x-FFFFFFFFF", "4294967296", "65536", "-32769", "x10000", "x-8001", "x-8000",
                   "#", "#-", "x", "x-", "-", "12a", "xG", "#x10", "--5", "1_000", "x1_0", "#1#", "-x5", "0x10", "x", "X", "#-x5", "##5", "-#5", "1e5", "x-", "-0", "#-0", "x-0",
                   "00000000000000000001", "x00000000000000001", "#-000000000000000000005", "\u{663}", "1\u{663}", "R\u{663}"];
        for sp in odd { out.emit(json!({"ev": "Num", "text": js::bytes(sp.as_bytes()), "tok": token_json(sp), "fields": field_json(sp), "panic": 0})); }
        for r in ["R0", "r0", "R7", "r7", "R8", "r8", "R9", "R10", "R07", "R007", "R00", "R255", "R256", "R99999999999", "R", "r", "R-1", "R1a", "RR1", "R 1", "R1R", "r3", "R5"] {
            out.emit(json!({"ev": "Num", "text": js::bytes(r.as_bytes()), "tok": token_json(r), "fields": field_json(r), "panic": 0}));
        }
    }
}

// ---------------------------------------------------------------------------
// C36

pub fn emit_print(a: &Args, out: &mut Out) {
    let mut rng = rng_for(a, 0x36);
    let n = a.get_u64("n", if a.thorough() { 1500 } else { 150 });
    let mut emit_stmt = |out: &mut Out, st: &Stmt| {
        let printed = js::guard(|| st.to_string());
        match printed {
            Err(()) => out.emit(json!({"ev": "Print", "stmt": js::stmt(st), "text": [], "re": {"res": "panic", "stmts": [], "span": [-1, -1], "msg": "", "spanq": 0}, "panic": 1})),
            Ok(t) => out.emit(json!({"ev": "Print", "stmt": js::stmt(st), "text": js::bytes(t.as_bytes()), "re": parse_json(&t), "panic": 0})),
        }
    };
    for _ in 0..n {
        let mut cfg = cfg_for(&mut rng, a.thorough(), 0);
        cfg.max_body = cfg.max_body.min(12);
        let prog = asmgen::gen_program(&mut rng, &cfg);
        let st = Style::random(&mut rng);
        let text = asmgen::render(&mut rng, &prog, &st).text;
        if let Ok(ast) = parse_ast(&text) { for s in &ast { emit_stmt(out, s); } }
    }
    // every instruction form with numeric operands at the field limits, several labels, NOP forms, .fill forms
    let extra = "A B: C ADD R0, R1, #-16\nAND r7, r7, xF\nNOP\nNOP #5\nNOP #-256\nNOP L\nBR #255\nBRn #-256\nBRnzp L\nJSR #-1024\nJSR #1023\nLDR R1, R2, #-32\nSTR R1, R2, #31\nTRAP x00\nTRAP xFF\n.fill xFFFF\n.fill -1\n.fill #-32768\n.fill L\n.blkw 65535\n.orig xFFFF\n.orig 0\n.stringz \"\"\n.stringz \"a\\\"b\\\\c\\n\\t\\r\\0'\"\n.external L\nRET\nRTI\nGETC\nOUT\nPUTC\nPUTS\nIN\nPUTSP\nHALT\nJMP R7\nJSRR R7\nLD R0, #0\nLEA R0, L\n";
    if let Ok(ast) = parse_ast(extra) { for s in &ast { emit_stmt(out, s); } }
}

// ---------------------------------------------------------------------------
// C04

fn garbage_record(text: &str, fam: &str) -> Value {
    let pj = parse_json(text);
    let mut rec = json!({"ev": "Garbage", "fam": fam, "len": text.len(), "res": pj["res"], "span": pj["span"], "spanq": pj["spanq"], "msg": pj["msg"], "panic": 0});
    if text.len() <= 300 { rec["src"] = js::bytes(text.as_bytes()); rec["stmts"] = pj["stmts"].clone(); rec["has"] = json!(1); } else { rec["src"] = json!([]); rec["stmts"] = json!([]); rec["has"] = json!(0); }
    rec
}

pub fn emit_garbage(a: &Args, out: &mut Out) {
    let mut rng = rng_for(a, 0x04);
    // (1) string-literal family: every string of up to L symbols after `.stringz "`
    let alpha: [&str; 8] = ["\"", "\\", "n", "a", "\u{e9}", "\n", "\r", " "];
    let maxlen = a.get_u64("len", if a.thorough() { 6 } else { 4 }) as usize;
    let mut frontier: Vec<String> = vec![String::new()];
    let mut all: Vec<String> = vec![String::new()];
    for _ in 0..maxlen {
        let mut next = vec![];
        for s in &frontier { for c in &alpha { next.push(format!("{s}{c}")); } }
        all.extend(next.iter().cloned());
        frontier = next;
    }
    for s in &all { out.emit(garbage_record(&format!(".stringz \"{s}"), "str")); }
    // (2) targeted edge cases
    let big = "a".repeat(70000);
    let edges: Vec<String> = vec![
        format!(".stringz \"{big}\""), format!(".stringz \"{big}"), format!("{big}"), format!(".fill {}", "9".repeat(5000)), format!("x{}", "F".repeat(5000)),
        ".stringz \"abc\\".into(), ".stringz \"abc\\\n".into(), ".stringz \"a\\\u{e9}\"".into(), ".stringz \"\\\u{1F600}\"".into(), "\"".into(), "\\".into(), "\"\\".into(),
        "caf\u{e9}: ADD R0, R0, #1".into(), "\u{e9}".into(), "ADD R0, R0, \u{663}".into(), "R\u{663}".into(), "x\u{663}".into(), "#\u{663}".into(), "-\u{663}".into(),
        "@".into(), "ADD R0 R0 R0".into(), "ADD R0,, R0".into(), ".orig".into(), ".".into(), ".\u{e9}".into(), ":".into(), ",".into(), ";".into(), "\r".into(), "\r\r\n".into(), "\n\n".into(),
        "LABEL".into(), "LABEL:".into(), "LABEL LABEL2".into(), "ADD".into(), "ADD R0".into(), ".stringz".into(), ".stringz 5".into(), ".blkw 0".into(), ".blkw -1".into(),
        "TRAP x100".into(), "ADD R0, R0, #16".into(), "ADD R8, R0, R0".into(), ".orig x10000".into(), "\u{0}".into(), "A\u{0}B".into(), "\u{feff}.orig x3000".into(),
        "ADD R0, R0, #1 ; c\u{e9}\r\n.end".into(), "\t\t\t".into(), String::new(), " ".into(), "####".into(), "-#-#".into(), "x-".into(), "##-".into(),
    ];
    for e in &edges { out.emit(garbage_record(e, "edge")); }
    // (3) random unicode strings
    let pool: Vec<char> = "ADRBLTNPxX#-.,:;\"\\ \t\n\r0123456789abcdefgRr_\u{e9}\u{4e16}\u{1F600}\u{0}\u{7f}\u{85}\u{a0}@!$%^&*()[]{}<>/?'`~|=+".chars().collect();
    let nrand = a.get_u64("rand", if a.thorough() { 30000 } else { 3000 });
    for _ in 0..nrand {
        let n = rng.random_range(0..24);
        let s: String = (0..n).map(|_| if chance(&mut rng, 5) { char::from_u32(rng.random_range(0..0x11000)).unwrap_or('?') } else { pool[rng.random_range(0..pool.len())] }).collect();
        out.emit(garbage_record(&s, "rand"));
    }
    // (4) valid programs with byte-level mutations
    let nmut = a.get_u64("mut", if a.thorough() { 20000 } else { 2000 });
    for _ in 0..nmut {
        let cfg = cfg_for(&mut rng, false, 30);
        let prog = asmgen::gen_program(&mut rng, &cfg);
        let st = Style::random(&mut rng);
        let mut b = asmgen::render(&mut rng, &prog, &st).text.into_bytes();
        for _ in 0..rng.random_range(1..4) {
            if b.is_empty() { break; }
            let i = rng.random_range(0..b.len());
            match rng.random_range(0..6) {
                0 => b[i] = *pick(&mut rng, &[b'"', b'\\', b'\n', b'\r', b';', b':', b',', b'#', b'-', b'x', b'.', b' ', 0xC3, 0xA9, 0]),
                1 => { b.remove(i); }
                2 => { b.insert(i, *pick(&mut rng, &[b'"', b'\\', b'\n', b'\r', b'#', b'-', b'9', b'R'])); }
                3 => { b.truncate(i); }
                4 => { let j = (i + rng.random_range(1..12)).min(b.len()); let seg = b[i..j].to_vec(); for (k, x) in seg.into_iter().enumerate() { b.insert(i + k, x); } }
                _ => { b[i] = rng.random(); }
            }
        }
        let s = String::from_utf8_lossy(&b).into_owned();
        out.emit(garbage_record(&s, "mut"));
    }
    let _ = GStmt::default();
}


// ---------------------------------------------------------------------------
// RP: every rendering enumerated by TLC (spec/MC_Grammar.tla, RP configuration) through the real parser
/// `lc3v replay parse hist=<file>`: a history is the byte string of one rendered source text.
pub fn replay_parse(a: &Args, out: &mut Out) {
    let hist = std::fs::read_to_string(a.get_str("hist", "")).expect("hist file");
    let mut run = 0u64;
    for line in hist.lines() {
        if line.trim().is_empty() { continue; }
        let b: Vec<u8> = serde_json::from_str::<Vec<u64>>(line).expect("history").iter().map(|&x| x as u8).collect();
        let Ok(text) = String::from_utf8(b.clone()) else { continue };
        run += 1;
        let mut pj = parse_json(&text);
        pj["ev"] = json!("Read"); pj["run"] = json!(run); pj["src"] = js::bytes(&b); pj["panic"] = json!(0);
        out.emit(pj);
    }
}
