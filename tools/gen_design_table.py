#!/usr/bin/env python3
"""Regenerates the table of DESIGN.md section 0.7 (legs and verdict names per property) from check.py.
Usage: python3 tools/gen_design_table.py  (rewrites the table in place between its header row and the
sentence that follows it)."""
import ast, os, re, sys
ROOT = os.path.dirname(os.path.dirname(os.path.abspath(__file__)))
src = open(os.path.join(ROOT, "check.py")).read()
tree = ast.parse(src)
consts = {}
for n in tree.body:
    if isinstance(n, ast.Assign) and len(n.targets) == 1 and isinstance(n.targets[0], ast.Name):
        try:
            consts[n.targets[0].id] = ast.literal_eval(n.value)
        except Exception:
            pass

def ev(node):
    """Best-effort evaluation of a verdict expression (lists, names of module constants, +)."""
    if node is None:
        return None
    if isinstance(node, ast.List):
        out = []
        for e in node.elts:
            v = ev(e)
            out.extend(v if isinstance(v, list) else [v])
        return out
    if isinstance(node, ast.Constant):
        return node.value
    if isinstance(node, ast.Name):
        if node.id == "CONF":
            return ["<full state conformance>"]
        if node.id == "PAIRV":
            return ["<pair relation>"]
        return consts.get(node.id, ["<%s>" % node.id])
    if isinstance(node, ast.BinOp) and isinstance(node.op, ast.Add):
        a, b = ev(node.left), ev(node.right)
        return (a if isinstance(a, list) else [a]) + (b if isinstance(b, list) else [b])
    if isinstance(node, ast.IfExp):
        return ev(node.orelse)
    return ["<expr>"]

def first_str(node):
    if isinstance(node, ast.Constant) and isinstance(node.value, str):
        return node.value
    if isinstance(node, ast.IfExp):
        return first_str(node.orelse)
    if isinstance(node, ast.BinOp):
        return first_str(node.left)
    return "?"

rows = {}
for fn in tree.body:
    if not isinstance(fn, ast.FunctionDef):
        continue
    pid = None
    for d in fn.decorator_list:
        if isinstance(d, ast.Call) and getattr(d.func, "id", "") == "check":
            pid = d.args[0].value
    if not pid:
        continue
    legs = []
    for call in ast.walk(fn):
        if not (isinstance(call, ast.Call) and isinstance(call.func, ast.Attribute)):
            continue
        kind = call.func.attr
        if kind not in ("mc_leg", "rec_leg", "trace_leg", "rp_leg", "rp_rec_leg", "rp_table_leg", "table_leg"):
            continue
        name = first_str(call.args[0]) if call.args else "?"
        kw = {k.arg: k.value for k in call.keywords}
        if kind == "mc_leg":
            legs.append((call.lineno, "MC `%s` (%s)" % (name, first_str(call.args[1]))))
            continue
        if kind in ("rp_leg", "rp_rec_leg", "rp_table_leg"):
            spec = first_str(call.args[1])
            tag = "RP"
        elif kind == "table_leg":
            spec = first_str(kw["spec"]) if "spec" in kw else "TV_Tables"
            tag = "TV"
        else:
            spec = first_str(kw["spec"]) if "spec" in kw else ("TV_Asm" if kind == "rec_leg" else "TV_Machine")
            tag = "TV"
        v = ev(kw.get("verdict"))
        if kind == "table_leg":
            txt = ""
        elif v is None:
            txt = ": every name"
        else:
            txt = ": " + ", ".join(str(x) for x in v)
        legs.append((call.lineno, "%s `%s` (%s)%s" % (tag, name, spec, txt)))
    legs.sort()
    seen, out = set(), []
    for _, l in legs:
        if l not in seen:
            seen.add(l); out.append(l)
    rows[pid] = out

table = ["| property | legs (kind `name` (specification): names that decide the property) |", "|---|---|"]
for pid in sorted(rows):
    table.append("| %s | %s |" % (pid, "<br>".join(rows[pid])))
text = "\n".join(table) + "\n"
p = os.path.join(ROOT, "DESIGN.md")
d = open(p).read()
i = d.index("| property | legs (kind `name`")
j = d.index("Names not listed for a leg", i)
d = d[:i] + text + "\n" + d[j:]
open(p, "w").write(d)
print("rewrote table: %d properties" % len(rows))
