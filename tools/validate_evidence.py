#!/usr/bin/env python3
"""Validate every /verif/evidence/<id>.json against the evidence schema and refuse records that were
written by a run which reported violations or explored nothing (run before committing evidence).
Uses jsonschema from the tooling venv when present (python3-vt); otherwise checks the level's keys by hand."""
import glob, json, os, sys
ROOT = os.path.dirname(os.path.dirname(os.path.abspath(__file__)))
SCHEMA = "/root/.vp/EVIDENCE.schema.json"
try:
    import jsonschema
    validator = jsonschema.Draft202012Validator(json.load(open(SCHEMA))) if os.path.exists(SCHEMA) else None
except ImportError:
    validator = None
claimed = [c["property_id"] for c in json.load(open(os.path.join(ROOT, "MANIFEST.json")))["checks"]]
bad = 0
for pid in claimed:
    f = os.path.join(ROOT, "evidence", pid + ".json")
    if not os.path.exists(f):
        print("MISSING", pid); bad += 1; continue
    d = json.load(open(f))
    c = d.get("coverage", {})
    errs = [e.message for e in validator.iter_errors(d)] if validator else []
    if d.get("property_id") != pid:
        errs.append("property_id is %r" % d.get("property_id"))
    if d.get("violations", 0) != 0:
        errs.append("written by a run that reported %d violation(s)" % d["violations"])
    for k in ("states", "transitions"):
        if not (isinstance(c.get(k), int) and c[k] >= 1):
            errs.append("coverage.%s = %r < 1" % (k, c.get(k)))
    if not c.get("samples"):
        errs.append("no samples")
    if errs:
        bad += 1
        print("INVALID", pid, "; ".join(errs))
print("%d evidence files checked, %d invalid%s" % (len(claimed), bad, "" if validator else " (jsonschema not importable: key checks only)"))
sys.exit(1 if bad else 0)
