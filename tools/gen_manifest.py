#!/usr/bin/env python3
"""Regenerates /verif/MANIFEST.json from META below + the checks registered in check.py."""
import json, os, sys
ROOT = os.path.dirname(os.path.dirname(os.path.abspath(__file__)))
sys.path.insert(0, ROOT)
import check

HOOK_COMMITS = ["80142e2", "fe501da"]

# per property: (technique, level text, level note, design ref)
META = {
 "C06": ("TLC: MC_Isa over all words/instructions + TLC table validation of real decode/encode (exhaustive)",
         "TLC model-checks Decode/Encode/Canonical of spec/Isa.tla against each other on all 65 536 words and all 40 273 representable instructions, and validates one record per word / per instruction produced by the real SimInstr::decode / encode against those operators and against the property's own statement (instruction iff canonical, error kinds, round trips). Exhaustive on the whole input space, which is the strongest level available for a finite pure function.",
         "Trusts TLC, the Json module, and the harness projection of SimInstr into records (harness/src/js.rs).", "5 (C06)"),
 "C07": ("TLC: MC_Isa (StmtWord(Disasm(w)) = w for all w) + TLC table validation of real disassemble/print/reassemble (exhaustive)",
         "For every 16-bit word the real disassemble_line, its Display text and the words produced by the real parser+assembler from that text at three origins are recorded; TLC checks the statement equals Isa!Disasm(w), the alias/.fill rules, and that every reassembled word equals w. MC_Isa proves the same round trip inside the specification for all words.",
         "Origins sampled at x0000, x3000, xFDFF (label-free statements encode address-independently).", "5 (C07)"),
 "C08": ("TLC trace validation of real step_in against Machine!StepIn (TV_Machine), full-state projection incl. diff of all memory words",
         "Every step_in of thousands of recorded executions of the real Simulator is validated by TLC against the TLA+ reference semantics Machine!StepIn: outcome, registers with masks, PC, PSR, saved SP, prefetch flag, MCR, frame stack, instruction count, access observer, keyboard/display buffers, timers and the diff of all 65 536 memory words must equal what the specification computes from the previous state. Scenarios: random machine states with random words at the PC (all opcodes and exception paths, real/virtual traps, privilege checks on/off, strict on/off), structured programs through the real OS image, interrupt schedules (harness devices of all priorities, keyboard interrupts, seeded timers), seeded full-memory images.",
         "Reference = spec/Machine.tla (written from the ISA and from reading sim.rs); trusts the harness projection (harness/src/machine.rs) and the hooks verif_saved_sp/verif_prefetch/verif_mask.", "5 (C08)"),
 "C09": ("TLC evaluates Isolation on every logged step of adversarial user-mode runs (TV_Machine)",
         "For adversarial user-mode states (each addressing mode aimed at each boundary address, real and virtual traps) TLC evaluates the action property Isolation on the logged step: while the machine stays in user mode every address marked by the observer or changed in the full memory diff lies in x3000..xFDFF, rejected attempts leave memory, keyboard and display unchanged, RTI is rejected; when the step enters supervisor mode only the vector entry and the two supervisor-stack pushes lie outside user space.",
         "Accesses are observed through the access observer and the full memory diff; privilege in effect is read from the PSR before/after the step.", "5 (C09)"),
 "C16": ("TLC trace validation: no Panic event, errors in SimErr, prefetch_pc value (TV_Machine)",
         "Random full-memory images, PC at every page boundary, all 16 flag combinations, devices and internal-register mappings attached; every public call runs under catch_unwind and a panic is a Panic event for which the specification has no action. TLC also checks every failure is a SimErr variant and prefetch_pc() equals (pc - [fetch done]) mod 2^16 as the specification defines it.",
         "Harness profile has overflow-checks and debug-assertions on (arithmetic overflow panics as in a debug build).", "5 (C16)"),
 "C27": ("TLC evaluates DepthOK (calls - returns, saturating) and exact frame records on every logged step (TV_Machine)",
         "DepthOK classifies each successful step from the fetched word and the logged outcome (JSR/JSRR/TRAP/interrupt/exception entry +1, RET/JMP R7/RTI -1 saturating) and requires the reported depth to follow; with debug frames on the frame list (caller, callee/vector, kind, frame pointer, arguments from registered or built-in signatures) is compared exactly with the specification's.",
         "Frame contents are compared against spec/Machine.tla FrameRec (transcribes frame.rs).", "5 (C27)"),
 "C28": ("TLC compares the observer map with the reference model's access sets and evaluates ObsProp on logged marks vs. the full memory diff (TV_Machine)",
         "After every event the whole observer map (READ/WRITTEN/MODIFIED per address) must equal what Machine!StepIn computes; ObsProp additionally states on the logged data alone that MODIFIED implies WRITTEN, every non-I/O word whose value changed is WRITTEN+MODIFIED and a WRITTEN-only word did not change; host accesses through untracked contexts must not alter the map.",
         "READ marks at I/O addresses are compared as the code produces them (the property exempts them).", "5 (C28)"),
 "C13": ("TLC trace validation of run-style calls against Run!RunCall (iterated Machine!StepF with first-stop-condition) + relational check segmented vs. unbroken execution (TV_Pairs)",
         "Every run, run_with_limit, step_over, step_out and run_while call of recorded sessions is validated by TLC against Run!RunCall, which is by construction repeated single steps up to the first instruction boundary where a documented stop condition holds (halt, error, breakpoint after an executed step, limit, tripwire, depth, MCR cleared); the number of steps, the outcome, the pause reason and the complete projection must match. Segmented executions (random pauses) are paired with one unbroken run and must end in the same state and instruction count.",
         "MCR clears by another thread are modelled at poll granularity (a harness device clears the flag during a chosen poll).", "5 (C13)"),
 "C14": ("TLC relational validation of lockstep strict/non-strict pairs of real runs (TV_Pairs) + StrictRel evaluated by TLC from every validated state (TV_Machine)",
         "Real simulators are driven in lockstep from identical states with strict mode off and on; TLC checks on the logged pair, step by step, that the strict run either fails with one of the nine strict errors or has exactly the non-strict outcome and projection (registers, PC, PSR, saved SP, memory diff, device buffers, instruction count, observer), and that on fully initialized machines no strict error occurs. Inside the specification, StrictRel evaluates both StepF variants from every validated machine state.",
         "Relation evaluated on logged data only; fully-initialized runs are not value-validated against Machine.", "5 (C14)"),
 "C29": ("TLC trace validation of Simulator::new (NewOK on the full initial memory) and load_obj_file (Machine!LoadBlocks, full memory diff)",
         "The header of every run carries the full memory of the new simulator; NewOK requires the OS object image at its addresses, zeros in the I/O page and uninitialized filler elsewhere; every load is validated against Machine!LoadBlocks with the diff of all 65 536 words, registers, PC and the allocation list, and loads with unresolved externals must change nothing.",
         "OS image taken from _os_obj_file() through the verif_block_iter hook.", "5 (C29)"),
 "C30": ("TLC trace validation of Simulator::reset against ResetTo (fresh header + kept configuration), full memory diff",
         "After random histories, reset must bring memory (full diff), registers, PC, PSR, saved SP, frames, instruction count and status back to the run's fresh header while keeping flags, MCR value and handle, internal-register mappings, the device table (with io_reset applied) and breakpoints; probes through kept mappings follow.",
         "Breakpoints are compared by count, the MCR handle by Arc::ptr_eq (logged by the harness).", "5 (C30)"),
 "C31": ("TLC relational validation: two independent real runs per configuration must be identical event by event (TV_Pairs) + NewOK for the Known strategy",
         "For Known and Seeded strategies with seeded timers two independent runs of the same scripted scenario are recorded and TLC requires every event (header with full initial memory, per-step projection, environment, outcome) to be equal; NewOK states the Known-strategy initialization rule.",
         "Unseeded strategy and OS-seeded timers are outside the property.", "5 (C31)"),
 "C15": ("TLC: MC_WordInit exhaustive at widths 3 and 4 (all masks, all completions) + TLC table validation of the real Word operators at 16 bits with TLC-enumerated completions",
         "The propagation rules of spec/WordInit.tla are model-checked exhaustively at reduced widths (every operand pair, mask and completion); the real 16-bit operators are recorded through the mask hooks and TLC decides soundness by enumerating all completions of pairs with few unknown bits and by witnesses (unknown bits re-drawn through the real operators) for arbitrary masks; fully initialized operands must give the wrapping value with a full mask.",
         "Needs the Word::verif_mask / verif_from_parts hooks. The rules are width-uniform, which is what connects the reduced-width proof to 16 bits.", "5 (C15)"),
 "C10": ("TLC: IntGate on every logged step + relational check interrupted vs. uninterrupted run (TV_Pairs 'transparent'), interrupt placements enumerated over all boundaries",
         "Interrupt placements are enumerated over the instruction boundaries of a program (single placements exhaustively, pairs competing/nested/successive, keyboard and timer interrupts) and replayed on the real simulator with harness interrupt devices; TLC evaluates IntGate on each step (priority gate, winner, mode, saved PSR/PC, vector) and compares each interrupted run with the uninterrupted one on registers, condition codes, R6, user memory and output.",
         "Quick tier places single interrupts at every third boundary; thorough at every boundary.", "5 (C10)"),
 "C11": ("TLC evaluates the trap contracts on its validated state after the real OS routine ran step by step (TV_Machine mark/trapdone)",
         "The real OS image executes each trap routine step by step under trace validation; at its return TLC evaluates the contract (consumed input, emitted bytes computed from the string in memory, R0, other registers, PSR, saved SP, all user memory) on the specification state, which by validation equals the real machine.",
         "Emitted bytes for PUTS/PUTSP are computed by TLC from memory at the mark; strings up to 12 words.", "5 (C11)"),
 "C12": ("TLC relational check of final states of virtual-trap vs. real-trap runs of the same program (TV_Pairs 'trapmode')",
         "The same user program is run to completion under virtual and real traps; TLC checks the relation the property states on the two logged final states (output, R0-R5, user-memory digest, halt through MCR; exception message appended for faulting programs).",
         "User memory is compared by a 60-bit digest over x3000-xFDFF computed by the harness.", "5 (C12)"),
 "C32": ("TLC trace validation of device-table histories against the port-table model in Machine (dispatch, ownership, ids, register-device contents)",
         "Every call of random histories over the device table and internal-register map is validated by TLC: add succeeds iff all ports are free I/O addresses, ids increase and are never reused, remove frees non-fixed ports, reads/writes reach the mapped internal register, else the owning device, else nothing; register devices' contents and the memory mirror are compared after each call.",
         "Bounded-exhaustive enumeration of histories by TLC (RP) is not built; histories are random.", "5 (C32)"),
 "C33": ("TLC trace validation of echo runs under enumerated lock-holding patterns; end-of-run delivery check; deviations named in the spec map to known findings",
         "The harness holds the real RwLock across chosen step_in calls (every single position, pairs, random patterns); TLC validates each step with the lock state as environment and at the end requires the display to show every queued byte once and in order. The two try_write deviations are modelled as named effects; losses they explain are KNOWN-FINDING, any other loss is a VIOLATION.",
         "Granularity = instruction boundaries; the two known findings are not fixed (a blocking lock is not a safe patch).", "5 (C33)"),
 "C34": ("TLC: MC_Timer (timer design vs. observer automaton TimerProp, all ranges/draws/interleavings within 1..4) + TLC trace validation of real TimerDevice poll sequences and same-seed pairs",
         "TimerProp is an observer automaton for the property (gaps within range, first interrupt at most max+1 polls after enable/reset, none while disabled). MC_Timer explores the timer design of spec/Machine.tla against it; real TimerDevice poll sequences with toggles, resets and range changes are validated by TLC with the automaton on the logged fire sequence, pairs with equal seeds must be identical, and in-simulator runs validate each timer interrupt entry.",
         "A remaining time drawn under an earlier range is not judged (property: while its range is unchanged).", "5 (C34)"),
 "C35": ("TLC: MC_Offsets (arithmetic vs shift definition, all N and values) + TLC table validation of real Offset::new/new_trunc",
         "MC_Offsets proves for all N in 1..16 and all 16-bit values that the property's arithmetic statement equals the shift-based computation; the real Offset::<i16|u16,N>::new/new_trunc/get results are validated record by record against the arithmetic statement: boundary+random values in quick, all 2 097 152 (N, value) cases in thorough.",
         "The 32 monomorphic instantiations are generated by macro in harness/src/tables.rs.", "5 (C35)"),
}

META.update({
 "C01": ("TLC evaluates ImageSpec/LabelSpec of spec/Asm.tla (declarative placement + Isa!Encode) on the statements parsed by the real parser and compares with the object assembled by the real assembler (TV_Asm)",
         "For every generated program the record carries the statement list the real parser returned, the source bytes and the projection of the assembled object (blocks, labels, relocation entries, line table). TLC computes, independently of the Rust encoder, the address of every statement (origin plus the sizes of the statements before it), its words (Isa!Encode after alias expansion, label operand = label address minus the address of the following word, .fill value/label address, .stringz bytes plus zero, .blkw reserved words) and the label table, and requires the image as a set of (address, word) pairs - hence nothing else defined - and the labels to be equal. The operational transcription Asm!Assemble (pass 1 / pass 2 as the code does them) is compared too, as conformance.",
         "Statement lists come from the real parser (C03 decides the parser). Generated programs cover every opcode and alias, field-limit operands, offsets exactly at the 9/11-bit limits, 1-4 blocks from x0000 to ending at xFE00, with and without debug symbols, plus os.asm itself.", "5 (C01)"),
 "C02": ("TLC evaluates WellFormed / ViolatedKinds of spec/Asm.tla (the five conditions of the statement as separate predicates) on the parsed statements of fault-injected programs and compares with the real assembler's verdict (TV_Asm)",
         "Acceptance must coincide with WellFormed (labels and statements inside closed non-nested blocks; no key bound to two addresses, externals as address 0; label operands defined, not external in PC-relative position, offset fits; non-empty blocks disjoint, not reaching xFE00.., not wrapping), a rejection must carry a kind that names a violated condition, and a panic is a rejection of the record.",
         "Which of several violated conditions is reported is left open, as in the statement.", "5 (C02)"),
 "C17": ("TLC compares the projection of the object read back from BinaryFormat with the projection of the original for every object of the link sets and of single programs with exotic sources (TV_Asm)",
         "serialize then deserialize through the real BinaryFormat for assembled files (with/without debug symbols, externals, relocation entries, .blkw, several blocks) and every intermediate and final link result; the reader must accept, the crate's own == must hold and blocks, labels with flags and source offsets, relocation entries, line table and source bytes must be equal.",
         "The byte grammar is not transcribed into TLA+; the specification states what must be preserved.", "5 (C17/C18)"),
 "C18": ("TLC compares the projection of the object read back from TextFormat with the projection of the original (TV_Asm), sources with quotes, backslashes, tabs, CRLF, control and non-ASCII characters, table dividers inside comments",
         "As C17 through the real TextFormat; the single-program leg renders sources whose comments and strings contain ' | ', '====', '#', quotes, backslashes, NUL followed by digits, NEL/NBSP/ideographic space, emoji, CRLF and whitespace-only lines.",
         "The text grammar is not transcribed into TLA+; the specification states what must be preserved.", "5 (C17/C18)"),
 "C20": ("TLC validates every real link step against the statement of C20 written on abstract objects (Disjoint, LabelConflict, patched union, merged labels, pending relocations), compares all orders/bracketings, and compares the set result with the declarative result from the files' statements (TV_Asm + Linker)",
         "Sets of 2-4 files linked by the real ObjectFile::link in every order and bracketing. Per step: success iff blocks disjoint and no label defined at two addresses; image = union with resolved .fill words replaced; labels/flags/pending relocations as stated. Across orders: same success and same (image, labels, flags, relocations). Per set: the same against what TLC computes from the parsed statements of the files.",
         "Error kinds are compared with the operational Linker!Link as drift only.", "5 (C20)"),
 "C21": ("TLC computes the external references (RelSpec) from the parsed statements and checks relocation entries, survival of the symbol table, UnresolvedExternal on load, and the patched word after linking, on real assemble/link/load results (TV_Asm)",
         "Declaration before, inside and after the using blocks, with and without debug symbols; load_obj_file into a fresh simulator for every file and every link result with memory probed at every relocation address.",
         "Loading is probed with default flags; C29 decides the rest of loading.", "5 (C21)"),
 "C22": ("TLC checks per real link step of debug objects that every mapped address reads the same source line text as in the operand it came from and that every label span spells the label in the combined source (TV_Asm)",
         "rev_lookup_line + source_info().read_line for every address of operands and result, get_label_source for every label; pairs, triples and some quadruples in every order and bracketing.",
         "Inductive per link step.", "5 (C22)"),
 "C23": ("TLC computes the expected answer of every label query from the parsed statements (LabelDefs of spec/Asm.tla) and compares with the real SymbolTable queries (TV_Asm)",
         "lookup_label and get_label_source for every label in four spellings plus near-miss and absent names, rev_lookup_label for every recorded address and neighbours (membership), label_iter as a set with flags.",
         "ASCII labels, as the property states.", "5 (C23)"),
 "C24": ("TLC computes LineSpec (line of each memory-occupying statement -> its first address) from the parsed statements and source bytes and compares line_iter, lookup_line and rev_lookup_line of the real symbol table; injectivity checked (TV_Asm)",
         "Every line up to count+2, every mapped address with neighbours and random addresses; label-only, comment, blank, .orig/.end/.external lines must map to nothing.",
         "Line numbers are computed by TLC from the source bytes.", "5 (C24)"),
 "C26": ("TLC checks the span lists of real assembler and linker errors: queries do not panic, non-empty, first() is the first, inside the source, label errors spell an offending label computed declaratively (TV_Asm)",
         "All failing assemblies of fault-injected programs and all failing link steps; span(), iter(), first() under catch_unwind.",
         "Link errors about blocks carry an empty list; only absence of panics is judged there.", "5 (C26)"),
})
 
META["C25"] = ("TLC: MC_SourceInfo (the operators of spec/SourceInfo.tla satisfy C25 in its own words for all short strings) + TLC table validation of the real SourceInfo queries (exhaustive on short strings, random longer ones)",
         "count_lines, line_span, read_line and get_pos_pair of the real SourceInfo are recorded for every string of up to 4 symbols over an 8-symbol alphabet of line ends and whitespace (thorough: 6 symbols over 6) and for random longer strings, for every line and every index up to length+10, and each answer is compared by TLC with CountLines / LineSpan / ReadLine / PosPair; MC_SourceInfo proves those operators meet the property as stated, exhaustively on strings of up to 5/6 symbols.",
         "Whitespace = Unicode White_Space on UTF-8 bytes.", "5 (C25)")

META["C19"] = ("TLC trace validation of reader/serialize/link/load outcomes on arbitrary and adversarially structured object files: no Panic record, outcomes conform to the total operator Linker!Link on abstract (possibly malformed) objects (TV_Asm)",
         "Random inputs, mutated valid serializations and abstract objects that break the writers' invariants (written by the harness's own writers of both formats) are fed to the real readers; every accepted object is projected, re-serialized, read back, loaded, stepped, queried and linked with assembled partners in both orders and with itself, all under catch_unwind. The specification has no action for a panic; link outcomes are compared with Linker!Link, which is total on arbitrary abstract objects.",
         "The byte/text grammars are not transcribed; which inputs are accepted is not predicted. Harness profile has overflow checks on.", "5 (C19)")

META["C03"] = ("TLC runs the specification's own tokenizer and statement grammar (spec/Lexer.tla, spec/Grammar.tla) on the source bytes and compares with the statements and spans returned by the real parser; written statements and renderer positions compared too; metamorphic pairs (TV_Parse)",
         "Each generated statement list is rendered twice with independent random surface syntax; the real parse_ast must return exactly the written statements with spans where the text was put, and exactly what Grammar!ParseProgram reads from the bytes; both renderings must assemble to the same image and labels.",
         "Label names avoid spellings the lexer reads as numbers or registers (x1.., R1..), as the grammar requires.", "5 (C03)")
META["C04"] = ("TLC predicts the exact outcome of every short string-literal text with Lexer!ScanStr/Grammar and checks the outcome class (no Panic record, in-bounds single span) of random, mutated and edge-case inputs to the real parser (TV_Parse)",
         "All texts `.stringz \"s` for s over an 8-symbol alphabet up to length 4 (thorough 6), plus targeted edge cases, random Unicode strings and byte-mutated programs through the real parse_ast under catch_unwind.",
         "Arbitrary inputs are produced by seeded generators in the harness; the specification is the oracle.", "5 (C04)")
META["C05"] = ("TLC computes the written value of every numeric/register spelling (Lexer!Literal, NumTok, RegTok) and the per-field acceptance (Offsets!FitsS/FitsU) and compares with the real lexer and parser (TV_Parse)",
         "Bare tokens through the real lexer and operands of every field through parse_ast; quick: values around powers of two and limits in 15 notations; thorough: every integer in [-70000, 140000].",
         "Malformed spellings are conformance only.", "5 (C05)")
META["C36"] = ("TLC compares the statement reparsed by the real parser from the real Display text with the original statement (without spans), and reads the printed text with Grammar!ParseProgram (TV_Parse)",
         "Every statement of parsed generated programs plus a fixed list of boundary forms.", "Strings restricted as the property states.", "5 (C36)")

def _aug(pid, tech_add, text_add):
    t, x, n, r = META[pid]
    META[pid] = (t + tech_add, x + text_add, n, r)

for _p in ("C01", "C02", "C21", "C24", "C26"):
    _aug(_p, " + TLC: MC_Asm (operational = declarative assembler on every program of <= 4/5 statements over 17 templates)",
         " MC_Asm model-checks, inside the specification, that pass 1 / pass 2 as transcribed from the code agree with the declarative statements of C01, C02, C21, C24 and C26 for every program of up to 4 (thorough: 5) statements over a universe of 17 statement templates (177 482 states).")
for _p in ("C20", "C21", "C22"):
    _aug(_p, " + TLC: MC_Link (all ordered pairs and triples of 9 assembled files x debug/no debug)",
         " MC_Link model-checks Linker!Link on every ordered pair and triple of nine small assembled files (with and without debug symbols): the iff-condition of success, the patched union image, order and grouping independence, pending references, line texts and label offsets (12 331 states).")
for _p in ("C08", "C09", "C14", "C16", "C27", "C28"):
    _aug(_p, " + TLC: MC_Machine (adversarial boundary states x 59-word instruction universe, depth 1/2)",
         " MC_Machine model-checks the specification's own step from adversarial machine states (PC, registers, R6 and all memory drawn from 12 boundary addresses; user and supervisor; real and virtual traps; strict or not; initialized or not) with every word of a 59-word instruction universe placed at the PC: totality, Isolation, DepthOK, ObsProp, StrictRel, no strict error on an initialized machine, condition-code and instruction-count structure (552 960 states; thorough: depth 2, 1.29 M distinct).")
_aug("C32", " + RP: TLC (MC_Devices) enumerates every history of <= 3/4 calls over a 22-call alphabet, checks C32 on every table, and each history is replayed on the real Simulator and validated by TLC",
     " MC_Devices enumerates every history of up to 3 (thorough: 4) calls over 22 calls (add/remove/mmap/munmap/read/write incl. occupied, non-I/O, stale and default cases), checks the statement of C32 on every reachable table, and prints each maximal history; the harness replays all 10 648 (234 256) histories on real simulators and TLC validates every recorded call with the same operators.")

_aug("C10", " + TLC: MC_Interrupt (every placement of up to 2/3 requests of priorities 1/4/7 from two devices over every boundary of a program+handler: IntGate and transparency)",
     " MC_Interrupt model-checks, inside the specification, a user program and a register-saving handler with up to 2 (thorough: 3) interrupt requests placed at every instruction boundary (competing at one boundary, arriving inside the handler, successive; program priority 0 and 4): IntGate on every step and equality of the final state with the uninterrupted run (13 097 distinct states for 2 requests).")

_aug("C11", " + TLC: MC_OsTraps (the real OS image executed by TLC on the specification's machine for every string / queue / character of a bounded universe)",
     " MC_OsTraps lets TLC execute the built-in OS routines themselves - the OS image exported from the crate, so an edit to os.asm is seen - on the specification's machine from a user-mode TRAP to its return, for every string of up to 2 (thorough: 3) symbols over {x01, x41, xE9, xFF} (PUTS incl. words with high bits, PUTSP packed with odd and even lengths), every keyboard queue of up to two bytes (GETC, IN), every character (OUT), two register fills, three condition codes, real and virtual traps, and checks the contract at the return (1 368 runs of the routines).")

_aug("C33", " + TLC: MC_KbdDisp (the echo program through the real OS image on the specification's machine under every placement of up to 2/3 lock-held steps; safety and termination under weak fairness)",
     " MC_KbdDisp model-checks, inside the specification, the echo program running through the real OS image while the keyboard or display lock is held during any choice of up to 2 (thorough: 3, two input bytes) instruction steps: every queued byte appears exactly once and in order unless the run went through one of the two transcribed try_write deviations (the known findings), the output is always a prefix of the expected one while no deviation occurred, and under weak fairness every run halts (liveness checked by TLC).")

_aug("C13", " + TLC: MC_Run (every sequence of up to 4/7 run-style calls over a program with nested calls, with and without breakpoints)",
     " MC_Run model-checks, inside the specification, every sequence of up to 4 (thorough: 7) run-style calls (limits 0/1/2/5, step_over, step_out, run_while(pc # a), run; no breakpoint, a PC breakpoint, a register breakpoint) over a program with a loop and nested subroutine calls: every segmentation ends in the state and instruction count of the unbroken run; a limit executes exactly n instructions unless a halt or breakpoint intervenes; step_over / step_out end at / below the starting depth; a breakpoint is reported only after an executed step.")

for _p in ("C03", "C05", "C36"):
    _aug(_p, " + TLC: MC_Grammar (every statement shape x every choice of surface syntax, rendered and read back inside the specification)",
         " MC_Grammar model-checks, inside the specification, that reading the rendered bytes of each of 16 statement shapes under every choice of surface syntax (keyword/register case, colon, label on its own line, five number notations incl. negative and zero-padded forms, spacing, trailing comment, LF/CRLF, 0-2 labels: 15 360 renderings) with Grammar!ParseProgram gives back exactly the statement and the span of its nucleus.")

_aug("C12", " + TLC: MC_TrapMode (every user program of <= 2/3 fragments x 6 endings run on the specification's machine with the real OS image under virtual and real traps, compared as C12 says)",
     " Two of three recorded programs are generated (arithmetic, data cells, PUTS/OUT/PUTSP/GETC/IN, nested subroutines keeping R7 on the stack, counted loops, push/pop; HALT or one of five faulting endings). MC_TrapMode model-checks the statement inside the specification: every program of up to 2 (thorough: 3) position-independent fragments out of 9 followed by each of 6 endings runs under virtual and under real traps on the real OS image; halting programs must give the same output, R0-R5 and user memory and stop through the MCR, faulting ones print the OS message after the same output and halt.")
for _p in ("C17", "C19"):
    _aug(_p, " + TLC: ObjFormat, the binary format as a specification (MC_ObjFormat: round trip over an object universe in every table order, reader total on every damaged file of <= 2/3 chunks; TV_Fmt: real writer/reader against BinWrite/BinRead)",
         " ObjFormat transcribes the binary format: BinRead (chunk grammar, little-endian fields, 64-bit quantities as 16-bit limbs, strict UTF-8, last-wins maps, line blocks disjoint and ending below 2^64) and BinWrite over any order of the hash-map tables. MC_ObjFormat model-checks that every object of a universe of about 6 900 objects reads back as itself in every table order, and that the reader is total on every file of up to 2 (thorough: 3) chunks out of 18 cut at any length with one byte replaced (700 k / 18 M files), whatever it accepts being written and read back equal. TV_Fmt gives the real writer's bytes of assembled and linked objects to BinRead (WrittenForView) and compares the real reader with BinRead on random, mutated and adversarially structured files (accept/reject and the object built), then the real writer's output for every accepted object.")
_aug("C18", " + TLC: TxtFormat, the text format as a specification (MC_TxtFormat: round trip over an object universe with exotic sources; TV_Fmt: the real writer's text equals TxtWrite byte for byte, TxtRead reads it back)",
     " TxtFormat transcribes the text format: TxtWrite gives the exact text of an object (sorted tables, column widths counted in characters, char::escape_default of the source cells, the two dividers of .DEBUG) and TxtRead reads texts of that shape. MC_TxtFormat model-checks the round trip for every object of a universe with sources containing quotes, backslashes, TAB, CR LF, control and non-ASCII characters, ' | ' and lines starting with '#', '=', '.'. TV_Fmt requires the real writer's text of every assembled and linked object to equal TxtWrite byte for byte and TxtRead to read it back as the object.")
for _p in ("C01", "C02", "C21", "C23", "C24", "C26"):
    _aug(_p, " + RP: every program MC_Asm checks (<= 3/4 statements over 17 templates) is assembled by the real assembler and validated by TLC (MC_AsmRP)",
         " RP: MC_AsmRP prints every program it checks (5 220; thorough 88 741); the harness renders and assembles each with the real parser and assembler and TV_Asm validates the record.")
for _p in ("C20", "C22", "C17", "C18", "C21", "C26"):
    _aug(_p, " + RP: every selection MC_Link checks (pairs, thorough triples, of 9 files x debug) assembled and linked by the real crate in every order and validated by TLC (MC_LinkRP)",
         " RP: MC_LinkRP prints each selection; the harness assembles the files and links the set in every order and bracketing; TV_Asm validates every step.")
_aug("C18", " + RP: the text of every object of MC_TxtFormat's universe (760) through the real reader and back through the real writer (lc3v replay txt)", " RP: TxtWrite(o) of every object of the universe is given to the real text reader, which must build what TxtRead builds; the real writer must give the same text back.")
_aug("C29", " + TLC: MC_Load (C29 stated on Machine!LoadBlocks for 644 objects x pre-states) + RP: each case performed with the real load_obj_file (lc3v replay load)", " MC_Load model-checks the statement on Machine!LoadBlocks for every object of one or two blocks of a small universe (x0000, user space, touching blocks, ending at xFDFF; initialized and reserved words in every arrangement of up to three words; neighbouring words initialized before or not) and prints each case; the harness assembles the object, loads it with the real load_obj_file and TV_Machine validates the full memory diff.")
_aug("C25", " + RP: every string MC_SourceInfo checks (9 331) through the real SourceInfo (lc3v replay srcinfo)", " RP: the strings MC_SourceInfo enumerates are printed by TLC, put through the real SourceInfo and validated by TV_Tables.")
_aug("C10", " + RP: every single placement MC_Interrupt explores (212 behaviours) replayed on the real simulator and validated (lc3v replay interrupt)",
     " RP: MC_InterruptRP prints every placement of one request (three priorities, two devices, every instruction boundary incl. inside the handler; program priority 0 and 4); each is performed on the real simulator with the model's program and handler and TV_Machine decides on IntGate and conformance.")
_aug("C11", " + RP: 228 start states of MC_OsTraps run on the real simulator and validated (lc3v replay ostraps)", " RP: the start states of MC_OsTraps for one register fill and condition code (every string of up to two symbols, every character, every keyboard queue, real and virtual traps) are run step by step through the real OS on the real simulator; TV_Machine validates every step and evaluates the contract at the return.")
_aug("C03", " + RP: each of the 15 360 renderings goes through the real parser, which must read what Grammar!ParseProgram reads (lc3v replay parse)",
     " RP: the renderings MC_Grammar reads back are printed by TLC and given to the real parser; TV_Parse requires the real parser to read exactly what the grammar of the specification reads.")
_aug("C19", " + RP: every cut file of up to two chunks enumerated by TLC through the real binary reader (lc3v replay fmt)",
     " RP: the RP configuration of MC_ObjFormat prints every file of up to two chunks cut at every length (3 960) and one serialization of each of 6 852 objects; each goes through the real binary reader and TV_Fmt compares verdict and object with BinRead.")
_aug("C13", " + RP: TLC (MC_RunRP) prints every maximal behaviour with up to 2/3 free calls; each is replayed on the real simulator and validated by TLC",
     " RP: MC_RunRP prints each maximal behaviour (breakpoint set, calls, run until halted: 185, thorough 1 500); the harness performs them on real simulators and TV_Machine validates every call against Run!RunCall, the last one leaving the machine halted.")
_aug("C12", " + RP: the programs of MC_TrapMode (one/two fragments) replayed on the real simulator under both trap modes and validated by TLC",
     " RP: TLC prints the words of every program it checks (one fragment; thorough: two), the harness runs each on real simulators under virtual and real traps from the model's start state, and TV_Pairs / TV_Machine validate the recorded runs.")
_aug("C28", " + one machine stepped 8 700 / 70 000 times in a row (TV_Machine 'long')",
     " A `long` leg steps one simulator 8 700 (thorough: 70 000) times (prologue executed once, long loop, rare excursions) so that whatever the observer keeps across its per-step clear is exposed.")
_aug("C01", "; the statements read are required to equal the generator's intent (`written`)", " Every generated program travels with the statements the generator meant; `written` requires the real parser's statements to equal them, so the image is the encoding of the source text and not only of the parser's output.")
_aug("C11", "; routines are also interrupted by a handler that prints through the OS, and run against recurring busy windows of display and keyboard", "")

def main():
    props = [json.loads(l) for l in open(os.path.join(ROOT, "properties.jsonl"))]
    done = sorted(check.CHECKS)
    m = {
        "version": 1,
        "setup_cmd": "./check.py build",
        "hooks": {
            "guard": "endorpersand_lc3_ensemble_verif",
            "enable": "harness/.cargo/config.toml passes `--cfg endorpersand_lc3_ensemble_verif` (rustflags) to the harness and its path dependency /repo",
            "baseline_off_cmd": "cd /repo && cargo test --workspace --no-fail-fast --offline",
            "source_commits": HOOK_COMMITS,
            "add_only": True,
        },
        "engines": [{
            "name": "tlc", "path": "check.py", "serves_properties": done,
            "kind_free_text": "TLC 1.8.0 on the TLA+ specification in spec/: MC (model checking the spec), TV (traces and call tables recorded from the real crate by harness/lc3v, validated by TLC), RP (TLC-generated behaviours replayed on the real crate)",
        }],
        "checks": [],
        "notes": "See DESIGN.md. check.py exits 0/1/2 (held / VIOLATION line + replay file / tool error). known_findings.json lists fixed and known defects.",
        "not_applicable": [],
    }
    for p in props:
        pid = p["id"]
        if pid in check.CHECKS:
            tech, text, note, ref = META[pid]
            m["checks"].append({
                "property_id": pid,
                "quick_cmd": "./check.py %s --tier quick" % pid,
                "thorough_cmd": "./check.py %s --tier thorough" % pid,
                "evidence_file": "/verif/evidence/%s.json" % pid,
                "replay_cmd_template": "./check.py %s --replay {path}" % pid,
                "engine": "tlc",
                "level_claimed": {"category": "model_checking", "text": text, "design_ref": "DESIGN.md section " + ref},
                "level_note": note,
                "technique": tech,
            })
        else:
            m["not_applicable"].append({"property_id": pid, "reason": NA.get(pid, "check not built yet (planned in DESIGN.md section 5); not a limit of the technique")})
    with open(os.path.join(ROOT, "MANIFEST.json"), "w") as f:
        json.dump(m, f, indent=1)
    print("MANIFEST.json: %d checks, %d not_applicable" % (len(m["checks"]), len(m["not_applicable"])))

NA = {}

if __name__ == "__main__":
    main()
