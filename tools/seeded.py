#!/usr/bin/env python3
"""Handling of seeded changes (realistic breakages written by independent sub-agents).

  seeded.py verify <worktree> <k>            confirm the agent's claims in its scratch worktree:
                                             patch applies, existing tests pass with it, demo fails
                                             with it and passes without it
  seeded.py adopt <worktree> <k> <name>      copy patch.diff/demo.rs/meta.json to /verif/seeded/<name>/
  seeded.py detect <name> <Cxx> [<Cyy> ...]  apply /verif/seeded/<name>/patch.diff to /repo, run the
                                             quick checks, undo; records the outcome in meta.json
"""
import json, os, subprocess, sys, shutil, time
ROOT = os.path.dirname(os.path.dirname(os.path.abspath(__file__)))
SEEDED = os.path.join(ROOT, "seeded")

def sh(cmd, cwd=None, timeout=1800):
    p = subprocess.run(cmd, cwd=cwd, shell=True, stdout=subprocess.PIPE, stderr=subprocess.STDOUT, text=True, timeout=timeout)
    return p.returncode, p.stdout

def verify(wt, k):
    d = os.path.join(wt, "seeded_out", str(k))
    res = {"worktree": wt, "k": k}
    sh("git checkout -- . && git clean -fdq tests", cwd=wt)
    rc, out = sh("git apply --check %s/patch.diff" % d, cwd=wt)
    res["applies"] = rc == 0
    if rc != 0:
        res["error"] = out[-500:]; return res
    os.makedirs(os.path.join(wt, "tests"), exist_ok=True)
    # without the patch: demo passes
    shutil.copy(os.path.join(d, "demo.rs"), os.path.join(wt, "tests", "demo.rs"))
    rc, out = sh("cargo test --offline --test demo 2>&1 | tail -15", cwd=wt)
    res["demo_passes_without"] = "test result: ok" in out and "FAILED" not in out
    # with the patch: existing tests pass, demo fails
    sh("git apply %s/patch.diff" % d, cwd=wt)
    rc, out = sh("cargo test --offline --test demo 2>&1 | tail -25", cwd=wt)
    res["demo_fails_with"] = ("FAILED" in out or "panicked" in out or "error: test failed" in out)
    os.remove(os.path.join(wt, "tests", "demo.rs"))
    rc, out = sh("cargo test --offline 2>&1 | grep -E 'test result|FAILED|error' | head", cwd=wt)
    res["suite_passes_with"] = out.count("test result: ok") >= 2 and "FAILED" not in out and "error" not in out
    res["suite_tail"] = out[-300:]
    sh("git checkout -- . && git clean -fdq tests", cwd=wt)
    return res

def adopt(wt, k, name):
    d = os.path.join(wt, "seeded_out", str(k))
    t = os.path.join(SEEDED, name)
    os.makedirs(t, exist_ok=True)
    for f in ("patch.diff", "demo.rs"):
        shutil.copy(os.path.join(d, f), os.path.join(t, f))
    meta = json.load(open(os.path.join(d, "meta.json")))
    meta["origin"] = "independent sub-agent, scratch worktree %s (given only the property text)" % wt
    json.dump(meta, open(os.path.join(t, "meta.json"), "w"), indent=1)

def snap_setup(lane):
    """A private snapshot of /verif (as it is now) and a clone of /repo for detection lane `lane`."""
    base = "/tmp/snap%s" % lane
    sh("mkdir -p %s && rsync -a --delete --exclude work --exclude replays --exclude .git %s/ %s/verif/" % (base, ROOT, base))
    if not os.path.isdir(base + "/repo/.git"):
        sh("git clone -q /repo %s/repo" % base)
    sh("git fetch -q origin && git checkout -q --detach origin/main && git checkout -- . && git clean -fdq", cwd=base + "/repo")
    sh("sed -i 's#path = \"/repo\"#path = \"%s/repo\"#' %s/verif/harness/Cargo.toml" % (base, base))
    return base

def detect_snap(lane, name, checks):
    """Like detect, but in the lane's snapshot (scratch clone of the repository), so that
    work in /verif and /repo is not disturbed.  Results are recorded in /verif/seeded/<name>/meta.json."""
    base = "/tmp/snap%s" % lane
    t = os.path.join(SEEDED, name)
    meta = json.load(open(os.path.join(t, "meta.json")))
    repo = base + "/repo"
    sh("git checkout -- . && git clean -fdq", cwd=repo)
    rc, out = sh("git apply %s/patch.diff" % t, cwd=repo)
    if rc != 0:
        print("patch does not apply:", out); return 2
    results = {}
    try:
        for c in checks:
            t0 = time.time()
            rc, out = sh("./check.py %s --tier quick" % c, cwd=base + "/verif", timeout=3000)
            lines = [l for l in out.splitlines() if l.startswith("VIOLATION") or l.startswith("OK ") or l.startswith("TOOL-ERROR") or l.startswith("  violation") or l.startswith("DRIFT") or l.startswith("KNOWN")]
            results[c] = {"exit": rc, "wall_s": round(time.time() - t0, 1), "lines": [l.replace(base, "") for l in lines[:6]],
                          "how": "scratch clone of the repository with the patch applied, checks from a snapshot of /verif"}
            print(name, c, "exit", rc, [l[:150] for l in lines[:3]], flush=True)
    finally:
        sh("git checkout -- . && git clean -fdq", cwd=repo)
    meta = json.load(open(os.path.join(t, "meta.json")))
    meta.setdefault("detection", {}).update(results)
    meta["detected_by"] = sorted(c for c, r in meta["detection"].items() if r["exit"] == 1)
    json.dump(meta, open(os.path.join(t, "meta.json"), "w"), indent=1)
    return 0

def detect(name, checks):
    t = os.path.join(SEEDED, name)
    meta = json.load(open(os.path.join(t, "meta.json")))
    rc, out = sh("git status --porcelain", cwd="/repo")
    if out.strip():
        print("refusing: /repo is not clean"); return 2
    rc, out = sh("git apply %s/patch.diff" % t, cwd="/repo")
    if rc != 0:
        print("patch does not apply:", out); return 2
    results = {}
    # the checks rewrite /verif/evidence/<id>.json on every run: keep the records of the unchanged
    # tree aside, so that a run against a seeded change is never left behind (or committed) as evidence
    evid, keep = os.path.join(ROOT, "evidence"), os.path.join(ROOT, "work", "evidence.keep")
    shutil.rmtree(keep, ignore_errors=True)
    shutil.copytree(evid, keep)
    try:
        for c in checks:
            t0 = time.time()
            rc, out = sh("./check.py %s --tier quick" % c, cwd=ROOT, timeout=3000)
            lines = [l for l in out.splitlines() if l.startswith("VIOLATION") or l.startswith("OK ") or l.startswith("TOOL-ERROR") or l.startswith("  violation") or l.startswith("DRIFT")]
            results[c] = {"exit": rc, "wall_s": round(time.time() - t0, 1), "lines": lines[:6]}
            print(name, c, "exit", rc, lines[:3])
    finally:
        sh("git checkout -- .", cwd="/repo")
        shutil.rmtree(evid, ignore_errors=True)
        shutil.move(keep, evid)
    meta.setdefault("detection", {}).update(results)
    meta["detected_by"] = sorted(c for c, r in meta["detection"].items() if r["exit"] == 1)
    json.dump(meta, open(os.path.join(t, "meta.json"), "w"), indent=1)
    return 0

if __name__ == "__main__":
    cmd = sys.argv[1]
    if cmd == "verify":
        print(json.dumps(verify(sys.argv[2], int(sys.argv[3]))))
    elif cmd == "adopt":
        adopt(sys.argv[2], int(sys.argv[3]), sys.argv[4])
    elif cmd == "snap":
        print(snap_setup(sys.argv[2]))
    elif cmd == "detect-snap":
        sys.exit(detect_snap(sys.argv[2], sys.argv[3], sys.argv[4:]))
    elif cmd == "detect":
        sys.exit(detect(sys.argv[2], sys.argv[3:]))
