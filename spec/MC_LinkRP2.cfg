SPECIFICATION Spec
CONSTANT MaxSel = 2
INVARIANT Prop
INVARIANT Emit
CHECK_DEADLOCK FALSE
