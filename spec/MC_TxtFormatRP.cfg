SPECIFICATION Spec
INVARIANT RoundTrip
INVARIANT EscapeInverse
INVARIANT Emit
CHECK_DEADLOCK FALSE
