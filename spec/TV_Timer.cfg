SPECIFICATION Spec
CONSTANT BaseRd <- NoBase
INVARIANT Conforms
CHECK_DEADLOCK FALSE
