----------------------------- MODULE MC_Grammar -----------------------------
(* C03 / C05 / C36 inside the specification: for every statement of a small    *)
(* universe (every operand shape: registers, immediates, PC offsets, labels,   *)
(* trap vectors, directives with numbers, strings and labels; with 0-2 labels) *)
(* and EVERY choice of surface syntax - keyword and register case, label colon *)
(* or not, label on a line of its own or not, number notation (decimal, #, x,  *)
(* X with leading zeros, negative forms), spacing, trailing comment, LF or     *)
(* CRLF - reading the rendered bytes with Grammar!ParseProgram gives back      *)
(* exactly the statement, with the span of its nucleus.                        *)
EXTENDS Grammar, TLC

\* ---- rendering ---------------------------------------------------------------
Lower(s) == [i \in 1..Len(s) |-> IF s[i] >= 65 /\ s[i] <= 90 THEN s[i] + 32 ELSE s[i]]
Kw(name) == LET hits == { i \in 1..Len(KwTable) : KwTable[i][1] = name } IN KwTable[CHOOSE i \in hits : TRUE][2]
RECURSIVE DecBytes(_)
DecBytes(n) == IF n < 10 THEN <<48 + n>> ELSE DecBytes(n \div 10) \o <<48 + (n % 10)>>
HexDigit(d, up) == IF d < 10 THEN 48 + d ELSE (IF up THEN 55 ELSE 87) + d
RECURSIVE HexBytes(_, _)
HexBytes(n, up) == IF n < 16 THEN <<HexDigit(n, up)>> ELSE HexBytes(n \div 16, up) \o <<HexDigit(n % 16, up)>>
\* notations: 1 decimal, 2 #decimal, 3 x hex, 4 X hex with a leading zero, 5 decimal with leading zeros
Num(v, nt) ==
  LET a == IF v < 0 THEN 0 - v ELSE v
      sg == IF v < 0 THEN <<45>> ELSE <<>>
  IN CASE nt = 1 -> sg \o DecBytes(a)
       [] nt = 2 -> <<35>> \o sg \o DecBytes(a)
       [] nt = 3 -> <<120>> \o sg \o HexBytes(a, TRUE)
       [] nt = 4 -> <<88>> \o sg \o <<48>> \o HexBytes(a, FALSE)
       [] nt = 5 -> sg \o <<48, 48>> \o DecBytes(a)
Reg(r, low) == <<IF low THEN 114 ELSE 82, 48 + r>>
Sp(o) == IF o.wide THEN <<32, 9, 32>> ELSE <<32>>
Comma(o) == IF o.wide THEN <<32, 44, 9>> ELSE <<44, 32>>
K(name, o) == IF o.low THEN Lower(Kw(name)) ELSE Kw(name)
LabA == <<76, 111, 111, 112>>      \* "Loop"
LabB == <<114, 50, 100, 50>>       \* "r2d2": begins like a register, is an identifier

\* the statement universe: [n |-> nucleus (as Grammar builds it, without spans), txt(o) |-> its bytes, op |-> label operand or <<>>]
NucOf(k, a, b, c, m, lbl, str, strb) == [k |-> k, a |-> a, b |-> b, c |-> c, m |-> m, lbl |-> lbl, str |-> str, strb |-> strb]
Stmts(o) ==
  << [n |-> NucOf("ADD", 1, 2, -16, 1, <<>>, <<>>, <<>>), t |-> K("ADD", o) \o Sp(o) \o Reg(1, o.low) \o Comma(o) \o Reg(2, FALSE) \o Comma(o) \o Num(-16, o.nt)],
     [n |-> NucOf("AND", 7, 0, 3, 0, <<>>, <<>>, <<>>), t |-> K("AND", o) \o Sp(o) \o Reg(7, FALSE) \o Comma(o) \o Reg(0, o.low) \o Comma(o) \o Reg(3, o.low)],
     [n |-> NucOf("BR", 6, 255, 0, 0, <<>>, <<>>, <<>>), t |-> K("BRNZ", o) \o Sp(o) \o Num(255, o.nt)],
     [n |-> NucOf("BR", 7, 0, 0, 2, LabA, <<>>, <<>>), t |-> K("BR", o) \o Sp(o) \o LabA],
     [n |-> NucOf("LDR", 0, 6, 31, 0, <<>>, <<>>, <<>>), t |-> K("LDR", o) \o Sp(o) \o Reg(0, FALSE) \o Comma(o) \o Reg(6, o.low) \o Comma(o) \o Num(31, o.nt)],
     [n |-> NucOf("JSR", -1024, 0, 0, 0, <<>>, <<>>, <<>>), t |-> K("JSR", o) \o Sp(o) \o Num(-1024, o.nt)],
     [n |-> NucOf("LEA", 5, 0, 0, 2, LabB, <<>>, <<>>), t |-> K("LEA", o) \o Sp(o) \o Reg(5, o.low) \o Comma(o) \o LabB],
     [n |-> NucOf("TRAP", 37, 0, 0, 0, <<>>, <<>>, <<>>), t |-> K("TRAP", o) \o Sp(o) \o Num(37, IF o.nt = 5 THEN 3 ELSE o.nt)],
     [n |-> NucOf("NOP", 0, 0, 0, 0, <<>>, <<>>, <<>>), t |-> K("NOP", o)],
     [n |-> NucOf("HALT", 0, 0, 0, 0, <<>>, <<>>, <<>>), t |-> K("HALT", o)],
     [n |-> NucOf(".orig", 65024, 0, 0, 0, <<>>, <<>>, <<>>), t |-> (IF o.low THEN <<46, 111, 114, 105, 103>> ELSE <<46, 79, 82, 73, 71>>) \o Sp(o) \o Num(65024, IF o.nt \in {1, 2} THEN o.nt ELSE 3)],
     [n |-> NucOf(".fill", 65535, 0, 0, 0, <<>>, <<>>, <<>>), t |-> <<46, 102, 105, 108, 108>> \o Sp(o) \o Num(-1, o.nt)],
     [n |-> NucOf(".fill", 0, 0, 0, 2, LabA, <<>>, <<>>), t |-> <<46, 70, 105, 76, 108>> \o Sp(o) \o LabA],
     [n |-> NucOf(".blkw", 7, 0, 0, 0, <<>>, <<>>, <<>>), t |-> <<46, 98, 108, 107, 119>> \o Sp(o) \o Num(7, IF o.nt = 5 THEN 1 ELSE o.nt)],
     [n |-> NucOf(".stringz", 0, 0, 0, 0, <<>>, <<97, 34, 10, 233, 92, 113>>, <<97, 34, 10, 195, 169, 92, 113>>),
      t |-> <<46, 115, 116, 114, 105, 110, 103, 122>> \o Sp(o) \o <<34, 97, 92, 34, 92, 110, 195, 169, 92, 113, 34>>],
     [n |-> NucOf(".external", 0, 0, 0, 2, LabB, <<>>, <<>>), t |-> <<46, 69, 88, 84, 69, 82, 78, 65, 76>> \o Sp(o) \o LabB] >>
NStmts == 16

Opts == [low : BOOLEAN, wide : BOOLEAN, nt : 1..5, colon : BOOLEAN, own : BOOLEAN, com : BOOLEAN, crlf : BOOLEAN, nlab : 0..2]

\* one statement rendered alone in a file, preceded by a comment line
Render(st, o) ==
  LET eol == IF o.crlf THEN <<13, 10>> ELSE <<10>>
      head == <<59, 32, 104, 105>> \o eol \o (IF o.wide THEN <<32, 9>> ELSE <<>>)       \* "; hi"
      lab(l) == l \o (IF o.colon THEN <<58>> ELSE <<>>) \o (IF o.own THEN (IF o.com THEN <<32, 59, 120>> ELSE <<>>) \o eol \o <<32>> ELSE <<32>>)
      labs == IF o.nlab = 0 THEN <<>> ELSE IF o.nlab = 1 THEN lab(<<81, 49>>) ELSE lab(<<81, 49>>) \o lab(<<119, 95>>)
      tail == (IF o.com THEN <<32, 59, 32, 65, 68, 68, 32, 34>> ELSE <<>>) \o eol
  IN [bytes |-> head \o labs \o st.t \o tail, ns |-> Len(head) + Len(labs), ne |-> Len(head) + Len(labs) + Len(st.t)]

VARIABLES k, o, phase
vars == <<k, o, phase>>
Init == k \in 1..NStmts /\ o \in Opts /\ phase = "render"
Next == phase = "render" /\ phase' = "read" /\ UNCHANGED <<k, o>>
Spec == Init /\ [][Next]_vars

Bare(st) == [labels |-> [i \in 1..Len(st.labels) |-> st.labels[i].name],
             n |-> [kk |-> st.n.k, a |-> st.n.a, b |-> st.n.b, c |-> st.n.c, m |-> st.n.m, lbl |-> st.n.lbl, str |-> st.n.str, strb |-> st.n.strb]]
\* RP: every rendering, for the harness to give to the real parser (`lc3v replay parse`)
Emit == phase = "read" => PrintT(<<"HIST", Render(Stmts(o)[k], o).bytes>>)
ReadsBack ==
  phase = "read" =>
    LET st == Stmts(o)[k]
        r  == Render(st, o)
        g  == ParseProgram(r.bytes)
        labels == IF o.nlab = 0 THEN <<>> ELSE IF o.nlab = 1 THEN <<<<81, 49>>>> ELSE <<<<81, 49>>, <<119, 95>>>>
    IN /\ g.ok /\ Len(g.stmts) = 1
       /\ Bare(g.stmts[1]) = [labels |-> labels, n |-> [kk |-> st.n.k, a |-> st.n.a, b |-> st.n.b, c |-> st.n.c, m |-> st.n.m, lbl |-> st.n.lbl, str |-> st.n.str, strb |-> st.n.strb]]
       /\ g.stmts[1].s = r.ns /\ g.stmts[1].e = r.ne
=============================================================================
