------------------------------ MODULE Grammar ------------------------------
(* The statement grammar of LC-3 assembly (`impl Parse for Stmt / AsmInstr /   *)
(* Directive`, parse.rs) over the tokens of Lexer!Tokenize.  A statement is    *)
(*   labels (each optionally followed by a colon, possibly on lines of their   *)
(*   own), then one instruction or directive, then the end of the line.        *)
(* The result has the shape of the harness's projection of `Stmt`:             *)
(*   [labels |-> <<[name, s, e]>>, n |-> [k,a,b,c,m,lbl,str,strb,ls,le], s, e] *)
(* Numeric operands are accepted per field exactly as C05 states.              *)
EXTENDS Lexer, Offsets

Nuc(k, a, b, c, m) == [k |-> k, a |-> a, b |-> b, c |-> c, m |-> m, lbl |-> <<>>, str |-> <<>>, strb |-> <<>>, ls |-> 0, le |-> 0]
WithLabel(n, tok) == [n EXCEPT !.m = 2, !.lbl = Decode8(tok.w), !.ls = tok.s, !.le = tok.e]

\* C05: a numeric token as the operand of a field.  [ok, v]
SignedField(num, bits) ==      \* imm5, offset6, PC offsets: the value must fit the signed field
  IF FitsS(num.v, bits) THEN [ok |-> TRUE, v |-> num.v] ELSE [ok |-> FALSE, v |-> 0]
UnsignedField(num, bits) ==    \* trap vectors, .orig, .blkw
  IF num.v >= 0 /\ FitsU(num.v, bits) THEN [ok |-> TRUE, v |-> num.v] ELSE [ok |-> FALSE, v |-> 0]
FillField(num) == [ok |-> TRUE, v |-> num.v % 65536]

Fail == [ok |-> FALSE]
\* parse state: toks, position p (1-based).  Helpers return [ok, p, ...]
At(toks, p) == IF p <= Len(toks) THEN toks[p] ELSE [t |-> "eof", w |-> <<>>, s |-> 0, e |-> 0]
Cls(tok) == IF tok.t = "word" THEN Classify(tok.w) ELSE [t |-> tok.t, name |-> "", k |-> "", v |-> 0]

ExpectComma(toks, p) == At(toks, p).t = "comma"
RegAt(toks, p) == LET c == Cls(At(toks, p)) IN IF c.t = "reg" THEN [ok |-> TRUE, v |-> c.v] ELSE [ok |-> FALSE, v |-> 0]
NumAt(toks, p) == LET c == Cls(At(toks, p)) IN IF c.t = "num" THEN [ok |-> TRUE, k |-> c.k, v |-> c.v] ELSE [ok |-> FALSE, k |-> "E", v |-> 0]
IsLabelAt(toks, p) == Cls(At(toks, p)).t = "label"

\* operand lists.  Result [ok, n (nucleus), p (next position), last (index of last token)]
Done(n, p) == [ok |-> TRUE, n |-> n, p |-> p]
NoGood == [ok |-> FALSE, n |-> Nuc("none", 0, 0, 0, 0), p |-> 0]

\* PC offset or label at p for a `bits`-wide field; where = "a" or "b" (which nucleus field takes the number)
PcOp(toks, p, base, bits, where) ==
  IF IsLabelAt(toks, p) THEN Done(WithLabel(base, At(toks, p)), p + 1)
  ELSE LET num == NumAt(toks, p) IN
       IF ~num.ok THEN NoGood
       ELSE LET f == SignedField(num, bits) IN
            IF ~f.ok THEN NoGood ELSE Done(IF where = "a" THEN [base EXCEPT !.a = f.v] ELSE [base EXCEPT !.b = f.v], p + 1)

Instr(toks, p, kw) ==      \* p: position just after the mnemonic
  LET r1 == RegAt(toks, p)  r2 == RegAt(toks, p + 2)  r3 == RegAt(toks, p + 4)
      c1 == ExpectComma(toks, p + 1)  c2 == ExpectComma(toks, p + 3)
  IN
  CASE kw \in {"ADD", "AND"} ->
         IF ~(r1.ok /\ c1 /\ r2.ok /\ c2) THEN NoGood
         ELSE IF r3.ok THEN Done(Nuc(kw, r1.v, r2.v, r3.v, 0), p + 5)
         ELSE LET num == NumAt(toks, p + 4) IN
              IF ~num.ok THEN NoGood
              ELSE LET f == SignedField(num, 5) IN IF f.ok THEN Done(Nuc(kw, r1.v, r2.v, f.v, 1), p + 5) ELSE NoGood
    [] kw = "NOT" -> IF r1.ok /\ c1 /\ r2.ok THEN Done(Nuc("NOT", r1.v, r2.v, 0, 0), p + 3) ELSE NoGood
    [] kw \in {"JMP", "JSRR"} -> IF r1.ok THEN Done(Nuc(kw, r1.v, 0, 0, 0), p + 1) ELSE NoGood
    [] kw \in {"LDR", "STR"} ->
         IF ~(r1.ok /\ c1 /\ r2.ok /\ c2) THEN NoGood
         ELSE LET num == NumAt(toks, p + 4) IN
              IF ~num.ok THEN NoGood
              ELSE LET f == SignedField(num, 6) IN IF f.ok THEN Done(Nuc(kw, r1.v, r2.v, f.v, 0), p + 5) ELSE NoGood
    [] kw \in {"LD", "LDI", "LEA", "ST", "STI"} -> IF r1.ok /\ c1 THEN PcOp(toks, p + 2, Nuc(kw, r1.v, 0, 0, 0), 9, "b") ELSE NoGood
    [] kw \in {"BR", "BRP", "BRZ", "BRZP", "BRN", "BRNP", "BRNZ", "BRNZP"} ->
         LET cc == CASE kw = "BR" -> 7 [] kw = "BRP" -> 1 [] kw = "BRZ" -> 2 [] kw = "BRZP" -> 3 [] kw = "BRN" -> 4
                     [] kw = "BRNP" -> 5 [] kw = "BRNZ" -> 6 [] kw = "BRNZP" -> 7
         IN PcOp(toks, p, Nuc("BR", cc, 0, 0, 0), 9, "b")
    [] kw = "JSR" -> PcOp(toks, p, Nuc("JSR", 0, 0, 0, 0), 11, "a")
    [] kw = "NOP" ->
         IF IsLabelAt(toks, p) \/ NumAt(toks, p).ok THEN PcOp(toks, p, Nuc("NOP", 0, 0, 0, 0), 9, "a")
         ELSE Done(Nuc("NOP", 0, 0, 0, 0), p)
    [] kw = "TRAP" ->
         LET num == NumAt(toks, p) IN
         IF ~num.ok THEN NoGood
         ELSE LET f == UnsignedField(num, 8) IN IF f.ok THEN Done(Nuc("TRAP", f.v, 0, 0, 0), p + 1) ELSE NoGood
    [] OTHER -> Done(Nuc(kw, 0, 0, 0, 0), p)        \* RET RTI GETC OUT PUTC PUTS IN PUTSP HALT

Direc(toks, p, d) ==       \* p: position just after the directive
  CASE d = "orig" ->
         LET num == NumAt(toks, p) IN
         IF ~num.ok THEN NoGood
         ELSE LET f == UnsignedField(num, 16) IN IF f.ok THEN Done(Nuc(".orig", f.v, 0, 0, 0), p + 1) ELSE NoGood
    [] d = "blkw" ->
         LET num == NumAt(toks, p) IN
         IF ~num.ok THEN NoGood
         ELSE LET f == UnsignedField(num, 16) IN IF f.ok /\ f.v # 0 THEN Done(Nuc(".blkw", f.v, 0, 0, 0), p + 1) ELSE NoGood
    [] d = "fill" ->
         IF IsLabelAt(toks, p) THEN Done(WithLabel(Nuc(".fill", 0, 0, 0, 0), At(toks, p)), p + 1)
         ELSE LET num == NumAt(toks, p) IN IF num.ok THEN Done(Nuc(".fill", FillField(num).v, 0, 0, 0), p + 1) ELSE NoGood
    [] d = "stringz" ->
         IF At(toks, p).t = "str"
         THEN Done([Nuc(".stringz", 0, 0, 0, 0) EXCEPT !.str = Decode8(At(toks, p).w), !.strb = At(toks, p).w], p + 1)
         ELSE NoGood
    [] d = "end" -> Done(Nuc(".end", 0, 0, 0, 0), p)
    [] d = "external" -> IF IsLabelAt(toks, p) THEN Done(WithLabel(Nuc(".external", 0, 0, 0, 0), At(toks, p)), p + 1) ELSE NoGood
    [] OTHER -> NoGood

\* leading blank lines and labels: returns [p, labels]
RECURSIVE Labels(_, _, _)
Labels(toks, p, acc) ==
  LET tk == At(toks, p) IN
  IF tk.t = "nl" THEN Labels(toks, p + 1, acc)
  ELSE IF tk.t = "word" /\ Classify(tk.w).t = "label"
       THEN LET lab == [name |-> Decode8(tk.w), s |-> tk.s, e |-> tk.e]
                q == IF At(toks, p + 1).t = "colon" THEN p + 2 ELSE p + 1
            IN Labels(toks, q, Append(acc, lab))
  ELSE [p |-> p, labels |-> acc]

RECURSIVE SkipNl(_, _)
SkipNl(toks, p) == IF At(toks, p).t = "nl" THEN SkipNl(toks, p + 1) ELSE p
AllNlFrom(toks, p) == \A i \in p..Len(toks) : toks[i].t = "nl"

\* one statement starting at p: [ok, stmt, p]
Stmt1(toks, p) ==
  LET L == Labels(toks, p, <<>>)
      tk == At(toks, L.p)
      c == Cls(tk)
      body == IF c.t = "kw" THEN Instr(toks, L.p + 1, c.name)
              ELSE IF c.t = "dir" THEN Direc(toks, L.p + 1, c.name) ELSE NoGood
  IN IF ~body.ok THEN [ok |-> FALSE, stmt |-> <<>>, p |-> 0]
     ELSE IF At(toks, body.p).t \notin {"nl", "eof"} THEN [ok |-> FALSE, stmt |-> <<>>, p |-> 0]
     ELSE [ok |-> TRUE,
           stmt |-> [labels |-> L.labels, n |-> body.n, s |-> tk.s, e |-> toks[body.p - 1].e],
           p |-> SkipNl(toks, body.p)]

RECURSIVE StmtsR(_, _, _)
StmtsR(toks, p, acc) ==
  IF AllNlFrom(toks, p) THEN [ok |-> TRUE, stmts |-> acc]
  ELSE LET r == Stmt1(toks, p) IN IF ~r.ok THEN [ok |-> FALSE, stmts |-> acc] ELSE StmtsR(toks, r.p, Append(acc, r.stmt))

\* the whole text: [ok, stmts]
ParseProgram(src) ==
  LET t == Tokenize(src) IN
  IF ~t.ok THEN [ok |-> FALSE, stmts |-> <<>>] ELSE StmtsR(t.toks, 1, <<>>)
=============================================================================
