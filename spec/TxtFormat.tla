----------------------------- MODULE TxtFormat -----------------------------
(* The text object-file format (asm/encoding.rs, TextFormat).                  *)
(*                                                                             *)
(* TxtWrite(o)  the exact bytes the writer produces for an object (the tables  *)
(*              are sorted, so the text is a function of the object);          *)
(* TxtRead(b)   the reader on texts of the writer's shape: magic line, the     *)
(*              sections .TEXT .SYMBOL .LINKER_INFO .DEBUG, tables with        *)
(*              " | " dividers, the two ==== dividers of .DEBUG, the SOURCE    *)
(*              cells unescaped and concatenated.  Comment and blank lines are *)
(*              skipped, cells are trimmed of ASCII blanks.  (What the real    *)
(*              reader does on texts outside this shape - Unicode trimming,    *)
(*              signs in numbers, other escapes - is not specified here; C19   *)
(*              only requires it not to panic.)                                *)
(*                                                                             *)
(* Objects are as in ObjFormat, with source offsets and line numbers below     *)
(* 2^31 (what assembling and linking produce): labels name -> [addr, ext, src],*)
(* rel addr -> name, lines start -> <<addr...>>, src bytes.                    *)
EXTENDS Naturals, Integers, Sequences, FiniteSets, TLC

NL == 10
Str(s) == s      \* byte sequences are written as tuples of codes

MAGIC    == <<76,67,45,51,32,79,66,74,32,70,73,76,69>>                 \* "LC-3 OBJ FILE"
DIV      == <<32,124,32>>                                               \* " | "
UNINIT   == <<63,63,63,63>>                                             \* "????"
DIVIDER  == [i \in 1..20 |-> 61]                                        \* "===================="
S_TEXT   == <<46,84,69,88,84>>
S_SYMBOL == <<46,83,89,77,66,79,76>>
S_LINKER == <<46,76,73,78,75,69,82,95,73,78,70,79>>
S_DEBUG  == <<46,68,69,66,85,71>>
COMMENT  == <<35,32,68,69,66,85,71,32,83,89,77,66,79,76,83,32,70,79,82,32,76,67,51,84,79,79,76,83>>   \* "# DEBUG SYMBOLS FOR LC3TOOLS"
W_ADDR   == <<65,68,68,82>>
W_EXT    == <<69,88,84>>
W_LABEL  == <<76,65,66,69,76>>
W_INDEX  == <<73,78,68,69,88>>
W_LINE   == <<76,73,78,69>>
W_SOURCE == <<83,79,85,82,67,69>>

---------------------------------------------------------------------------
\* numbers and padding
HexDigitU(d) == IF d < 10 THEN 48 + d ELSE 55 + d          \* upper case
HexDigitL(d) == IF d < 10 THEN 48 + d ELSE 87 + d          \* lower case
Hex4(v) == <<HexDigitU(v \div 4096), HexDigitU((v \div 256) % 16), HexDigitU((v \div 16) % 16), HexDigitU(v % 16)>>
RECURSIVE Dec(_)
Dec(n) == IF n < 10 THEN <<48 + n>> ELSE Dec(n \div 10) \o <<48 + (n % 10)>>
RECURSIVE HexL(_)
HexL(n) == IF n < 16 THEN <<HexDigitL(n)>> ELSE HexL(n \div 16) \o <<HexDigitL(n % 16)>>
Spaces(n) == [i \in 1..n |-> 32]
Max(a, b) == IF a >= b THEN a ELSE b
\* width is counted in characters, not bytes
NChars(s) == Cardinality({ i \in 1..Len(s) : s[i] < 128 \/ s[i] >= 192 })
PadRight(s, w) == s \o Spaces(IF w > NChars(s) THEN w - NChars(s) ELSE 0)     \* text: left-aligned
PadLeft(s, w)  == Spaces(IF w > Len(s) THEN w - Len(s) ELSE 0) \o s          \* numbers: right-aligned

RECURSIVE Cat(_)
Cat(ss) == IF ss = <<>> THEN <<>> ELSE Head(ss) \o Cat(Tail(ss))
Line(s) == s \o <<NL>>

\* lexicographic order on byte strings (= Rust's order on str) and on tuples of keys
RECURSIVE BytesLess(_, _)
BytesLess(a, b) == IF b = <<>> THEN FALSE ELSE IF a = <<>> THEN TRUE
                   ELSE IF a[1] # b[1] THEN a[1] < b[1] ELSE BytesLess(Tail(a), Tail(b))
\* sort a set by a strict total order: the element of rank i is the one with i - 1 smaller elements
SortBy(S, Less(_, _)) == [i \in 1..Cardinality(S) |-> CHOOSE x \in S : Cardinality({ y \in S : Less(y, x) }) = i - 1]
SetMax(S, dflt) == IF S = {} THEN dflt ELSE CHOOSE m \in S : \A x \in S : x <= m

---------------------------------------------------------------------------
\* char::escape_default on the characters of a UTF-8 string
RECURSIVE Escape(_)
Escape(s) ==
  IF s = <<>> THEN <<>>
  ELSE LET c == s[1] IN
    IF c = 9 THEN <<92, 116>> \o Escape(Tail(s))
    ELSE IF c = 13 THEN <<92, 114>> \o Escape(Tail(s))
    ELSE IF c = 10 THEN <<92, 110>> \o Escape(Tail(s))
    ELSE IF c = 39 \/ c = 34 \/ c = 92 THEN <<92, c>> \o Escape(Tail(s))
    ELSE IF c >= 32 /\ c <= 126 THEN <<c>> \o Escape(Tail(s))
    ELSE IF c < 128 THEN <<92, 117, 123>> \o HexL(c) \o <<125>> \o Escape(Tail(s))
    ELSE LET n  == IF c >= 240 THEN 4 ELSE IF c >= 224 THEN 3 ELSE 2
             cp == IF n = 2 THEN (c - 192) * 64 + (s[2] - 128)
                   ELSE IF n = 3 THEN (c - 224) * 4096 + (s[2] - 128) * 64 + (s[3] - 128)
                   ELSE (c - 240) * 262144 + (s[2] - 128) * 4096 + (s[3] - 128) * 64 + (s[4] - 128)
         IN <<92, 117, 123>> \o HexL(cp) \o <<125>> \o Escape(SubSeq(s, n + 1, Len(s)))

\* the inverse, on what Escape produces; [ok, s]
Utf8Of(cp) == IF cp < 128 THEN <<cp>>
              ELSE IF cp < 2048 THEN <<192 + cp \div 64, 128 + (cp % 64)>>
              ELSE IF cp < 65536 THEN <<224 + cp \div 4096, 128 + ((cp \div 64) % 64), 128 + (cp % 64)>>
              ELSE <<240 + cp \div 262144, 128 + ((cp \div 4096) % 64), 128 + ((cp \div 64) % 64), 128 + (cp % 64)>>
HexVal(c) == IF c >= 48 /\ c <= 57 THEN c - 48 ELSE IF c >= 97 /\ c <= 102 THEN c - 87 ELSE IF c >= 65 /\ c <= 70 THEN c - 55 ELSE -1
RECURSIVE HexRun(_, _, _)
HexRun(s, i, acc) ==      \* hex digits from index i up to '}' : [ok, v, next]
  IF i > Len(s) THEN [ok |-> FALSE, v |-> 0, next |-> i]
  ELSE IF s[i] = 125 THEN [ok |-> TRUE, v |-> acc, next |-> i + 1]
  ELSE IF HexVal(s[i]) < 0 \/ acc >= 1114112 THEN [ok |-> FALSE, v |-> 0, next |-> i]
  ELSE HexRun(s, i + 1, acc * 16 + HexVal(s[i]))
RECURSIVE UnescapeFrom(_, _)
UnescapeFrom(s, i) ==
  IF i > Len(s) THEN [ok |-> TRUE, s |-> <<>>]
  ELSE IF s[i] # 92 THEN LET r == UnescapeFrom(s, i + 1) IN [ok |-> r.ok, s |-> <<s[i]>> \o r.s]
  ELSE IF i = Len(s) THEN [ok |-> FALSE, s |-> <<>>]
  ELSE LET e == s[i + 1] IN
    IF e \in {116, 114, 110, 39, 34, 92}
    THEN LET r == UnescapeFrom(s, i + 2) IN
         [ok |-> r.ok, s |-> <<CASE e = 116 -> 9 [] e = 114 -> 13 [] e = 110 -> 10 [] OTHER -> e>> \o r.s]
    ELSE IF e = 117 /\ i + 2 <= Len(s) /\ s[i + 2] = 123
    THEN LET h == HexRun(s, i + 3, 0) IN
         IF ~h.ok \/ h.next = i + 4 THEN [ok |-> FALSE, s |-> <<>>]
         ELSE LET r == UnescapeFrom(s, h.next) IN [ok |-> r.ok, s |-> Utf8Of(h.v) \o r.s]
    ELSE [ok |-> FALSE, s |-> <<>>]
Unescape(s) == UnescapeFrom(s, 1)

---------------------------------------------------------------------------
\* the source as lines (each with its newline, the last one without)
NlIdx(src) == { i \in 1..Len(src) : src[i] = NL }
RECURSIVE SortedNat(_)
SortedNat(S) == IF S = {} THEN <<>> ELSE LET m == CHOOSE m \in S : \A x \in S : m <= x IN <<m>> \o SortedNat(S \ {m})
NLines(src) == Cardinality(NlIdx(src)) + 1
RawLine(src, k) ==         \* k-th line, 0-based, with its newline
  LET nl == SortedNat(NlIdx(src))
      start == IF k = 0 THEN 1 ELSE nl[k] + 1
      end == IF k + 1 <= Len(nl) THEN nl[k + 1] ELSE Len(src)
  IN SubSeq(src, start, end)

\* line number -> address of the mapped lines
LineAddr(lines) == [l \in UNION { { x + k - 1 : k \in 1..Len(lines[x]) } : x \in DOMAIN lines } |->
                      LET x == CHOOSE x \in DOMAIN lines : l >= x /\ l < x + Len(lines[x]) IN lines[x][l - x + 1]]

---------------------------------------------------------------------------
\* the writer
TxtWrite(o) ==
  LET bs == SortedNat(DOMAIN o.blocks)
      textpart == Cat([k \in 1..Len(bs) |->
                    Line(Hex4(bs[k])) \o Line(Dec(Len(o.blocks[bs[k]])))
                    \o Cat([j \in 1..Len(o.blocks[bs[k]]) |-> Line(IF o.blocks[bs[k]][j] < 0 THEN UNINIT ELSE Hex4(o.blocks[bs[k]][j]))])])
      \* .SYMBOL rows by (addr, name, ext)
      SymLess(a, b) == o.labels[a].addr < o.labels[b].addr \/ (o.labels[a].addr = o.labels[b].addr /\ BytesLess(a, b))
      syms == SortBy(DOMAIN o.labels, SymLess)
      sympart == Line(S_SYMBOL)
                 \o (IF syms = <<>> THEN <<>> ELSE
                       Line(W_ADDR \o DIV \o W_EXT \o DIV \o W_LABEL)
                       \o Cat([k \in 1..Len(syms) |-> Line(Hex4(o.labels[syms[k]].addr) \o DIV \o <<32, 32, IF o.labels[syms[k]].ext THEN 49 ELSE 48>> \o DIV \o syms[k])]))
                 \o <<NL>>
      rels == SortedNat(DOMAIN o.rel)
      relpart == Line(S_LINKER)
                 \o (IF rels = <<>> THEN <<>> ELSE
                       Line(W_ADDR \o DIV \o W_LABEL) \o Cat([k \in 1..Len(rels) |-> Line(Hex4(rels[k]) \o DIV \o o.rel[rels[k]])]))
                 \o <<NL>>
      \* .DEBUG label rows by (index, name)
      IdxLess(a, b) == o.labels[a].src < o.labels[b].src \/ (o.labels[a].src = o.labels[b].src /\ BytesLess(a, b))
      idxs == SortBy(DOMAIN o.labels, IdxLess)
      lcol == Max(5, SetMax({ Len(k) : k \in DOMAIN o.labels }, 0))
      icol == Max(5, SetMax({ Len(Dec(o.labels[k].src)) : k \in DOMAIN o.labels }, 0))
      labpart == IF idxs = <<>> THEN <<>> ELSE
                   Line(PadRight(W_LABEL, lcol) \o DIV \o PadRight(W_INDEX, icol))
                   \o Cat([k \in 1..Len(idxs) |-> Line(PadRight(idxs[k], lcol) \o DIV \o PadLeft(Dec(o.labels[idxs[k]].src), icol))])
      la == LineAddr(o.lines)
      lastline == Max(NLines(o.src) - 1, IF DOMAIN la = {} THEN 0 ELSE CHOOSE m \in DOMAIN la : \A x \in DOMAIN la : x <= m)
      rows == SortedNat((0..(NLines(o.src) - 1)) \cup DOMAIN la)
      ncol == Max(4, Len(Dec(lastline)))
      linepart == IF ~o.dbg THEN <<>> ELSE
                    Line(PadRight(W_LINE, ncol) \o DIV \o W_ADDR \o DIV \o W_SOURCE)
                    \o Cat([k \in 1..Len(rows) |->
                          Line(PadLeft(Dec(rows[k]), ncol) \o DIV \o (IF rows[k] \in DOMAIN la THEN Hex4(la[rows[k]]) ELSE UNINIT) \o DIV
                               \o Escape(IF rows[k] < NLines(o.src) THEN RawLine(o.src, rows[k]) ELSE <<>>))])
  IN Line(MAGIC) \o <<NL>> \o Line(S_TEXT) \o textpart \o <<NL>>
     \o (IF ~o.sym THEN <<>> ELSE
           sympart \o relpart \o Line(S_DEBUG) \o Line(COMMENT) \o <<NL>> \o labpart \o Line(DIVIDER) \o linepart \o Line(DIVIDER))

---------------------------------------------------------------------------
\* the reader (texts of the writer's shape)
RECURSIVE SplitLines(_, _, _)
SplitLines(b, i, cur) ==      \* split at NL; a CR before the NL is dropped
  IF i > Len(b) THEN (IF cur = <<>> THEN <<>> ELSE <<cur>>)
  ELSE IF b[i] = NL THEN <<IF cur # <<>> /\ cur[Len(cur)] = 13 THEN SubSeq(cur, 1, Len(cur) - 1) ELSE cur>> \o SplitLines(b, i + 1, <<>>)
  ELSE SplitLines(b, i + 1, Append(cur, b[i]))
Blank(c) == c \in {32, 9, 13, 10, 11, 12}
RECURSIVE TrimL(_)
TrimL(s) == IF s # <<>> /\ Blank(s[1]) THEN TrimL(Tail(s)) ELSE s
RECURSIVE TrimR(_)
TrimR(s) == IF s # <<>> /\ Blank(s[Len(s)]) THEN TrimR(SubSeq(s, 1, Len(s) - 1)) ELSE s
Trim(s) == TrimR(TrimL(s))
StartsWith(s, c) == s # <<>> /\ s[1] = c

\* split at the first n-1 occurrences of " | "
RECURSIVE FindDiv(_, _)
FindDiv(s, i) == IF i + 2 > Len(s) THEN 0 ELSE IF SubSeq(s, i, i + 2) = DIV THEN i ELSE FindDiv(s, i + 1)
RECURSIVE SplitN(_, _)
SplitN(s, n) == IF n = 1 THEN <<s>>
                ELSE LET p == FindDiv(s, 1) IN
                     IF p = 0 THEN <<s>> ELSE <<SubSeq(s, 1, p - 1)>> \o SplitN(SubSeq(s, p + 3, Len(s)), n - 1)
Cells(s, n) == LET c == SplitN(s, n) IN [k \in 1..n |-> IF k <= Len(c) THEN c[k] ELSE <<>>]

DigitsOK(s) == s # <<>> /\ \A k \in 1..Len(s) : s[k] >= 48 /\ s[k] <= 57
RECURSIVE DecVal(_, _)
DecVal(s, acc) == IF s = <<>> THEN acc ELSE IF acc > 100000000 THEN -1 ELSE DecVal(Tail(s), acc * 10 + (s[1] - 48))
DecOf(s) == IF DigitsOK(s) THEN DecVal(s, 0) ELSE -1
Hex4Of(s) == IF Len(s) = 4 /\ \A k \in 1..4 : HexVal(s[k]) >= 0
             THEN HexVal(s[1]) * 4096 + HexVal(s[2]) * 256 + HexVal(s[3]) * 16 + HexVal(s[4]) ELSE -1
WordOf(s) == IF s = UNINIT THEN -1 ELSE Hex4Of(s)        \* -1 uninitialized, -2 malformed
WordOK(s) == s = UNINIT \/ Hex4Of(s) >= 0

Put(f, k, v) == (k :> v) @@ f
Bad == [ok |-> FALSE]

\* .TEXT: origin, length, words ...
RECURSIVE ReadBlocks(_, _, _)
ReadBlocks(ls, i, acc) ==
  IF i > Len(ls) THEN [ok |-> TRUE, blocks |-> acc]
  ELSE IF i + 1 > Len(ls) THEN [ok |-> FALSE, blocks |-> acc]
  ELSE LET orig == Hex4Of(ls[i])  n == DecOf(ls[i + 1]) IN
       IF orig < 0 \/ n < 0 \/ n > 65535 \/ i + 1 + n > Len(ls) \/ orig \in DOMAIN acc
          \/ \E k \in 1..n : ~WordOK(ls[i + 1 + k]) THEN [ok |-> FALSE, blocks |-> acc]
       ELSE ReadBlocks(ls, i + 2 + n, Put(acc, orig, [k \in 1..n |-> WordOf(ls[i + 1 + k])]))

HeaderOK(line, cols) == LET c == SplitN(line, Len(cols)) IN Len(c) = Len(cols) /\ \A k \in 1..Len(cols) : Trim(c[k]) = cols[k]

\* the condensed line map of a list of optional addresses (a run that reaches the end of the list is dropped,
\* as LineSymbolMap::new does: the writer's tables end with an unmapped line)
RECURSIVE Runs(_, _, _, _)
Runs(q, i, cur, acc) ==
  IF i > Len(q) THEN acc
  ELSE IF q[i] >= 0 THEN Runs(q, i + 1, Append(cur, q[i]), acc)
  ELSE Runs(q, i + 1, <<>>, IF cur = <<>> THEN acc ELSE Put(acc, (i - 1) - Len(cur), cur))

TxtRead(b) ==
  LET all == SplitLines(b, 1, <<>>)
      ls0 == SelectSeq(all, LAMBDA x : ~StartsWith(x, 35) /\ Trim(x) # <<>>)
  IN IF ls0 = <<>> \/ ls0[1] # MAGIC THEN Bad
     ELSE
       LET ls == Tail(ls0)
           heads == { k \in 1..Len(ls) : StartsWith(ls[k], 46) }
           GroupEnd(k) == IF \E j \in heads : j > k THEN (CHOOSE j \in heads : j > k /\ \A x \in heads : x > k => j <= x) - 1 ELSE Len(ls)
           Rest(k) == SubSeq(ls, k + 1, GroupEnd(k))
           Has(name) == \E k \in heads : ls[k] = name
           Sec(name) == Rest(CHOOSE k \in heads : ls[k] = name)
       IN IF (ls # <<>> /\ 1 \notin heads) \/ (\E k \in heads : ls[k] \notin {S_TEXT, S_SYMBOL, S_LINKER, S_DEBUG})
             \/ (\E j, k \in heads : j # k /\ ls[j] = ls[k]) THEN Bad      \* (repeated sections are outside the writer's shape)
          ELSE
            LET tb == IF Has(S_TEXT) THEN ReadBlocks(Sec(S_TEXT), 1, <<>>) ELSE [ok |-> TRUE, blocks |-> <<>>]
                sy == IF Has(S_SYMBOL) THEN Sec(S_SYMBOL) ELSE <<>>
                li == IF Has(S_LINKER) THEN Sec(S_LINKER) ELSE <<>>
                db == IF Has(S_DEBUG) THEN Sec(S_DEBUG) ELSE <<>>
                syrows == IF sy = <<>> THEN <<>> ELSE [k \in 1..(Len(sy) - 1) |-> LET c == Cells(sy[k + 1], 3) IN [k2 \in 1..3 |-> Trim(c[k2])]]
                syok == sy = <<>> \/ (HeaderOK(sy[1], <<W_ADDR, W_EXT, W_LABEL>>)
                                      /\ \A k \in 1..Len(syrows) : Hex4Of(syrows[k][1]) >= 0 /\ DecOf(syrows[k][2]) \in 0..255)
                lirows == IF li = <<>> THEN <<>> ELSE [k \in 1..(Len(li) - 1) |-> LET c == Cells(li[k + 1], 2) IN [k2 \in 1..2 |-> Trim(c[k2])]]
                liok == li = <<>> \/ (HeaderOK(li[1], <<W_ADDR, W_LABEL>>) /\ \A k \in 1..Len(lirows) : Hex4Of(lirows[k][1]) >= 0)
                divs == { k \in 1..Len(db) : StartsWith(db[k], 61) }
                dbshape == db = <<>> \/ (Cardinality(divs) >= 2 /\ Len(db) \in divs)
                d1 == IF divs = {} THEN 0 ELSE CHOOSE k \in divs : \A x \in divs : k <= x
                lab == IF db = <<>> \/ ~dbshape THEN <<>> ELSE SubSeq(db, 1, d1 - 1)
                lin == IF db = <<>> \/ ~dbshape THEN <<>> ELSE SubSeq(db, d1 + 1, Len(db) - 1)
                labrows == IF lab = <<>> THEN <<>> ELSE [k \in 1..(Len(lab) - 1) |-> LET c == Cells(lab[k + 1], 2) IN [k2 \in 1..2 |-> Trim(c[k2])]]
                labok == lab = <<>> \/ (HeaderOK(lab[1], <<W_LABEL, W_INDEX>>) /\ \A k \in 1..Len(labrows) : DecOf(labrows[k][2]) >= 0)
                linrows == IF lin = <<>> THEN <<>> ELSE [k \in 1..(Len(lin) - 1) |-> Cells(lin[k + 1], 3)]
                linok == lin = <<>> \/ (HeaderOK(lin[1], <<W_LINE, W_ADDR, W_SOURCE>>)
                                        /\ \A k \in 1..Len(linrows) : DecOf(Trim(linrows[k][1])) = k - 1 /\ WordOK(Trim(linrows[k][2])))
                rawsrc == Cat([k \in 1..Len(linrows) |-> linrows[k][3]])
                un == Unescape(rawsrc)
                dbg == linrows # <<>>
                \* labels: .SYMBOL gives address and flag, .DEBUG the source offset; either alone creates the entry
                names == { syrows[k][3] : k \in 1..Len(syrows) } \cup { labrows[k][1] : k \in 1..Len(labrows) }
                LastSy(nm) == IF \E k \in 1..Len(syrows) : syrows[k][3] = nm
                              THEN syrows[CHOOSE k \in 1..Len(syrows) : syrows[k][3] = nm /\ \A j \in 1..Len(syrows) : syrows[j][3] = nm => j <= k]
                              ELSE <<<<48,48,48,48>>, <<48>>, nm>>
                LastLab(nm) == IF \E k \in 1..Len(labrows) : labrows[k][1] = nm
                               THEN DecOf(labrows[CHOOSE k \in 1..Len(labrows) : labrows[k][1] = nm /\ \A j \in 1..Len(labrows) : labrows[j][1] = nm => j <= k][2])
                               ELSE 0
                labels == [nm \in names |-> [addr |-> Hex4Of(LastSy(nm)[1]), ext |-> DecOf(LastSy(nm)[2]) # 0, src |-> LastLab(nm)]]
                rel == [a \in { Hex4Of(lirows[k][1]) : k \in 1..Len(lirows) } |->
                          lirows[CHOOSE k \in 1..Len(lirows) : Hex4Of(lirows[k][1]) = a /\ \A j \in 1..Len(lirows) : Hex4Of(lirows[j][1]) = a => j <= k][2]]
                lines == Runs([k \in 1..Len(linrows) |-> WordOf(Trim(linrows[k][2]))], 1, <<>>, <<>>)
                sym == names # {} \/ dbg
                runsok == \A x \in DOMAIN lines : \A k \in 1..(Len(lines[x]) - 1) : lines[x][k] <= lines[x][k + 1]
            IN IF ~tb.ok \/ ~syok \/ ~liok \/ ~dbshape \/ ~labok \/ ~linok \/ (dbg /\ (~un.ok \/ ~runsok)) THEN Bad
               ELSE [ok |-> TRUE,
                     obj |-> [blocks |-> tb.blocks, sym |-> sym, labels |-> IF sym THEN labels ELSE <<>>,
                              rel |-> IF sym THEN rel ELSE <<>>, dbg |-> dbg,
                              lines |-> IF dbg THEN lines ELSE <<>>, src |-> IF dbg THEN un.s ELSE <<>>]]

\* what the queries show (as ObjFormat!View, with plain integers)
LinePairs(lines) == UNION { { <<x + k - 1, lines[x][k]>> : k \in 1..Len(lines[x]) } : x \in DOMAIN lines }
View(o) == [blocks |-> { <<a, o.blocks[a]>> : a \in DOMAIN o.blocks },
            sym    |-> o.sym,
            labels |-> { <<k, o.labels[k].addr, o.labels[k].ext, o.labels[k].src>> : k \in DOMAIN o.labels },
            rel    |-> { <<a, o.rel[a]>> : a \in DOMAIN o.rel },
            dbg    |-> o.dbg,
            lines  |-> LinePairs(o.lines),
            src    |-> o.src]
=============================================================================
