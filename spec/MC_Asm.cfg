SPECIFICATION Spec
CONSTANT MaxLen = 4
INVARIANT Agree
CHECK_DEADLOCK FALSE
