--------------------------- MODULE MC_TxtFormat ---------------------------
(* The text object format checked inside the specification: every object of  *)
(* a small universe - reserved words, an empty block, labels with non-ASCII  *)
(* names and equal addresses / offsets, relocation entries, line maps, and   *)
(* sources with quotes, backslashes, tabs, CR LF, control and non-ASCII      *)
(* characters, " | ", and lines beginning with '#', '=', '.' - is written by *)
(* TxtWrite and read back by TxtRead as itself (C18).                        *)
EXTENDS TxtFormat

VARIABLES o, phase
vars == <<o, phase>>

NameA == <<65>>
NameE == <<195, 169>>
NameL == <<76, 79, 78, 71, 95, 78, 65, 77, 69>>
BlockChoices == { <<>>, (12288 :> <<4660, -1>>), (12288 :> <<61477>>) @@ (65023 :> <<255, -1, 0>>), (0 :> <<>>) }
LabelChoices == { <<>>, (NameA :> [addr |-> 12288, ext |-> FALSE, src |-> 0]),
                  (NameA :> [addr |-> 12288, ext |-> FALSE, src |-> 12]) @@ (NameE :> [addr |-> 12288, ext |-> FALSE, src |-> 12]),
                  (NameE :> [addr |-> 0, ext |-> TRUE, src |-> 123456]) @@ (NameL :> [addr |-> 65023, ext |-> FALSE, src |-> 7]) }
RelChoices   == { <<>>, (12288 :> NameE), (12289 :> NameE) @@ (65023 :> NameA) }
\* (a mapped line is always followed by an unmapped one: the `.end` line)
Srcs == { <<>>, <<120, 10>>, <<120, 10, 121>>,
          <<34, 92, 9, 13, 10, 39, 10>>,                         \* " \ TAB CR LF ' LF
          <<35, 99, 10, 61, 61, 10, 46, 84, 10, 32, 124, 32, 10>>,    \* #c LF == LF .T LF " | " LF
          <<195, 169, 1, 127, 10, 240, 159, 152, 128>>,           \* e-acute, x01, DEL, LF, U+1F600
          <<10, 10, 32, 10>> }
LineChoices(src) == { <<>> } \cup (IF NLines(src) >= 2 THEN { (0 :> <<12288>>) } ELSE {})
                    \cup (IF NLines(src) >= 4 THEN { (0 :> <<12288, 12289>>) @@ (2 :> <<65023>>) } ELSE {})

Objects ==
  UNION { { [blocks |-> bl, sym |-> (DOMAIN lb # {} \/ dbg), labels |-> lb,
             rel |-> IF DOMAIN lb # {} \/ dbg THEN rl ELSE <<>>, dbg |-> dbg,
             lines |-> IF dbg THEN ln ELSE <<>>, src |-> IF dbg THEN sr ELSE <<>>]
            : bl \in BlockChoices, lb \in LabelChoices, rl \in RelChoices, dbg \in BOOLEAN, ln \in LineChoices(sr) }
          : sr \in Srcs }

Init == phase = "gen" /\ o = [blocks |-> <<>>, sym |-> FALSE, labels |-> <<>>, rel |-> <<>>, dbg |-> FALSE, lines |-> <<>>, src |-> <<>>]
Next == phase = "gen" /\ \E x \in Objects : o' = x /\ phase' = "chk"
Spec == Init /\ [][Next]_vars

\* RP: the text of every object, for the harness to give to the real reader (`lc3v replay txt`)
Emit == phase = "chk" => PrintT(<<"HIST", TxtWrite(o)>>)
RoundTrip ==
  phase = "chk" => LET r == TxtRead(TxtWrite(o)) IN r.ok /\ View(r.obj) = View(o)
\* escaping alone, on every source of the universe and all their prefixes
EscapeInverse ==
  phase = "chk" => \A n \in 0..Len(o.src) :
     LET p == SubSeq(o.src, 1, n) IN
     \* (a prefix may cut a multi-byte character: only whole characters are escaped)
     (n = Len(o.src) \/ o.src[n + 1] < 128 \/ o.src[n + 1] >= 192) => Unescape(Escape(p)) = [ok |-> TRUE, s |-> p]
=============================================================================
