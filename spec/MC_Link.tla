------------------------------- MODULE MC_Link -------------------------------
(* Model checking of the linker specification: for every ordered selection of  *)
(* two or three object files from a universe of small assembled files (shared, *)
(* conflicting and external labels; touching, overlapping and disjoint blocks; *)
(* a label on an .end line; externals declared before and after their use;     *)
(* with and without debug symbols), C20, C21 and C22 hold of Linker!Link.      *)
EXTENDS AsmTpl, TLC

\* the files, as template sequences (see AsmTpl!Tpl)
FileTs ==
  << <<1, 7, 6, 5>>,          \* 1: x3000: A .fill 5 ; ADD                  defines A = x3000
     <<12, 17, 10, 6, 5>>,    \* 2: .external A ; x4000: .fill A ; ADD        uses A
     <<17, 10, 5, 12>>,       \* 3: x4000: .fill A ; .external A afterwards   uses A, overlaps 2
     <<18, 8, 5>>,            \* 4: x3002: a ADD                              defines A = x3002 (conflict with 1), touches 1
     <<4, 6, 5>>,             \* 5: x3001: ADD                                overlaps 1
     <<19, 11, 15>>,          \* 6: x5000: .blkw 2 ; A .end                   defines A = x5002 on the .end line
     <<12, 19, 10, 5>>,       \* 7: .external A ; x5000: .fill A              uses A, overlaps 6
     <<12>>,                  \* 8: .external A only
     <<19, 6, 5>> >>          \* 9: x5000: ADD, no labels
NFiles == Len(FileTs)
ObjOf(f, dbg) == Assemble(ProgOf(FileTs[f]), SrcOf(FileTs[f]), dbg).obj
ASSUME \A f \in 1..NFiles : Assemble(ProgOf(FileTs[f]), SrcOf(FileTs[f]), TRUE).ok /\ Assemble(ProgOf(FileTs[f]), SrcOf(FileTs[f]), FALSE).ok

VARIABLES sel, phase            \* sel: sequence of <<file, dbg>>
vars == <<sel, phase>>
Init == sel = <<>> /\ phase = "gen"
Next == \/ phase = "gen" /\ Len(sel) < 3 /\ \E f \in 1..NFiles, d \in BOOLEAN : sel' = Append(sel, <<f, d>>) /\ phase' = "gen"
        \/ phase = "gen" /\ Len(sel) >= 2 /\ phase' = "chk" /\ UNCHANGED sel
Spec == Init /\ [][Next]_vars

O(i) == ObjOf(sel[i][1], sel[i][2])
L2(a, b) == Link(a, b)
\* link a then b then c, left-nested / right-nested; failure propagates
LinkL(a, b, c) == LET ab == Link(a, b) IN IF ab.ok THEN Link(ab.obj, c) ELSE ab
LinkR(a, b, c) == LET bc == Link(b, c) IN IF bc.ok THEN Link(a, bc.obj) ELSE bc

PairProp(a, b) ==
  LET L == Link(a, b) IN
  /\ (a.sym /\ b.sym) => (L.ok = (Disjoint(a, b) /\ ~LabelConflict(a, b)))
  /\ ~Disjoint(a, b) => ~L.ok
  /\ (L.ok /\ a.sym /\ b.sym) =>
       /\ ImageOfBlocks(L.obj.blocks) = ExpImageOf(a, b)
       /\ LabelsOfObj(L.obj.labels) = ExpLabelsOf(a, b)
       /\ RelOfObj(L.obj.rel) = ExpRelOf(a, b)
       \* C21: a reference nobody defines keeps the result unloadable; a resolved one is gone
       /\ (ExpRelOf(a, b) # {}) => Unresolved(L.obj)
  \* C22: every mapped address reads the line it read in the file it came from
  /\ (L.ok /\ a.dbg /\ b.dbg) =>
       /\ \A q \in a.lines : <<q[1], q[2]>> \in L.obj.lines /\ ReadLine(L.obj.src, q[1]) = ReadLine(a.src, q[1])
       /\ \A q \in b.lines : \E p \in L.obj.lines : p[2] = q[2] /\ ReadLine(L.obj.src, p[1]) = ReadLine(b.src, q[1])
       /\ \A p \in L.obj.lines : (\E q \in a.lines : q[2] = p[2]) \/ (\E q \in b.lines : q[2] = p[2])
       \* label offsets: a's stay, b's move behind a's text and its separating newline
       /\ \A k \in DOMAIN L.obj.labels :
            \/ k \in DOMAIN a.labels /\ L.obj.labels[k].src = a.labels[k].src
            \/ k \in DOMAIN b.labels /\ L.obj.labels[k].src = b.labels[k].src + Len(a.src) + 1

SameOutcome(x, y) == x.ok = y.ok /\ (x.ok => Core(x.obj) = Core(y.obj))

Prop ==
  phase = "chk" =>
  IF Len(sel) = 2
  THEN PairProp(O(1), O(2)) /\ PairProp(O(2), O(1))
       /\ ((O(1).sym /\ O(2).sym) => SameOutcome(Link(O(1), O(2)), Link(O(2), O(1))))
  ELSE LET a == O(1)  b == O(2)  c == O(3) IN
       (a.sym /\ b.sym /\ c.sym) =>
         /\ SameOutcome(LinkL(a, b, c), LinkR(a, b, c))
         /\ SameOutcome(LinkL(a, b, c), LinkL(b, a, c))
         /\ SameOutcome(LinkL(a, b, c), LinkL(a, c, b))
         /\ SameOutcome(LinkL(a, b, c), LinkL(c, b, a))
         /\ SameOutcome(LinkL(a, b, c), LinkR(c, a, b))
         /\ SameOutcome(LinkL(a, b, c), LinkR(b, c, a))
=============================================================================
