------------------------------ MODULE TV_Parse ------------------------------
(* Trace validation of the lexer and the parser (C03, C04, C05, C36): records  *)
(* of the real `parse_ast` / lexer, each an independent behaviour call -> ret; *)
(* on `ret`, `why` holds the names of the failed checks (see TV_Asm).          *)
EXTENDS Grammar, Json, IOUtils, TLC

Rec == ndJsonDeserialize(IOEnv.TRACE)
N   == Len(Rec)

VARIABLES l, phase, why
vars == <<l, phase, why>>

Rng(s) == { s[i] : i \in 1..Len(s) }

\* a statement without its spans: what was written
Bare(st) == [labels |-> [i \in 1..Len(st.labels) |-> st.labels[i].name],
             n |-> [k |-> st.n.k, a |-> st.n.a, b |-> st.n.b, c |-> st.n.c, m |-> st.n.m, lbl |-> st.n.lbl, str |-> st.n.str]]
BareSeq(ss) == [i \in 1..Len(ss) |-> Bare(ss[i])]
Spans(ss) == [i \in 1..Len(ss) |-> <<ss[i].s, ss[i].e>>]
LabelSpans(ss) == [i \in 1..Len(ss) |-> [j \in 1..Len(ss[i].labels) |-> <<ss[i].labels[j].s, ss[i].labels[j].e>>]]

---------------------------------------------------------------------------
\* C03: every rendering of a generated statement list
ParseWhy(r) ==
  LET V == r.variants
      G(i) == ParseProgram(V[i].src)
  IN
     (IF \E i \in 1..Len(V) : V[i].res = "panic" \/ V[i].asm.res = "panic" THEN {"panic"} ELSE {})
     \* the parser returns exactly the written statements ...
  \cup (IF \E i \in 1..Len(V) : V[i].res # "ok" \/ BareSeq(V[i].stmts) # r.gen THEN {"stmts-written"} ELSE {})
     \* ... each with a span covering its instruction or directive text (where the renderer put it), labels too
  \cup (IF \E i \in 1..Len(V) : V[i].res = "ok" /\ (Spans(V[i].stmts) # V[i].gspans \/ LabelSpans(V[i].stmts) # V[i].glabels) THEN {"spans"} ELSE {})
     \* ... and exactly what the grammar of the specification reads in the text
  \cup (IF \E i \in 1..Len(V) : LET g == G(i) IN V[i].res = "ok" /\ (~g.ok \/ g.stmts # V[i].stmts) THEN {"grammar"} ELSE {})
  \cup (IF \E i \in 1..Len(V) : V[i].res # "ok" /\ G(i).ok THEN {"grammar-accept"} ELSE {})
     \* consequently layout does not change the assembled image or the label addresses
  \cup (IF \E i, j \in 1..Len(V) : V[i].asm # V[j].asm THEN {"layout-image"} ELSE {})

---------------------------------------------------------------------------
\* C05: numeric and register spellings
FieldBits(f) == CASE f = "imm5" -> 5 [] f = "off6" -> 6 [] f \in {"pc9", "br9", "nop9"} -> 9 [] f = "pc11" -> 11
                  [] f = "trap8" -> 8 [] f \in {"orig", "blkw", "fill"} -> 16 [] OTHER -> 0
NumWhy(r) ==
  LET w == r.text
      lit == IF w = <<>> THEN [form |-> "bad", v |-> 0] ELSE Literal(w)
      tok == IF w = <<>> THEN [k |-> "E", v |-> 0] ELSE NumTok(w)
      wellformed == lit.form # "bad"
      isreg == w # <<>> /\ IsRegSpelling(w)
      reg == IF isreg THEN RegTok(w) ELSE [k |-> "E", v |-> 0]
      FieldExp(f) ==      \* [ok, v] the property's acceptance of the value as operand of field f
        IF tok.k = "E" THEN [ok |-> FALSE, v |-> 0]
        ELSE CASE f \in {"imm5", "off6", "pc9", "br9", "pc11", "nop9"} -> SignedField(tok, FieldBits(f))
               [] f \in {"trap8", "orig"} -> UnsignedField(tok, FieldBits(f))
               [] f = "blkw" -> LET u == UnsignedField(tok, 16) IN IF u.ok /\ u.v # 0 THEN u ELSE [ok |-> FALSE, v |-> 0]
               [] f = "fill" -> FillField(tok)
               [] OTHER -> [ok |-> FALSE, v |-> 0]
  IN
     (IF r.tok.k = "panic" \/ \E j \in 1..Len(r.fields) : r.fields[j].ok = -1 THEN {"panic"} ELSE {})
     \* a well-formed literal is accepted exactly when its value is in range, and denotes that value
  \cup (IF wellformed /\ (r.tok.k # tok.k \/ (tok.k # "E" /\ r.tok.v # tok.v)) THEN {"num-token"} ELSE {})
     \* register spellings
  \cup (IF isreg /\ (r.tok.k # reg.k \/ (reg.k = "R" /\ r.tok.v # reg.v)) THEN {"reg-token"} ELSE {})
     \* as an operand of an N-bit field
  \cup (IF wellformed /\ \E j \in 1..Len(r.fields) :
            LET f == r.fields[j] IN f.f # "reg" /\ LET e == FieldExp(f.f) IN (f.ok = 1) # e.ok \/ (e.ok /\ f.ok = 1 /\ f.v # e.v)
        THEN {"num-field"} ELSE {})
  \cup (IF isreg /\ \E j \in 1..Len(r.fields) : r.fields[j].f = "reg" /\ ((r.fields[j].ok = 1) # (reg.k = "R") \/ (reg.k = "R" /\ r.fields[j].ok = 1 /\ r.fields[j].v # reg.v))
        THEN {"reg-field"} ELSE {})
     \* spellings outside the literal grammar are not numbers (conformance)
  \cup (IF ~wellformed /\ ~isreg /\ r.tok.k \in {"U", "S"} THEN {"malformed-accepted"} ELSE {})

---------------------------------------------------------------------------
\* C36: print, then parse
Printable(st) == \A i \in 1..Len(st.n.str) : LET c == st.n.str[i] IN (c >= 32 /\ c <= 126) \/ c \in {9, 10, 13, 0}
PrintWhy(r) ==
  LET g == ParseProgram(r.text) IN
     (IF r.panic = 1 \/ r.re.res = "panic" THEN {"panic"} ELSE {})
  \cup (IF r.panic = 0 /\ Printable(r.stmt) /\ (r.re.res # "ok" \/ Len(r.re.stmts) # 1 \/ (Len(r.re.stmts) = 1 /\ Bare(r.re.stmts[1]) # Bare(r.stmt)))
        THEN {"reparse"} ELSE {})
     \* the printed text means the same statement under the specification's grammar (conformance)
  \cup (IF r.panic = 0 /\ Printable(r.stmt) /\ (~g.ok \/ Len(g.stmts) # 1 \/ (Len(g.stmts) = 1 /\ Bare(g.stmts[1]) # Bare(r.stmt)))
        THEN {"print-grammar"} ELSE {})

---------------------------------------------------------------------------
\* C04: arbitrary texts.  Outcome class for every input; exact prediction for the string-literal family.
GarbageWhy(r) ==
     (IF r.res = "panic" THEN {"panic"} ELSE {})
  \cup (IF r.res = "err" /\ ~(r.spanq >= 1 /\ 0 <= r.span[1] /\ r.span[1] <= r.span[2] /\ r.span[2] <= r.len) THEN {"errspan"} ELSE {})
  \cup (IF r.fam = "str" /\ r.has = 1 /\ r.res # "panic" /\
           LET t == Tokenize(r.src)  g == ParseProgram(r.src) IN
           \/ (r.res = "ok") # g.ok
           \/ g.ok /\ r.res = "ok" /\ g.stmts # r.stmts
           \* (the first lexical error is reported: the unclosed literal, unless a malformed word precedes it)
           \/ ~t.ok /\ t.kind = "unclosed" /\ r.res = "err" /\ r.span # <<t.errs, t.erre>>
              /\ \A j \in 1..Len(t.toks) : t.toks[j].t = "word" => Classify(t.toks[j].w).t # "bad"
        THEN {"string-literal"} ELSE {})

\* RP: one source text (rendered by MC_Grammar) through the real parser: it reads what the grammar reads
ReadWhy(r) ==
  LET g == ParseProgram(r.src) IN
     (IF r.res = "panic" THEN {"panic"} ELSE {})
  \cup (IF r.res = "ok" /\ (~g.ok \/ g.stmts # r.stmts) THEN {"grammar"} ELSE {})
  \cup (IF r.res = "err" /\ g.ok THEN {"grammar-accept"} ELSE {})
     \* C04: an error carries exactly one span inside the text
  \cup (IF r.res = "err" /\ ~(r.spanq >= 1 /\ 0 <= r.span[1] /\ r.span[1] <= r.span[2] /\ r.span[2] <= Len(r.src)) THEN {"errspan"} ELSE {})

RecWhy(r) ==
  CASE r.ev = "Parse" -> ParseWhy(r)
    [] r.ev = "Read" -> ReadWhy(r)
    [] r.ev = "Num" -> NumWhy(r)
    [] r.ev = "Print" -> PrintWhy(r)
    [] r.ev = "Garbage" -> GarbageWhy(r)
    [] OTHER -> {"unknown-event"}

Init == l \in 1..N /\ phase = "call" /\ why = {}
Next == phase = "call" /\ phase' = "ret" /\ l' = l /\ why' = RecWhy(Rec[l])
Spec == Init /\ [][Next]_vars
RecOK == why = {}
=============================================================================
