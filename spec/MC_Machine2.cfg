SPECIFICATION Spec
CONSTANT Depth = 2
CONSTANT Wide = FALSE
CONSTANT BaseRd <- BaseRdMC
INVARIANT Total
INVARIANT IsolationMC
INVARIANT DepthMC
INVARIANT ObsMC
INVARIANT StrictMC
INVARIANT NoStrictOnInit
INVARIANT OneHotCC
INVARIANT CountMC
CHECK_DEADLOCK FALSE
