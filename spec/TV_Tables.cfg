SPECIFICATION Spec
INVARIANT TableOK
CHECK_DEADLOCK FALSE
