SPECIFICATION Spec
INVARIANT Related
ALIAS ALIAS_
CHECK_DEADLOCK FALSE
