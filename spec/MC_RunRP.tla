------------------------------ MODULE MC_RunRP ------------------------------
(* MC_Run with its history kept, so that TLC prints every maximal behaviour   *)
(* (a choice of breakpoints, then calls until the program has halted) for the *)
(* harness to replay on the real simulator (`lc3v replay run`); the recorded   *)
(* calls are then validated by TV_Machine against Run!RunCall.                 *)
EXTENDS MC_Run, TLC

VARIABLE hist
varsRP == <<st, n, last, hist>>

BpsList  == << {}, { [k |-> "pc", a |-> 12299, c |-> [k |-> "always", v |-> 0]] },
               { [k |-> "reg", a |-> 2, c |-> [k |-> "eq", v |-> 1]] } >>
CallList == << <<"limit", 0>>, <<"limit", 1>>, <<"limit", 2>>, <<"limit", 5>>, <<"over", 0>>, <<"out", 0>>, <<"pcne", 12299>>, <<"run", 0>> >>
ASSUME { CallList[c] : c \in 1..Len(CallList) } = Calls

InitRP == /\ \E b \in 1..Len(BpsList) : st = Start(BpsList[b]) /\ hist = <<b>>
          /\ n = 0 /\ last = [kind |-> "none", arg |-> 0, pre |-> Start({}), res |-> [out |-> "ok", n |-> 0]]
NextRP == /\ ~Halted
          /\ \E c \in 1..Len(CallList) :
               /\ (n >= MaxCalls => CallList[c][1] = "run")
               /\ LET r == RunCall(st, CallList[c][1], CallList[c][2], Envs) IN
                    /\ st' = r.st
                    /\ last' = [kind |-> CallList[c][1], arg |-> CallList[c][2], pre |-> st, res |-> [out |-> r.out, n |-> r.n]]
               /\ n' = n + 1 /\ hist' = Append(hist, c)
SpecRP == InitRP /\ [][NextRP]_varsRP
Emit == Halted => PrintT(<<"HIST", hist>>)
=============================================================================
