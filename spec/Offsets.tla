------------------------------ MODULE Offsets ------------------------------
(* Bounded N-bit offsets (`Offset<i16|u16, N>::new / new_trunc / get`,       *)
(* ast.rs).  Two descriptions are given and model-checked against each other *)
(* (MC_Offsets): the arithmetic one the property states, and the bit-level   *)
(* one (truncate = shift left, shift right) that the code uses.              *)
EXTENDS Words

\* --- the property's own (arithmetic) statement ---------------------------
\* v is the mathematical value (signed: -32768..32767, unsigned: 0..65535)
FitsS(v, n) == -Pow2(n - 1) <= v /\ v < Pow2(n - 1)
FitsU(v, n) == 0 <= v /\ v < Pow2(n)

\* sign- / zero-extension of the low n bits of v
TruncS(v, n) == SExt(v % Pow2(n), n)
TruncU(v, n) == v % Pow2(n)

\* result of Offset::new : [ok |-> TRUE, v |-> value] or [ok |-> FALSE, v |-> 0]
NewS(v, n) == IF FitsS(v, n) THEN [ok |-> TRUE, v |-> v] ELSE [ok |-> FALSE, v |-> 0]
NewU(v, n) == IF FitsU(v, n) THEN [ok |-> TRUE, v |-> v] ELSE [ok |-> FALSE, v |-> 0]

\* --- the bit-level description (what `truncate` does) ---------------------
\* (x << (16-n)) >> (16-n) on u16 (logical) and on i16 (arithmetic shift)
ShlShrU(v, n) == (Wrap(v * Pow2(16 - n))) \div Pow2(16 - n)
ShlShrS(v, n) == LET w == Wrap(U16(v) * Pow2(16 - n))     \* as u16 bit pattern
                     s == S16(w)                          \* reinterpret as i16
                 IN  \* arithmetic shift right = floor division
                     IF s >= 0 THEN s \div Pow2(16 - n)
                     ELSE -(((-s) + Pow2(16 - n) - 1) \div Pow2(16 - n))

BitFitsU(v, n) == v = ShlShrU(v, n)
BitFitsS(v, n) == v = ShlShrS(v, n)
=============================================================================
