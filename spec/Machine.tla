------------------------------ MODULE Machine ------------------------------
(* The LC-3 machine of lc3-ensemble: one simulator step (`Simulator::step`,   *)
(* `_step_inner`, `handle_interrupt`, `read_mem`, `write_mem`, `set_pc`,      *)
(* sim.rs), devices (`DeviceHandler`, keyboard, display, timer), frames       *)
(* (frame.rs), the access observer, loading and reset.                        *)
(*                                                                            *)
(* The semantics is a FUNCTION  StepF(st, env) -> [st, out]  over a state     *)
(* record, so that TLC can (i) validate a logged step, (ii) iterate steps     *)
(* silently inside a run, (iii) compare two executions from one state.        *)
(* `env` carries what the machine cannot know: lock state of the keyboard and *)
(* display buffers, what harness interrupt devices returned on this poll, and *)
(* the timer's random draws.  Failing steps have partial effects; they are    *)
(* transcribed, not idealised (DESIGN.md Appendix A).                         *)
EXTENDS WordInit, Isa, Sequences, FiniteSets, TLC

\* Initial memory of the run `h` at address `a`, as a word [v, m].
CONSTANT BaseRd(_, _)

USER_START == 12288      \* x3000
IO_START   == 65024      \* xFE00
KBSR == 65024  KBDR == 65026  DSR == 65028  DDR == 65030
PSR_ADDR == 65532  MCR_ADDR == 65534

---------------------------------------------------------------------------
\* PSR
Privileged(psr) == psr < 32768
Prio(psr)       == Slice(psr, 8, 11)
CC(psr)         == psr % 8
OneHot3(c)      == c \in {1, 2, 4}
SetCCBits(psr, c) == (psr - (psr % 8)) + (IF OneHot3(c % 8) THEN c % 8 ELSE 2)
SetPriv(psr)      == psr % 32768                      \* supervisor
SetPrioBits(psr, p) == psr - Prio(psr) * 256 + (p % 8) * 256
PsrSet(data)      == SetCCBits(data & 34567, data % 8)     \* mask x8707
CCOf(v)           == IF v >= 32768 THEN 4 ELSE IF v = 0 THEN 2 ELSE 1

---------------------------------------------------------------------------
\* state access
R(st, r)        == st.reg[r + 1]
SetR(st, r, w)  == [st EXCEPT !.reg[r + 1] = w]
Rd(st, a)       == IF a \in DOMAIN st.memw THEN st.memw[a] ELSE BaseRd(st.base, a)
\* raw store into the memory array; remembers the first previous value in `dirty`
Wr(st, a, w)    == [st EXCEPT !.memw  = (a :> w) @@ @,
                              !.dirty = IF a \in DOMAIN @ THEN @ ELSE (a :> Rd(st, a)) @@ @]
ObsAdd(st, a, bits) ==
  [st EXCEPT !.obs = (a :> ((IF a \in DOMAIN @ THEN @[a] ELSE 0) | bits)) @@ @]
OBS_R == 1  OBS_W == 2  OBS_M == 4

Strict(st) == st.flags.strict
DefCtx(st) == [priv |-> Privileged(st.psr) \/ st.flags.ignp, strict |-> st.flags.strict,
               fx |-> TRUE, track |-> TRUE]
Omni       == [priv |-> TRUE, strict |-> FALSE, fx |-> FALSE, track |-> FALSE]

InUser(a) == a >= USER_START /\ a < IO_START

\* results
Res(st, e)      == [st |-> st, e |-> e]                 \* e = "none" or an error kind
ResW(st, e, w)  == [st |-> st, e |-> e, w |-> w]
Out(st, o)      == [st |-> st, out |-> o]               \* o = "ok", "halt" or an error kind
NoW == W(0, 0)

---------------------------------------------------------------------------
\* Devices.  st.devs is the device table (index = id + 1); st.ports maps an I/O
\* address to a device id (absent = 0 = null device).
NullDev == [k |-> "null", ie |-> FALSE, val |-> 0, time |-> 0, en |-> FALSE,
            lo |-> 0, hi |-> 0, vect |-> 0, prio |-> 0, slot |-> 0]
PortDev(st, a) == IF a \in DOMAIN st.ports THEN st.ports[a] ELSE 0

KbdReady(st, env) == ~env.lockK /\ st.kbd # <<>>

\* [st, some, v]
IoRead(st, a, fx, env) ==
  LET id == PortDev(st, a)
      d  == st.devs[id + 1]
      none == [st |-> st, some |-> FALSE, v |-> 0]
      some(s, v) == [st |-> s, some |-> TRUE, v |-> v]
  IN CASE d.k = "kbd" ->
            IF a = KBSR THEN some(st, (IF KbdReady(st, env) THEN 32768 ELSE 0) + (IF d.ie THEN 16384 ELSE 0))
            ELSE IF a = KBDR THEN
                 \* deviation DevKbdDataReadWhileLocked: try_write fails, the read is not answered
                 \* and the program sees the stale memory mirror
                 IF env.lockK /\ fx THEN [st |-> [st EXCEPT !.devn = @ \cup {"DevKbdDataReadWhileLocked"}], some |-> FALSE, v |-> 0]
                 ELSE IF env.lockK \/ st.kbd = <<>> THEN none
                 ELSE IF fx THEN some([st EXCEPT !.kbd = Tail(@)], Head(st.kbd))
                 ELSE some(st, Head(st.kbd))
            ELSE none
       [] d.k = "disp" -> IF a = DSR THEN some(st, IF env.lockD THEN 0 ELSE 32768) ELSE none
       [] d.k = "reg"  -> some(st, d.val)
       [] OTHER -> none

\* [st, ok]
IoWrite(st, a, v, env) ==
  LET id == PortDev(st, a)
      d  == st.devs[id + 1]
      res(s, b) == [st |-> s, ok |-> b]
  IN CASE d.k = "kbd" ->
            IF a = KBSR THEN res([st EXCEPT !.devs[id + 1].ie = (Bit(v, 14) = 1)], TRUE) ELSE res(st, FALSE)
       [] d.k = "disp" ->
            \* deviation DevDisplayWriteWhileLocked: try_write fails and the byte is dropped
            IF a = DDR /\ env.lockD THEN res([st EXCEPT !.devn = @ \cup {"DevDisplayWriteWhileLocked"}], FALSE)
            ELSE IF a = DDR THEN res([st EXCEPT !.disp = Append(@, v % 256)], TRUE) ELSE res(st, FALSE)
       [] d.k = "reg" -> res([st EXCEPT !.devs[id + 1].val = v], TRUE)
       [] OTHER -> res(st, FALSE)

\* One poll of device number j (1-based): [d |-> device', q |-> request]
\* request = [k |-> "none" | "vec" | "ext", vect, prio]
NoReq == [k |-> "none", vect |-> 0, prio |-> 0]
Vec(v, p) == [k |-> "vec", vect |-> v, prio |-> Min(p, 7)]
PollDev(st, d, env) ==
  CASE d.k = "kbd" -> [d |-> d, q |-> IF KbdReady(st, env) /\ d.ie THEN Vec(128, 4) ELSE NoReq]
    [] d.k = "timer" ->
         IF ~d.en THEN [d |-> d, q |-> NoReq]
         ELSE IF d.time = 0 THEN [d |-> [d EXCEPT !.time = env.draws[d.slot]], q |-> NoReq]
         ELSE IF d.time = 1 THEN [d |-> [d EXCEPT !.time = 0], q |-> Vec(d.vect, d.prio)]
         ELSE [d |-> [d EXCEPT !.time = @ - 1], q |-> NoReq]
    [] d.k = "intfn" ->
         LET x == env.ints[d.slot] IN
         [d |-> d, q |-> IF x.k = 1 THEN Vec(x.vect, x.prio)
                         ELSE IF x.k = 2 THEN [k |-> "ext", vect |-> 0, prio |-> 8] ELSE NoReq]
    [] OTHER -> [d |-> d, q |-> NoReq]

ReqKey(q) == IF q.k = "ext" THEN 8 ELSE q.prio
\* poll every device in table order; the request with the greatest key wins,
\* the last one among equals (Iterator::max_by_key)
RECURSIVE PollFrom(_, _, _, _)
PollFrom(st, j, best, env) ==
  IF j > Len(st.devs) THEN [st |-> st, req |-> best]
  ELSE LET p   == PollDev(st, st.devs[j], env)
           st1 == [st EXCEPT !.devs[j] = p.d]
           b1  == IF p.q.k = "none" THEN best
                  ELSE IF best.k = "none" \/ ReqKey(p.q) >= ReqKey(best) THEN p.q ELSE best
       IN PollFrom(st1, j + 1, b1, env)
PollAll(st, env) == PollFrom(st, 1, NoReq, env)

\* timers whose poll draws a new time in this step (their draw must lie in range)
DrawingTimers(st) == { j \in 1..Len(st.devs) : st.devs[j].k = "timer" /\ st.devs[j].en /\ st.devs[j].time = 0 }

---------------------------------------------------------------------------
\* Internal registers mapped into the I/O page
IregRead(st, r) == CASE r = "PC" -> st.pc [] r = "PSR" -> st.psr
                     [] r = "MCR" -> (IF st.mcr THEN 32768 ELSE 0) [] r = "SSP" -> st.ssp.v
IregWrite(st, r, d) == CASE r = "PC"  -> [st EXCEPT !.pc = d]
                         [] r = "PSR" -> [st EXCEPT !.psr = PsrSet(d)]
                         [] r = "MCR" -> [st EXCEPT !.mcr = (d >= 32768)]
                         [] r = "SSP" -> [st EXCEPT !.ssp = Init16(d)]

---------------------------------------------------------------------------
\* Memory access with privilege check, MMIO and observer (read_mem / write_mem)

ReadMem(st, a, ctx, env) ==
  IF ~ctx.priv /\ ~InUser(a) THEN ResW(st, "AccessViolation", NoW)
  ELSE
    LET st1 == IF a >= IO_START
               THEN IF a \in DOMAIN st.ireg
                    THEN Wr(st, a, Init16(IregRead(st, st.ireg[a])))
                    ELSE LET io == IoRead(st, a, ctx.fx, env)
                         IN IF io.some THEN Wr(io.st, a, Init16(io.v)) ELSE io.st
               ELSE st
        st2 == IF ctx.track THEN ObsAdd(st1, a, OBS_R) ELSE st1
    IN ResW(st2, "none", Rd(st2, a))

WriteMem(st, a, w, ctx, env) ==
  IF ~ctx.priv /\ ~InUser(a) THEN Res(st, "AccessViolation")
  ELSE IF a >= IO_START /\ ctx.strict /\ ~IsInit(w) THEN Res(st, "StrictIOSetUninit")
  ELSE
    LET io == IF a >= IO_START
              THEN IF a \in DOMAIN st.ireg
                   THEN [st |-> IregWrite(st, st.ireg[a], w.v), ok |-> TRUE]
                   ELSE IoWrite(st, a, w.v, env)
              ELSE [st |-> st, ok |-> TRUE]
    IN IF ~io.ok THEN Res(io.st, "none")
       ELSE LET st1 == IF ctx.track
                       THEN ObsAdd(io.st, a, IF Rd(io.st, a) # w THEN OBS_W + OBS_M ELSE OBS_W)
                       ELSE io.st
            IN IF ctx.strict /\ ~IsInit(w) THEN Res(st1, "StrictMemSetUninit")
               ELSE Res(Wr(st1, a, w), "none")

---------------------------------------------------------------------------
\* PC
\* set_pc(addr_word, st_check_mem).  The strict next-instruction check only looks
\* at the memory word (no access check, no I/O effect, no observer mark).
SetPC(st, w, chk) ==
  IF Strict(st) /\ ~IsInit(w) THEN Res(st, "StrictJmpAddrUninit")
  ELSE IF Strict(st) /\ chk /\ ~IsInit(Rd(st, w.v)) THEN Res(st, "StrictPCNextUninit")
  ELSE Res([st EXCEPT !.pc = w.v], "none")

PrefetchPc(st) == IF st.prefetch THEN st.pc ELSE Wrap(st.pc - 1)

InAlloca(st, a) ==
  LET c == { i \in 1..Len(st.alloca) : st.alloca[i][1] <= a } IN
  c # {} /\ LET i == CHOOSE x \in c : \A y \in c : y <= x
            IN a < st.alloca[i][1] + st.alloca[i][2]

---------------------------------------------------------------------------
\* Frames
TrapDef(v) == CASE v \in {33, 34, 36} -> [some |-> TRUE, cc |-> FALSE, n |-> 0, regs |-> <<0>>]
                [] v \in {32, 35, 37} -> [some |-> TRUE, cc |-> FALSE, n |-> 0, regs |-> <<>>]
                [] OTHER -> [some |-> FALSE, cc |-> FALSE, n |-> 0, regs |-> <<>>]
SrDef(st, a) == IF a \in DOMAIN st.srdefs THEN st.srdefs[a]
                ELSE [some |-> FALSE, cc |-> FALSE, n |-> 0, regs |-> <<>>]

NoFp == W(-1, -1)
FrameRec(st, caller, callee, ft) ==
  LET pl == IF ft = "Trap" THEN (IF callee <= 255 THEN TrapDef(callee) ELSE TrapDef(-1))
            ELSE SrDef(st, callee)
  IN IF ~pl.some THEN [caller |-> caller, callee |-> callee, ft |-> ft, fp |-> NoFp, args |-> <<>>]
     ELSE IF pl.cc
     THEN LET fp == SubW(R(st, 6), Init16(4)) IN
          [caller |-> caller, callee |-> callee, ft |-> ft, fp |-> fp,
           args |-> [i \in 1..pl.n |-> Rd(st, Wrap(fp.v + 4 + (i - 1)))]]
     ELSE [caller |-> caller, callee |-> callee, ft |-> ft, fp |-> NoFp,
           args |-> [i \in 1..Len(pl.regs) |-> R(st, pl.regs[i])]]

PushFrame(st, caller, callee, ft) ==
  [st EXCEPT !.fno = @ + 1,
             !.frames = IF st.dbgf THEN Append(@, FrameRec(st, caller, callee, ft)) ELSE @]
PopFrame(st) ==
  [st EXCEPT !.fno = IF @ = 0 THEN 0 ELSE @ - 1,
             !.frames = IF st.dbgf /\ @ # <<>> THEN SubSeq(@, 1, Len(@) - 1) ELSE @]

---------------------------------------------------------------------------
\* Interrupt / trap / exception entry (handle_interrupt + call_interrupt).
\* prio = -1 for traps and exceptions.
SwapSP(st) == [st EXCEPT !.ssp = R(st, 6), !.reg[7] = st.ssp]

HandleInt(st, vect, prio, env) ==
  IF prio # -1 /\ prio <= Prio(st.psr) THEN Out(st, "ok")
  ELSE IF ~st.flags.real /\ vect \in {37, 256, 257, 258}
  THEN LET s1 == IF ~st.prefetch THEN [st EXCEPT !.pc = Wrap(@ - 1), !.prefetch = TRUE] ELSE st
       IN Out(s1, CASE vect = 37 -> "halt" [] vect = 256 -> "PrivilegeViolation"
                    [] vect = 257 -> "IllegalOpcode" [] vect = 258 -> "AccessViolation")
  ELSE
    LET s1     == IF ~Privileged(st.psr) THEN SwapSP(st) ELSE st
        oldpsr == s1.psr
        oldpc  == s1.pc
        s2     == [s1 EXCEPT !.psr = SetPriv(@)]
        mctx   == DefCtx(s2)
        r6     == R(s2, 6)
    IN IF Strict(s2) /\ ~IsInit(r6) THEN Out(s2, "StrictMemAddrUninit")
       ELSE
         LET sp  == r6.v
             s3  == SetR(s2, 6, SubW(r6, Init16(2)))
             w1  == WriteMem(s3, Wrap(sp - 1), Init16(oldpsr), mctx, env)
         IN IF w1.e # "none" THEN Out(w1.st, w1.e)
            ELSE LET w2 == WriteMem(w1.st, Wrap(sp - 2), Init16(oldpc), mctx, env)
                 IN IF w2.e # "none" THEN Out(w2.st, w2.e)
                    ELSE
                      LET s4 == [w2.st EXCEPT !.psr = SetCCBits(@, 2)]
                          s5 == IF prio # -1 THEN [s4 EXCEPT !.psr = SetPrioBits(@, prio)] ELSE s4
                          ft == IF prio # -1 THEN "Interrupt" ELSE "Trap"
                          rv == ReadMem(s5, vect, DefCtx(s5), env)
                      IN IF rv.e # "none" THEN Out(rv.st, rv.e)
                         ELSE IF Strict(rv.st) /\ ~IsInit(rv.w) THEN Out(rv.st, "StrictSRAddrUninit")
                         ELSE LET s6 == PushFrame(rv.st, PrefetchPc(rv.st), vect, ft)
                                  sp2 == SetPC(s6, Init16(rv.w.v), TRUE)
                              IN Out(sp2.st, IF sp2.e = "none" THEN "ok" ELSE sp2.e)

---------------------------------------------------------------------------
\* Execute stage, one operator per opcode.  `st` has the PC already advanced.
SetCC(st, v) == [st EXCEPT !.psr = SetCCBits(@, CCOf(v))]

\* common tail of the loads: write `v` to dr under strictness `ws`
LoadTail(st, dr, v, ws) ==
  IF ws /\ ~IsInit(v) THEN Out(st, "StrictRegSetUninit")
  ELSE Out(SetCC(SetR(st, dr, v), v.v), "ok")

ExecAlu(st, dr, res) ==
  IF Strict(st) /\ ~IsInit(res) THEN Out(st, "StrictRegSetUninit")
  ELSE Out(SetCC(SetR(st, dr, res), res.v), "ok")

ExecLoadAt(st, dr, ea, ws, env) ==
  LET r == ReadMem(st, ea, DefCtx(st), env) IN
  IF r.e # "none" THEN Out(r.st, r.e) ELSE LoadTail(r.st, dr, r.w, ws)

ExecStoreAt(st, sr, ea, ws, env) ==
  LET w == WriteMem(st, ea, R(st, sr), [DefCtx(st) EXCEPT !.strict = ws], env) IN
  Out(w.st, IF w.e = "none" THEN "ok" ELSE w.e)

CallSub(st, addr) ==
  LET s1 == SetR(st, 7, Init16(st.pc))
      s2 == PushFrame(s1, PrefetchPc(s1), addr, "Subroutine")
      p  == SetPC(s2, Init16(addr), TRUE)
  IN Out(p.st, IF p.e = "none" THEN "ok" ELSE p.e)

ExecRti(st, env) ==
  IF ~(Privileged(st.psr) \/ st.flags.ignp) THEN Out(st, "PrivilegeViolation")
  ELSE
    LET mctx == DefCtx(st)
        r6   == R(st, 6)
    IN IF Strict(st) /\ ~IsInit(r6) THEN Out(st, "StrictMemAddrUninit")
       ELSE LET sp == r6.v
                a  == ReadMem(st, sp, mctx, env)
            IN IF a.e # "none" THEN Out(a.st, a.e)
               ELSE IF Strict(st) /\ ~IsInit(a.w) THEN Out(a.st, "StrictJmpAddrUninit")
               ELSE LET b == ReadMem(a.st, Wrap(sp + 1), mctx, env)
                    IN IF b.e # "none" THEN Out(b.st, b.e)
                       ELSE IF Strict(st) /\ ~IsInit(b.w) THEN Out(b.st, "StrictPSRSetUninit")
                       ELSE LET s1 == SetR(b.st, 6, AddW(R(b.st, 6), Init16(2)))
                                p  == SetPC(s1, Init16(a.w.v), TRUE)
                            IN IF p.e # "none" THEN Out(p.st, p.e)
                               ELSE LET s2 == [p.st EXCEPT !.psr = b.w.v]
                                        s3 == IF ~Privileged(s2.psr) THEN SwapSP(s2) ELSE s2
                                    IN Out(PopFrame(s3), "ok")

Exec(st, i, env) ==
  CASE i.op = "BR" ->
         IF (i.a & CC(st.psr)) # 0
         THEN LET p == SetPC(st, Init16(Wrap(st.pc + i.b)), TRUE) IN Out(p.st, IF p.e = "none" THEN "ok" ELSE p.e)
         ELSE Out(st, "ok")
    [] i.op = "ADD" -> ExecAlu(st, i.a, AddW(R(st, i.b), IF i.m = 1 THEN Init16(U16(i.c)) ELSE R(st, i.c)))
    [] i.op = "AND" -> ExecAlu(st, i.a, AndW(R(st, i.b), IF i.m = 1 THEN Init16(U16(i.c)) ELSE R(st, i.c)))
    [] i.op = "NOT" -> ExecAlu(st, i.a, NotW(R(st, i.b)))
    [] i.op = "LD"  -> LET ea == Wrap(st.pc + i.b) IN ExecLoadAt(st, i.a, ea, Strict(st) /\ ~InAlloca(st, ea), env)
    [] i.op = "ST"  -> LET ea == Wrap(st.pc + i.b) IN ExecStoreAt(st, i.a, ea, Strict(st) /\ ~InAlloca(st, ea), env)
    [] i.op = "LDR" ->
         LET b == R(st, i.b) IN
         IF Strict(st) /\ ~IsInit(b) THEN Out(st, "StrictMemAddrUninit")
         ELSE LET ea == Wrap(b.v + i.c) IN ExecLoadAt(st, i.a, ea, Strict(st) /\ i.b # 6 /\ ~InAlloca(st, ea), env)
    [] i.op = "STR" ->
         LET b == R(st, i.b) IN
         IF Strict(st) /\ ~IsInit(b) THEN Out(st, "StrictMemAddrUninit")
         ELSE LET ea == Wrap(b.v + i.c) IN ExecStoreAt(st, i.a, ea, Strict(st) /\ i.b # 6 /\ ~InAlloca(st, ea), env)
    [] i.op = "LDI" ->
         LET p == ReadMem(st, Wrap(st.pc + i.b), DefCtx(st), env) IN
         IF p.e # "none" THEN Out(p.st, p.e)
         ELSE IF Strict(st) /\ ~IsInit(p.w) THEN Out(p.st, "StrictMemAddrUninit")
         ELSE ExecLoadAt(p.st, i.a, p.w.v, Strict(st) /\ ~InAlloca(p.st, p.w.v), env)
    [] i.op = "STI" ->
         LET p == ReadMem(st, Wrap(st.pc + i.b), DefCtx(st), env) IN
         IF p.e # "none" THEN Out(p.st, p.e)
         ELSE IF Strict(st) /\ ~IsInit(p.w) THEN Out(p.st, "StrictMemAddrUninit")
         ELSE ExecStoreAt(p.st, i.a, p.w.v, Strict(st) /\ ~InAlloca(p.st, p.w.v), env)
    [] i.op = "JSR" ->
         LET aw == IF i.m = 1 THEN Init16(Wrap(st.pc + i.a)) ELSE R(st, i.a) IN
         IF Strict(st) /\ ~IsInit(aw) THEN Out(st, "StrictSRAddrUninit") ELSE CallSub(st, aw.v)
    [] i.op = "JMP" ->
         LET p == SetPC(st, R(st, i.a), TRUE) IN
         IF p.e # "none" THEN Out(p.st, p.e)
         ELSE Out(IF i.a = 7 THEN PopFrame(p.st) ELSE p.st, "ok")
    [] i.op = "LEA" -> Out(SetR(st, i.a, Init16(Wrap(st.pc + i.b))), "ok")
    [] i.op = "RTI" -> ExecRti(st, env)
    [] i.op = "TRAP" -> HandleInt(st, i.a, -1, env)

---------------------------------------------------------------------------
\* One step (_step_inner, then the real-trap wrapper of `step`)

StepInner(st0, env) ==
  LET p  == PollAll([st0 EXCEPT !.prefetch = TRUE], env)
      s1 == p.st
  IN IF p.req.k = "ext" THEN Out(s1, "Interrupt")
     ELSE IF p.req.k = "vec" /\ p.req.prio > Prio(s1.psr)
     THEN HandleInt(s1, 256 + p.req.vect, p.req.prio, env)
     ELSE
       LET f == ReadMem(s1, s1.pc, DefCtx(s1), env) IN
       IF f.e # "none" THEN Out(f.st, f.e)
       ELSE IF Strict(s1) /\ ~IsInit(f.w) THEN Out(f.st, "StrictPCCurrUninit")
       ELSE LET d == Decode(f.w.v) IN
            IF ~d.ok THEN Out(f.st, d.err)
            ELSE LET s2 == [f.st EXCEPT !.pc = Wrap(@ + 1), !.prefetch = FALSE]
                     x  == Exec(s2, d.i, env)
                 IN IF x.out = "ok" THEN Out([x.st EXCEPT !.icount = @ + 1], "ok") ELSE x

ExcVect(e) == CASE e = "halt" -> 37 [] e = "PrivilegeViolation" -> 256
                [] e \in {"IllegalOpcode", "InvalidInstrFormat"} -> 257
                [] e = "AccessViolation" -> 258 [] OTHER -> -1

\* Simulator::step
StepF(st, env) ==
  LET x == StepInner(st, env) IN
  IF st.flags.real /\ ExcVect(x.out) # -1 THEN HandleInt(x.st, ExcVect(x.out), -1, env) ELSE x

\* Simulator::step_in : clears the observer first; a halt is reported as success
ClearObs(st)  == [st EXCEPT !.obs = <<>>]
StepIn(st, env) == LET x == StepF(ClearObs(st), env) IN Out(x.st, IF x.out = "halt" THEN "ok" ELSE x.out)

StrictErrs == {"StrictRegSetUninit", "StrictMemSetUninit", "StrictIOSetUninit", "StrictJmpAddrUninit",
               "StrictSRAddrUninit", "StrictMemAddrUninit", "StrictPCCurrUninit", "StrictPCNextUninit",
               "StrictPSRSetUninit"}
SimErrs == StrictErrs \cup {"IllegalOpcode", "InvalidInstrFormat", "PrivilegeViolation", "AccessViolation",
                            "UnresolvedExternal", "Interrupt"}

---------------------------------------------------------------------------
\* Loading an object (blocks: sequence of [s |-> start, w |-> sequence of words, -1 = reserved])
RECURSIVE LoadWords(_, _, _, _)
LoadWords(st, a, ws, k) ==
  IF k > Len(ws) THEN st
  ELSE LET s1 == IF ws[k] >= 0 THEN Wr(st, a, Init16(ws[k])) ELSE Wr(st, a, W(Rd(st, a).v, 0))
       IN LoadWords(s1, Wrap(a + 1), ws, k + 1)
RECURSIVE LoadBlocks(_, _, _)
LoadBlocks(st, bs, k) == IF k > Len(bs) THEN st ELSE LoadBlocks(LoadWords(st, bs[k].s, bs[k].w, 1), bs, k + 1)

\* `al` is the allocation list of blocks `bs`: the non-empty blocks as
\* <<start, length>>, sorted by start (blocks that wrap are split by the code;
\* objects produced by the assembler never wrap)
IsAllocaOf(al, bs) ==
  LET ne == { i \in 1..Len(bs) : Len(bs[i].w) > 0 } IN
  /\ Len(al) = Cardinality(ne)
  /\ \A i \in ne : \E j \in 1..Len(al) : al[j] = <<bs[i].s, Len(bs[i].w)>>
  /\ \A j \in 1..(Len(al) - 1) : al[j][1] <= al[j + 1][1]
=============================================================================
