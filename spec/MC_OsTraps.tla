----------------------------- MODULE MC_OsTraps -----------------------------
(* C11 inside the specification: TLC executes the built-in OS trap routines    *)
(* THEMSELVES - the real OS image, exported from the crate (so an edit to      *)
(* os.asm is seen) - on the specification's machine, from a user-mode TRAP to  *)
(* its return, for every string of up to MaxLen symbols over the bytes         *)
(* {x01, x41, xE9, xFF} (PUTS: one character per word, also words with high    *)
(* bits; PUTSP: packed, odd and even lengths), every keyboard queue of up to   *)
(* two of these bytes (GETC, IN), every character (OUT), two register fills    *)
(* and three condition codes, under real and virtual traps, and checks the     *)
(* contract (MachineProps!TrapContract) at the return.                         *)
EXTENDS MachineProps, Json, IOUtils, FiniteSets, TLC

CONSTANT MaxLen
OsRec == ndJsonDeserialize(IOEnv.OSIMG)[1]
OsBlocks == OsRec.blocks
RECURSIVE FlatFrom(_, _)
FlatFrom(bs, k) == IF k > Len(bs) THEN <<>> ELSE bs[k].w \o FlatFrom(bs, k + 1)
OsFlat == FlatFrom(OsBlocks, 1)
ASSUME Len(OsBlocks) >= 1 /\ OsBlocks[1].s = 0
ASSUME \A k \in 2..Len(OsBlocks) : OsBlocks[k].s = OsBlocks[k - 1].s + Len(OsBlocks[k - 1].w)
BaseRdMC(b, a) == IF a < Len(OsFlat) THEN (IF OsFlat[a + 1] >= 0 THEN W(OsFlat[a + 1], 65535) ELSE W(0, 0))
                  ELSE IF a >= IO_START THEN W(0, 65535) ELSE W(0, 0)
PromptAddr == OsRec.prompt

Bytes == {1, 65, 233, 255}
Strings == UNION { [1..n -> Bytes] : n \in 0..MaxLen }

Dev(k) == [k |-> k, ie |-> FALSE, val |-> 0, time |-> 0, en |-> FALSE, lo |-> 0, hi |-> 0, vect |-> 0, prio |-> 0, slot |-> 0]
STR == 16384      \* x4000
Mk(vect, regfill, cc, real, kbd, words) ==
  [pc |-> 12288, psr |-> 32768 + cc, reg |-> [i \in 1..8 |-> IF i = 7 THEN W(61440, 65535) ELSE W((regfill + i) % 65536, 65535)], ssp |-> W(12288, 65535),
   memw |-> (12288 :> W(61440 + vect, 65535)) @@ [a \in { STR + k - 1 : k \in 1..Len(words) } |-> W(words[a - STR + 1], 65535)],
   dirty |-> <<>>, mcr |-> TRUE, prefetch |-> FALSE, fno |-> 0, dbgf |-> FALSE, frames |-> <<>>,
   icount |-> 0, obs |-> <<>>, kbd |-> kbd, disp |-> <<7>>,
   devs |-> <<Dev("null"), Dev("kbd"), Dev("disp")>>, ports |-> (65024 :> 1) @@ (65026 :> 1) @@ (65028 :> 2) @@ (65030 :> 2),
   ireg |-> (65532 :> "PSR") @@ (65534 :> "MCR"),
   flags |-> [strict |-> FALSE, real |-> real, dbg |-> FALSE, ignp |-> FALSE], alloca |-> <<>>,
   srdefs |-> <<>>, base |-> 1, bps |-> {}, pause |-> "Unsuccessful", devn |-> {}, drift |-> FALSE, nrej |-> 0,
   mark |-> [reg |-> <<>>, psr |-> 0, pc |-> 0, kbd |-> <<>>, disp |-> <<>>, memw |-> <<>>, ssp |-> NoW]]

\* a string as PUTS reads it (one word per character, zero word at the end, then garbage) ...
PutsWords(s, hi) == [k \in 1..(Len(s) + 3) |-> IF k <= Len(s) THEN s[k] + (IF hi /\ k = 1 THEN 256 * 171 ELSE 0) ELSE IF k = Len(s) + 1 THEN 0 ELSE 64 + k]
\* ... and as PUTSP reads it (two characters per word, low byte first; an odd string ends inside a word)
PutspWords(s) ==
  LET nw == (Len(s) + 1) \div 2 IN
  [k \in 1..(nw + 2) |-> IF k <= nw THEN s[2 * k - 1] + 256 * (IF 2 * k <= Len(s) THEN s[2 * k] ELSE 0)
                          ELSE IF k = nw + 1 /\ Len(s) % 2 = 0 THEN 0 ELSE 16962]

RawPacked == { <<26952, 16640, 16962, 0>>, <<23040, 16705, 0>>, <<26952, 16640, 0>> }
NoEnvRec == [lockK |-> FALSE, lockD |-> FALSE, ints |-> <<>>, draws |-> <<>>]
RECURSIVE RunTrap(_, _)
RunTrap(s, n) ==      \* until control is back in user code after the TRAP (or the step budget is used up)
  IF n = 0 THEN [st |-> s, ok |-> FALSE]
  ELSE LET x == StepIn(Clean(s), NoEnvRec) IN
       IF x.out # "ok" THEN [st |-> x.st, ok |-> FALSE]
       ELSE IF x.st.pc = 12289 /\ ~Privileged(x.st.psr) THEN [st |-> x.st, ok |-> TRUE]
       ELSE RunTrap(x.st, n - 1)

VARIABLES vect, init, phase
vars == <<vect, init, phase>>
Init == /\ phase = "call"
        /\ \E regfill \in {0, 43690}, cc \in {1, 2, 4}, real \in BOOLEAN :
             \/ \E s \in Strings, hi \in BOOLEAN : vect = 34 /\ init = [Mk(34, regfill, cc, real, <<65>>, PutsWords(s, hi)) EXCEPT !.reg[1] = W(STR, 65535)]
             \/ \E s \in Strings : vect = 36 /\ init = [Mk(36, regfill, cc, real, <<>>, PutspWords(s)) EXCEPT !.reg[1] = W(STR, 65535)]
             \* packed words as a program may leave them: the first zero byte is the LOW byte of a word whose high byte is not zero
             \/ \E ws \in RawPacked : vect = 36 /\ init = [Mk(36, regfill, cc, real, <<>>, ws) EXCEPT !.reg[1] = W(STR, 65535)]
             \/ \E c \in Bytes \cup {0, 10} , hi \in {0, 171} : vect = 33 /\ init = [Mk(33, regfill, cc, real, <<66>>, <<>>) EXCEPT !.reg[1] = W(c + 256 * hi, 65535)]
             \/ \E q \in { <<a>> : a \in Bytes } \cup { <<a, b>> : a, b \in Bytes } : vect \in {32, 35} /\ init = Mk(vect, regfill, cc, real, q, <<>>)
Next == phase = "call" /\ phase' = "ret" /\ UNCHANGED <<vect, init>>
Spec == Init /\ [][Next]_vars

\* RP: the start states of one register fill and condition code, for the harness to run on the real simulator
\* (`lc3v replay ostraps`): vector, real traps or not, R0, the keyboard queue, the words at x4000
StrWords == LET as == { a \in DOMAIN init.memw : a >= STR } IN [k \in 1..Cardinality(as) |-> init.memw[STR + k - 1].v]
Emit == (phase = "ret" /\ init.reg[2].v = 2 /\ init.psr = 32770) =>
          PrintT(<<"HIST", <<vect, IF init.flags.real THEN 1 ELSE 0, init.reg[1].v, Len(init.kbd)>> \o init.kbd \o StrWords>>)
Contract ==
  phase = "ret" =>
    LET s0 == [init EXCEPT !.mark = MarkOf(init)]
        r  == RunTrap(s0, 2500)
    IN r.ok /\ TrapContract(r.st, vect, PromptAddr, -1) = {}
=============================================================================
