SPECIFICATION Spec
CONSTANT MaxLen = 3
INVARIANT Agree
INVARIANT Emit
CHECK_DEADLOCK FALSE
