SPECIFICATION Spec
CONSTANT BaseRd <- BaseRdMC
INVARIANT LoadOK
INVARIANT Emit
CHECK_DEADLOCK FALSE
