------------------------------ MODULE TV_Asm ------------------------------
(* Trace validation of the assembler, the symbol-table queries, the linker and *)
(* the object-file formats.  `lc3v emit asm|link|...` records one JSON object  *)
(* per scenario; each record is an independent behaviour call -> ret of this  *)
(* module.  On `ret` the variable `why` holds the names of the checks that    *)
(* failed for that record; the invariant is `why = {}`.  check.py decides per *)
(* property which names are verdicts (the property's own predicate evaluated  *)
(* on implementation data) and which are conformance drift.                   *)
EXTENDS Linker, Json, IOUtils, TLC

Rec == ndJsonDeserialize(IOEnv.TRACE)
N   == Len(Rec)

VARIABLES l, phase, why
vars == <<l, phase, why>>

---------------------------------------------------------------------------
\* JSON -> abstract values
Rng(s) == { s[i] : i \in 1..Len(s) }

LabelsOfJson(st) == [k \in { x.k : x \in Rng(st.labels) } |->
                       LET x == CHOOSE x \in Rng(st.labels) : x.k = k IN [addr |-> x.a, src |-> x.src, ext |-> x.x = 1]]
RelOfJson(st)    == [a \in { x[1] : x \in Rng(st.rel) } |-> (CHOOSE x \in Rng(st.rel) : x[1] = a)[2]]
LinesOfJson(st)  == { <<x[1], x[2]>> : x \in Rng(st.lines) }
ObjOfJson(o) == Obj(o.blocks, o.sym = 1, LabelsOfJson(o.st), RelOfJson(o.st), o.st.dbg = 1, LinesOfJson(o.st), o.st.src)

SpanOK(sp, len) == 0 <= sp[1] /\ sp[1] <= sp[2] /\ sp[2] <= len
SubBytes(src, sp) == SubSeq(src, sp[1] + 1, sp[2])

\* a statement without its spans: what was written (the generator's intent has this shape)
Bare(st) == [labels |-> [i \in 1..Len(st.labels) |-> st.labels[i].name],
             n |-> [k |-> st.n.k, a |-> st.n.a, b |-> st.n.b, c |-> st.n.c, m |-> st.n.m, lbl |-> st.n.lbl, str |-> st.n.str]]
BareSeq(ss) == [i \in 1..Len(ss) |-> Bare(ss[i])]

---------------------------------------------------------------------------
\* Asm records.
AsmWhy(r) ==
  LET prog == r.prog
      src  == r.src
      dbg  == r.dbg = 1
      X    == Info(prog)
      D    == LabelDefsI(prog, X)
      wf   == WellFormedI(prog, X, D)
      wfhi == WellFormedHiI(prog, X, D)
      ok   == r.res = "ok"
      o    == ObjOfJson(r.obj)
      st   == r.st
      A    == Assemble(prog, src, dbg)
      nl   == NlIdx(src)
      stl  == LabelsOfJson(st)
      p1ok == r.p1 = "ok"
      LS   == IF dbg THEN LineSpecI(prog, X, nl) ELSE {}
      keys == KeysOf(D)
      LSpec == LabelSpecI(D)
  IN
     (IF r.panic = 1 \/ r.parse = "panic" THEN {"panic"} ELSE {})
     \* ---- C02
  \cup (IF r.parse = "ok" /\ r.panic = 0 /\ ((wf /\ ~ok) \/ (ok /\ ~wfhi)) THEN {"accept"} ELSE {})
  \cup (IF r.parse = "ok" /\ r.panic = 0 /\ ~ok /\ ~wf /\ r.res \notin ViolatedKindsI(prog, X, D) THEN {"kind"} ELSE {})
  \cup (IF r.parse = "ok" /\ r.panic = 0 /\ ~ok /\ wf THEN {"wf-rejected"} ELSE {})
     \* ---- C01: the statements read are the statements written (generated programs carry the generator's
     \*      intent), so the image below is the encoding of the source text and not only of the parser's output
  \cup (IF "gen" \in DOMAIN r /\ r.parse = "ok" /\ BareSeq(prog) # r.gen THEN {"written"} ELSE {})
     \* ---- C01: the image, nothing else, and the labels
  \cup (IF ok /\ wfhi /\ ImageOfBlocks(o.blocks) # ImageSpecI(prog, X, D) THEN {"image"} ELSE {})
  \cup (IF p1ok /\ wf /\ LabelAddrsOfObj(stl) # LSpec THEN {"labels"} ELSE {})
  \cup (IF p1ok /\ wf /\ \E k \in DOMAIN stl : ~ExtFlagOK(D, k, stl[k].ext) THEN {"extflag"} ELSE {})
     \* ---- C21: relocation entries, and the symbol table survives whenever it declares an external
  \cup (IF p1ok /\ wf /\ ~(RelSpecLoI(prog, X, D) \subseteq RelOfObj(RelOfJson(st)) /\ RelOfObj(RelOfJson(st)) \subseteq RelSpecI(prog, X, D)) THEN {"rel"} ELSE {})
  \cup (IF ok /\ wf /\ (\E d \in D : d[3] /\ AllExtKey(D, d[1])) /\ r.obj.sym # 1 THEN {"symkept"} ELSE {})
  \cup (IF ok /\ wf /\ r.obj.sym = 1 /\ (LabelsOfJson(r.obj.st) # stl \/ RelOfJson(r.obj.st) # RelOfJson(st)) THEN {"objsym"} ELSE {})
     \* ---- C24: the line table
  \cup (IF p1ok /\ wf /\ dbg /\ LinesOfJson(st) # LS THEN {"lines"} ELSE {})
  \cup (IF p1ok /\ wf /\ ~dbg /\ LinesOfJson(st) # {} THEN {"lines"} ELSE {})
  \cup (IF p1ok /\ wf /\ dbg /\ st.src # src THEN {"srctext"} ELSE {})
     \* ---- C26: error spans
  \cup (IF ~ok /\ r.parse = "ok" /\ r.panic = 0 /\
           ( r.err.qpanic = 1 \/ r.err.has = 0 \/ Len(r.err.spans) = 0
             \/ r.err.first # r.err.spans[1]
             \/ \E j \in 1..Len(r.err.spans) : ~SpanOK(r.err.spans[j], Len(src)) )
        THEN {"errspan"} ELSE {})
  \cup (IF ~ok /\ ~wf /\ r.parse = "ok" /\ r.panic = 0 /\ r.err.qpanic = 0 /\ IsLabelKind(r.res) /\
           \E j \in 1..Len(r.err.spans) : SpanOK(r.err.spans[j], Len(src)) /\
                Upper(DecodeUtf8(SubBytes(src, r.err.spans[j]))) \notin OffendingLabels(prog, X, D, r.res)
        THEN {"errlabel"} ELSE {})
     \* ---- C23: the symbol table of a well-formed program exists (otherwise no label can be looked up)
  \cup (IF r.parse = "ok" /\ r.panic = 0 /\ wf /\ ~p1ok THEN {"symtab-rejected"} ELSE {})
     \* ---- C23 / C24: queries on the symbol table
  \cup (IF p1ok /\ wf /\ \E j \in 1..Len(r.q) :
            LET q == r.q[j] IN
            CASE q.q = "label" ->
                   LET key == Upper(q.arg) IN
                   \/ q.panic = 1
                   \/ (key \in keys) # (q.addr # -1)
                   \/ (key \in keys) # (q.src[1] # -1)
                   \/ key \in keys /\ q.addr # AddrOfKey(D, key)
                   \/ key \in keys /\ LET fs == FirstSrcOfKey(D, key) IN q.src # <<fs, fs + Utf8Len(key)>>
                   \/ key \in keys /\ dbg /\ Upper(DecodeUtf8(SubBytes(src, q.src))) # key
              [] q.q = "addr" ->
                   \/ q.panic = 1
                   \/ (q.has = 1) # (\E d \in D : d[2] = q.arg)
                   \/ q.has = 1 /\ <<q.label, q.arg>> \notin LSpec
              [] OTHER -> FALSE
        THEN {"labelquery"} ELSE {})
  \cup (IF p1ok /\ wf /\ \E j \in 1..Len(r.q) :
            LET q == r.q[j] IN
            CASE q.q = "line" ->
                   \/ q.panic = 1
                   \/ (q.addr # -1) # (\E p \in LS : p[1] = q.arg)
                   \/ q.addr # -1 /\ <<q.arg, q.addr>> \notin LS
              [] q.q = "addr" ->
                   \/ (q.line # -1) # (\E p \in LS : p[2] = q.arg)
                   \/ q.line # -1 /\ <<q.line, q.arg>> \notin LS
              [] OTHER -> FALSE
        THEN {"linequery"} ELSE {})
  \cup (IF p1ok /\ wf /\ dbg /\ \E p, q \in LS : p # q /\ (p[1] = q[1] \/ p[2] = q[2])
        THEN {"lines-not-injective"} ELSE {})
     \* ---- conformance with the operational transcription (drift unless the property is exact conformance)
  \cup (IF r.parse = "ok" /\ r.panic = 0 /\ ok # A.ok THEN {"conf-accept"} ELSE {})
  \cup (IF r.parse = "ok" /\ r.panic = 0 /\ ~ok /\ ~A.ok /\ (r.res # A.err.kind \/ r.err.spans # A.err.spans)
        THEN {"conf-err"} ELSE {})
  \cup (IF ok /\ A.ok /\ o.blocks # A.obj.blocks THEN {"conf-blocks"} ELSE {})
  \cup (IF ok /\ A.ok /\ (o.sym # A.obj.sym \/ o.labels # A.obj.labels \/ o.rel # A.obj.rel \/ o.dbg # A.obj.dbg
                          \/ o.lines # A.obj.lines \/ o.src # A.obj.src) THEN {"conf-sym"} ELSE {})

---------------------------------------------------------------------------
\* Link records: a set of files, every link step of every order/bracketing, and for every
\* object in the table: load result, both format round trips, debug queries.
RECURSIVE FileInfos(_, _)
FileInfos(r, f) ==
  IF f > r.nf THEN <<>>
  ELSE LET prog == r.files[f].prog  X == Info(prog)  D == LabelDefsI(prog, X) IN
       <<[D |-> D, rel |-> RelSpecLoI(prog, X, D), defs |-> { <<d[1], d[2]>> : d \in { d \in D : ~d[3] } }]>> \o FileInfos(r, f + 1)
RECURSIVE ObjTable(_, _)
ObjTable(r, k) == IF k > Len(r.objs) THEN <<>> ELSE <<ObjOfJson(r.objs[k].obj)>> \o ObjTable(r, k + 1)

LinkWhy(r) ==
  LET T  == ObjTable(r, 1)
      FI == FileInfos(r, 1)
      nf == r.nf
      allsym == \A f \in 1..nf : T[f].sym
      alldbg == \A f \in 1..nf : T[f].dbg
      StepBad(s, name) ==
        LET a == T[s.a]  b == T[s.b]  ok == s.res = "ok"  L == Link(a, b)  o == IF ok THEN T[s.out] ELSE a IN
        CASE name = "panic" -> s.panic = 1
          [] name = "link-conf-accept" -> s.panic = 0 /\ ok # L.ok
          [] name = "link-conf-kind" -> s.panic = 0 /\ ~ok /\ ~L.ok /\ s.res # L.kind
          [] name = "link-conf-obj" -> ok /\ L.ok /\ o # L.obj
          [] name = "link-accept" -> s.panic = 0 /\ a.sym /\ b.sym /\ ok # (Disjoint(a, b) /\ ~LabelConflict(a, b))
          [] name = "link-image" -> ok /\ a.sym /\ b.sym /\ ImageOfBlocks(o.blocks) # ExpImageOf(a, b)
          [] name = "link-labels" -> ok /\ a.sym /\ b.sym /\ LabelsOfObj(o.labels) # ExpLabelsOf(a, b)
          [] name = "link-rel" -> ok /\ a.sym /\ b.sym /\ RelOfObj(o.rel) # ExpRelOf(a, b)
          [] name = "link-errspan" -> s.panic = 0 /\ ~ok /\ s.err.qpanic = 1
          [] name = "dbg-lines" ->
               ok /\ a.dbg /\ b.dbg /\
               LET la == Rng(r.objs[s.a].dbgq.lines)  lb == Rng(r.objs[s.b].dbgq.lines)  lo == Rng(r.objs[s.out].dbgq.lines) IN
               \/ \E x \in lo : x[3] # 1 \/ ~\E y \in la \cup lb : y[1] = x[1] /\ y[4] = x[4]
               \/ \E y \in la \cup lb : ~\E x \in lo : y[1] = x[1] /\ y[4] = x[4]
          [] OTHER -> FALSE
      StepNames == {"panic", "link-conf-accept", "link-conf-kind", "link-conf-obj", "link-accept", "link-image", "link-labels",
                    "link-rel", "link-errspan", "dbg-lines"}
      finals == { r.finals[j].out : j \in 1..Len(r.finals) }
      \* the set as a whole (files that all carry symbol tables)
      setok == /\ \A f, g \in 1..nf : f # g => Disjoint(T[f], T[g])
               /\ \A f, g \in 1..nf : f # g => ~LabelConflict(T[f], T[g])
      \* a file contributes its definitions to a link only if its object file carries the symbol table
      \* (assembled with debug symbols, or declaring an external itself): `assemble` drops it otherwise
      allDefs == UNION { FI[f].defs : f \in { f \in 1..nf : T[f].sym } }
      allRel  == UNION { FI[f].rel : f \in 1..nf }
      defd(k) == \E d \in allDefs : d[1] = k
      addrOf(k) == (CHOOSE d \in allDefs : d[1] = k)[2]
      rawImg == UNION { ImageOfBlocks(T[f].blocks) : f \in 1..nf }
      setImg == { p \in rawImg : \A e \in allRel : defd(e[2]) => e[1] # p[1] } \cup { <<e[1], addrOf(e[2])>> : e \in { e \in allRel : defd(e[2]) } }
      pending == { e \in allRel : ~defd(e[2]) }
      ObjBad(k, name) ==
        LET j == r.objs[k]  o == T[k] IN
        CASE name = "panic" -> j.load.panic = 1 \/ j.rt.bin.panic = 1 \/ j.rt.txt.panic = 1 \/ j.dbgq.panic = 1
          [] name = "rt-bin" -> j.rt.bin.panic = 0 /\ (j.rt.bin.ok # 1 \/ j.rt.bin.eq # 1 \/ ObjOfJson(j.rt.bin.obj) # o)
          [] name = "rt-txt" -> j.rt.txt.panic = 0 /\ (j.rt.txt.ok # 1 \/ j.rt.txt.eq # 1 \/ ObjOfJson(j.rt.txt.obj) # o)
          [] name = "load-conf" -> j.load.panic = 0 /\ j.load.res # (IF Unresolved(o) THEN "UnresolvedExternal" ELSE "ok")
          [] name = "dbg-labels" -> o.dbg /\ (k <= nf \/ alldbg) /\ \E x \in Rng(j.dbgq.labels) :
                                       x[2] < 0 \/ ~SpanOK(<<x[2], x[3]>>, Len(o.src)) \/ Upper(DecodeUtf8(SubBytes(o.src, <<x[2], x[3]>>))) # x[1]
          [] OTHER -> FALSE
      ObjNames == {"panic", "rt-bin", "rt-txt", "load-conf", "dbg-labels"}
  IN
     { n \in StepNames : \E i \in 1..Len(r.steps) : StepBad(r.steps[i], n) }
  \cup { n \in ObjNames : \E k \in 1..Len(r.objs) : ObjBad(k, n) }
     \* ---- C20: order and grouping do not matter
  \cup (IF \E x, y \in finals : (x = 0) # (y = 0) THEN {"order-success"} ELSE {})
  \cup (IF \E x, y \in finals : x # 0 /\ y # 0 /\ Core(T[x]) # Core(T[y]) THEN {"order-core"} ELSE {})
  \cup (IF \E x, y \in finals : x # 0 /\ y # 0 /\ LabelsOfObj(T[x].labels) # LabelsOfObj(T[y].labels) THEN {"order-labels"} ELSE {})
     \* ---- C20 for the whole set
  \cup (IF allsym /\ \E x \in finals : (x # 0) # setok THEN {"set-accept"} ELSE {})
  \cup (IF allsym /\ setok /\ \E x \in finals : x # 0 /\ ImageOfBlocks(T[x].blocks) # setImg THEN {"set-image"} ELSE {})
  \cup (IF allsym /\ setok /\ \E x \in finals : x # 0 /\ RelOfObj(T[x].rel) # pending THEN {"set-rel"} ELSE {})
  \cup (IF allsym /\ setok /\ \E x \in finals : x # 0 /\ \E d \in allDefs : <<d[1], d[2], FALSE>> \notin LabelsOfObj(T[x].labels) THEN {"set-labels"} ELSE {})
     \* ---- C21: never silently unresolved
  \cup (IF \E f \in 1..nf : FI[f].rel # {} /\ r.objs[f].load.res # "UnresolvedExternal" THEN {"unresolved-load"} ELSE {})
  \cup (IF \E f \in 1..nf : FI[f].rel # {} /\ ~T[f].sym THEN {"symkept"} ELSE {})
  \cup (IF setok /\ pending # {} /\ \E x \in finals : x # 0 /\ r.objs[x].load.res # "UnresolvedExternal" THEN {"unresolved-load"} ELSE {})
  \cup (IF setok /\ \E x \in finals : x # 0 /\ r.objs[x].load.res = "ok" /\
            \E e \in allRel : defd(e[2]) /\ ~\E w \in Rng(r.objs[x].load.words) : w[1] = e[1] /\ w[2] = addrOf(e[2])
        THEN {"resolved-word"} ELSE {})
  \cup (IF setok /\ \E x \in finals : x # 0 /\ \E e \in allRel : defd(e[2]) /\ <<e[1], addrOf(e[2])>> \notin ImageOfBlocks(T[x].blocks)
        THEN {"resolved-word"} ELSE {})

\* Round-trip records (C17, C18): one object through both formats.
RtWhy(r) ==
  LET o == ObjOfJson(r.obj) IN
     (IF r.rt.bin.panic = 1 \/ r.rt.txt.panic = 1 THEN {"panic"} ELSE {})
  \cup (IF r.rt.bin.panic = 0 /\ (r.rt.bin.ok # 1 \/ r.rt.bin.eq # 1 \/ ObjOfJson(r.rt.bin.obj) # o) THEN {"rt-bin"} ELSE {})
  \cup (IF r.rt.txt.panic = 0 /\ (r.rt.txt.ok # 1 \/ r.rt.txt.eq # 1 \/ ObjOfJson(r.rt.txt.obj) # o) THEN {"rt-txt"} ELSE {})
  \cup (IF r.dbg = 1 /\ o.src # r.src THEN {"srctext"} ELSE {})

\* Untrusted records (C19): an arbitrary input to a reader, then every use of the result.
PartnerRec == CHOOSE r \in Rng(Rec) : r.ev = "Partners"
Partners == [k \in 1..Len(PartnerRec.objs) |-> ObjOfJson(PartnerRec.objs[k])]
UntrustedWhy(r) ==
  LET acc == r.deser = "accept" IN
     (IF r.panic = 1 \/ r.deser = "panic" \/ r.uses.panic = 1
         \/ \E j \in 1..Len(r.links) : r.links[j].panic = 1 \/ r.links[j].after = 1 \/ r.links[j].errq = 1
      THEN {"panic"} ELSE {})
  \cup (IF acc /\ r.uses.panic = 0 /\ r.uses.load \notin {"ok", "UnresolvedExternal"} THEN {"load-kind"} ELSE {})
  \cup (IF acc /\ r.uses.panic = 0 /\ r.big = 0 /\ r.uses.load # (IF Unresolved(ObjOfJson(r.obj)) THEN "UnresolvedExternal" ELSE "ok") THEN {"load-conf"} ELSE {})
  \cup (IF acc /\ r.big = 0 /\ \E j \in 1..Len(r.links) :
            LET k == r.links[j] IN
            k.with > 0 /\ k.panic = 0 /\
            LET o == ObjOfJson(r.obj)  p == Partners[k.with]
                L == IF k.order = "ab" THEN Link(o, p) ELSE Link(p, o) IN
            (k.res = "ok") # L.ok
        THEN {"link-conf-accept"} ELSE {})
  \cup (IF acc /\ r.big = 0 /\ \E j \in 1..Len(r.links) :
            LET k == r.links[j] IN
            k.with > 0 /\ k.panic = 0 /\ k.res = "ok" /\
            LET o == ObjOfJson(r.obj)  p == Partners[k.with]
                L == IF k.order = "ab" THEN Link(o, p) ELSE Link(p, o) IN
            L.ok /\ Core(ObjOfJson(k.obj)) # Core(L.obj)
        THEN {"link-conf-obj"} ELSE {})

RecWhy(r) ==
  CASE r.ev = "Asm" -> AsmWhy(r)
    [] r.ev = "Untrusted" -> UntrustedWhy(r)
    [] r.ev = "Partners" -> {}
    [] r.ev = "Link" -> LinkWhy(r)
    [] r.ev = "Rt" -> RtWhy(r)
    [] OTHER -> {"unknown-event"}

---------------------------------------------------------------------------
Init == l \in 1..N /\ phase = "call" /\ why = {}
Next == phase = "call" /\ phase' = "ret" /\ l' = l /\ why' = RecWhy(Rec[l])
Spec == Init /\ [][Next]_vars

RecOK == why = {}
=============================================================================
