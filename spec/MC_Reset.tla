------------------------------- MODULE MC_Reset -------------------------------
(* C30 inside the specification: EVERY history of up to Depth calls over an    *)
(* alphabet of what a front end does to a simulator - register, memory and PC  *)
(* pokes, single steps, flag changes, a register device and a timer attached   *)
(* and removed, keyboard and display removed, internal registers mapped,       *)
(* unmapped and rebound, the MCR set, writes through the keyboard status,      *)
(* display data and device ports, typed keys, a keyboard data read, a          *)
(* breakpoint, an object file loaded, a subroutine definition - and reset      *)
(* itself.  On EVERY reachable state TLC evaluates the statement of C30 on     *)
(* MachineProps!ResetOf: execution state as in a new machine built for the     *)
(* CURRENT flags (registers, PC, PSR, saved SP, all memory, counters, frames,  *)
(* observer, allocation list, subroutine definitions), configuration kept      *)
(* (flags, MCR, internal-register map, ports, device table, breakpoints) with  *)
(* the devices io_reset.  Every maximal history is printed; `lc3v replay       *)
(* reset` performs it on a real Simulator, resets, probes the configuration,   *)
(* runs three steps, resets again, and TV_Machine validates every call with    *)
(* the same ResetOf.                                                           *)
EXTENDS MachineProps, Json, IOUtils

CONSTANT Depth
Ops == ndJsonDeserialize(IOEnv.OPS)
NOps == Len(Ops)

\* base 1 + k: a machine of the Known strategy with fill 0 (k = 0) or FillTab[k]
FillOf(k) == IF k = 0 THEN 0 ELSE FillTab[k]
BaseRdMC(b, a) == IF a >= IO_START THEN W(0, 65535) ELSE W(FillOf(b - 1), 0)
Dev(k, slot) == [k |-> k, ie |-> FALSE, val |-> 0, time |-> 0, en |-> FALSE, lo |-> 0, hi |-> 0, vect |-> 0, prio |-> 0, slot |-> slot]
NoFlags == [strict |-> FALSE, real |-> FALSE, dbg |-> FALSE, ignp |-> FALSE]
\* what Simulator::new builds for flags f (Known{0} initialization), before any device is attached
NewFor(f, k) ==
  [pc |-> 12288, psr |-> 32770, reg |-> [i \in 1..8 |-> W(FillOf(k), 0)], ssp |-> W(12288, 65535),
   memw |-> <<>>, dirty |-> <<>>, mcr |-> FALSE, prefetch |-> FALSE, fno |-> 0, dbgf |-> f.dbg, frames |-> <<>>,
   icount |-> 0, obs |-> <<>>, kbd |-> <<>>, disp |-> <<>>,
   devs |-> <<Dev("null", 0), Dev("kbd", 0), Dev("disp", 0), Dev("intfn", 1)>>,
   ports |-> (65024 :> 1) @@ (65026 :> 1) @@ (65028 :> 2) @@ (65030 :> 2),
   ireg |-> (65532 :> "PSR") @@ (65534 :> "MCR"),
   flags |-> f, alloca |-> <<>>,
   srdefs |-> <<>>, base |-> 1 + k, initk |-> k, bps |-> {}, pause |-> "Unsuccessful", devn |-> {}, drift |-> FALSE, nrej |-> 0,
   mark |-> [reg |-> <<>>, psr |-> 0, pc |-> 0, kbd |-> <<>>, disp |-> <<>>, memw |-> <<>>, ssp |-> NoW]]

OmniCtx == [priv |-> 1, strict |-> 0, fx |-> 1, track |-> 0]
JEnv == [lockK |-> 0, lockD |-> 0, ints |-> <<[k |-> 0, vect |-> 0, prio |-> 0]>>, draws |-> <<40>>]
Env  == EnvOf(JEnv)
TimerSlot(s) == Cardinality({ j \in 1..Len(s.devs) : s.devs[j].k = "timer" }) + 1
Do(s, o) ==
  CASE o.op = "setreg" -> SetR(s, o.r, WP(o.w))
    [] o.op = "setmem" -> Wr(s, o.a, WP(o.w))
    [] o.op = "setpc"  -> [s EXCEPT !.pc = o.v]
    [] o.op = "step"   -> StepIn(s, Env).st
    [] o.op = "flag"   -> [s EXCEPT !.flags = FlagsOf(o.flags)]
    [] o.op = "adddev" -> DevOp(s, [op |-> "adddev", ports |-> o.ports, res |-> 0,
                                    dev |-> [k |-> "reg", ie |-> 0, val |-> o.val, time |-> 0, en |-> 0, lo |-> 0, hi |-> 0, vect |-> 0, prio |-> 0, slot |-> 0]]).st
    [] o.op = "addtimer" -> DevOp(s, [op |-> "adddev", ports |-> <<>>, res |-> 0,
                                      dev |-> [k |-> "timer", ie |-> 0, val |-> 0, time |-> o.lo, en |-> 1, lo |-> o.lo, hi |-> o.hi,
                                               vect |-> o.vect, prio |-> o.prio, slot |-> TimerSlot(s)]]).st
    [] o.op = "rmdev"  -> DevOp(s, [op |-> "rmdev", id |-> o.id]).st
    [] o.op = "mmap"   -> DevOp(s, [op |-> "mmap", a |-> o.a, reg |-> o.reg, res |-> "ok"]).st
    [] o.op = "munmap" -> DevOp(s, [op |-> "munmap", a |-> o.a, res |-> "ok"]).st
    [] o.op = "rmem"   -> DevOp(s, [op |-> "rmem", a |-> o.a, ctx |-> OmniCtx, env |-> JEnv, res |-> "ok", w |-> <<0, 0>>]).st
    [] o.op = "wmem"   -> DevOp(s, [op |-> "wmem", a |-> o.a, w |-> <<o.v, 65535>>, ctx |-> OmniCtx, env |-> JEnv, res |-> "ok"]).st
    [] o.op = "setmcr" -> [s EXCEPT !.mcr = B(o.v)]
    [] o.op = "keys"   -> [s EXCEPT !.kbd = @ \o o.bytes]
    [] o.op = "addbp"  -> [s EXCEPT !.bps = @ \cup {BpOf(o.bp)}]
    [] o.op = "load"   -> [LoadBlocks(s, o.blocks, 1) EXCEPT !.alloca = [i \in 1..Len(o.blocks) |-> <<o.blocks[i].s, Len(o.blocks[i].w)>>]]
    [] o.op = "srdef"  -> [s EXCEPT !.srdefs = (o.addr :> [some |-> TRUE, cc |-> TRUE, n |-> o.n, regs |-> <<>>]) @@ @]
    [] o.op = "setinit" -> [s EXCEPT !.initk = o.k]
    [] o.op = "reset"  -> ResetOf(s, NewFor(s.flags, s.initk), [j \in 1..8 |-> 40])

VARIABLES st, hist
vars == <<st, hist>>
Init == st = NewFor(NoFlags, 0) /\ hist = <<>>
Next == /\ Len(hist) < Depth
        /\ \E k \in 1..NOps : st' = Do(Clean(st), Ops[k]) /\ hist' = Append(hist, k)
Spec == Init /\ [][Next]_vars

\* ---- C30 as a statement about the reset of every reachable machine -------------------------------
Touched == {12288, 12289, 12290, 12291, 12293, 65024, 65026, 65030, 65088, 65104, 65532, 65534}
ResetOK ==
  LET t == ResetOf(Clean(st), NewFor(st.flags, st.initk), [j \in 1..8 |-> 40])
      n == NewFor(st.flags, st.initk)
  IN
  \* the execution state is that of a new machine built for the current flags
  /\ t.pc = n.pc /\ t.psr = n.psr /\ t.reg = n.reg /\ t.ssp = n.ssp /\ t.icount = 0 /\ t.fno = 0
  /\ t.frames = <<>> /\ t.obs = <<>> /\ ~t.prefetch /\ t.alloca = <<>> /\ t.srdefs = <<>> /\ t.dbgf = st.flags.dbg
  /\ \A a \in Touched \cup DOMAIN st.memw : Rd(t, a) = Rd(n, a)
  \* the configuration is kept
  /\ t.flags = st.flags /\ t.initk = st.initk /\ t.mcr = st.mcr /\ t.ireg = st.ireg /\ t.ports = st.ports /\ t.bps = st.bps
  /\ Len(t.devs) = Len(st.devs)
  /\ \A j \in 1..Len(st.devs) :
       LET d == st.devs[j]  e == t.devs[j] IN
       /\ e.k = d.k /\ e.val = d.val /\ e.lo = d.lo /\ e.hi = d.hi /\ e.vect = d.vect /\ e.prio = d.prio /\ e.en = d.en
       /\ (d.k = "kbd" => ~e.ie) /\ (d.k = "timer" => e.time >= d.lo /\ e.time <= d.hi)
  \* the buffers of a keyboard and a display that are still attached are emptied
  /\ ((\E j \in 1..Len(st.devs) : st.devs[j].k = "kbd") => t.kbd = <<>>)
  /\ ((\E j \in 1..Len(st.devs) : st.devs[j].k = "disp") => t.disp = <<>>)
\* a reset machine is a fixed point of reset
Idempotent ==
  LET dr == [j \in 1..8 |-> 40]
      t == ResetOf(Clean(st), NewFor(st.flags, st.initk), dr) IN
  Clean(ResetOf(Clean(t), NewFor(t.flags, t.initk), dr)) = Clean(t)
\* non-vacuity: the histories do reach machines that differ from a new one in every part reset touches
Emit == (Len(hist) = Depth) => PrintT(<<"HIST", hist>>)
=============================================================================
