SPECIFICATION SpecRP
CONSTANT MaxCalls = 3
CONSTANT BaseRd <- BaseRdMC
INVARIANT Segmented
INVARIANT NoError
INVARIANT LimitExact
INVARIANT LimitAtMost
INVARIANT OverOK
INVARIANT OutOK
INVARIANT BpAfterStep
INVARIANT Emit
CHECK_DEADLOCK FALSE
