---------------------------- MODULE MC_TrapMode ----------------------------
(* C12 inside the specification: TLC runs every user program of a small      *)
(* family on the specification's machine with the REAL OS image (exported    *)
(* from the crate), once with virtual and once with real traps, and compares *)
(* the two ends as the property says.  A program is a sequence of up to      *)
(* MaxFrag position-independent fragments (arithmetic, stores and loads of   *)
(* data cells, a push/pop on the user stack, a subroutine call and return,   *)
(* OUT, PUTS, PUTSP, GETC, IN) followed by one ending: HALT, a load / store /*)
(* jump aimed below user space, RTI, an illegal opcode.                      *)
EXTENDS Run, Json, IOUtils

CONSTANTS MaxFrag, R0s
OsRec == ndJsonDeserialize(IOEnv.OSIMG)[1]
OsBlocks == OsRec.blocks
RECURSIVE FlatFrom(_, _)
FlatFrom(bs, k) == IF k > Len(bs) THEN <<>> ELSE bs[k].w \o FlatFrom(bs, k + 1)
OsFlat == FlatFrom(OsBlocks, 1)
ASSUME Len(OsBlocks) >= 1 /\ OsBlocks[1].s = 0
ASSUME \A k \in 2..Len(OsBlocks) : OsBlocks[k].s = OsBlocks[k - 1].s + Len(OsBlocks[k - 1].w)
BaseRdMC(b, a) == IF a < Len(OsFlat) THEN (IF OsFlat[a + 1] >= 0 THEN W(OsFlat[a + 1], 65535) ELSE W(0, 0))
                  ELSE IF a >= IO_START THEN W(0, 65535) ELSE W(0, 0)

\* registers at the start: R1 -> data area x4000, R5 = 0 (aims below user space), R6 = user stack
DATA == 16384
Frag == [
  arith |-> <<5281, 38591>>,                       \* ADD R2,R2,#1 ; NOT R3,R2
  store |-> <<29768, 26696>>,                      \* STR R2,R1,#8 ; LDR R4,R1,#8
  stack |-> <<7615, 30080, 27008, 7585>>,          \* ADD R6,R6,#-1 ; STR R2,R6,#0 ; LDR R4,R6,#0 ; ADD R6,R6,#1
  call  |-> <<18434, 3586, 5282, 49600>>,          \* JSR +2 ; BRnzp +2 ; [ADD R2,R2,#2 ; RET]
  out   |-> <<61473>>,                             \* OUT  (R0)
  puts  |-> <<4192, 61474>>,                       \* ADD R0,R1,#0 ; PUTS
  putsp |-> <<4196, 61476>>,                       \* ADD R0,R1,#4 ; PUTSP
  getc  |-> <<61472>>,                             \* GETC
  in    |-> <<61475>>                              \* IN
]
Ending == [
  halt   |-> <<61477>>,                            \* HALT
  load   |-> <<25920>>,                            \* LDR R2,R5,#0   (x0000)
  store  |-> <<30016>>,                            \* STR R2,R5,#0
  jump   |-> <<49472>>,                            \* JMP R5
  rti    |-> <<32768>>,
  illop  |-> <<53248>>
]
FragNames == DOMAIN Frag
EndNames  == DOMAIN Ending

RECURSIVE Code(_)
Code(p) == IF p = <<>> THEN <<>> ELSE Frag[Head(p)] \o Code(Tail(p))
Words(p, e) == Code(p) \o Ending[e] \o <<61477>>

Dev(k) == [k |-> k, ie |-> FALSE, val |-> 0, time |-> 0, en |-> FALSE, lo |-> 0, hi |-> 0, vect |-> 0, prio |-> 0, slot |-> 0]
DataWords == <<111, 107, 0, 99, 26984, 33, 0>>      \* "ok" NUL 'c' | packed "hi" "!" NUL
Mk(ws, real, r0) ==
  [pc |-> 12288, psr |-> 32770,
   reg |-> [i \in 1..8 |-> CASE i = 1 -> W(r0, 65535) [] i = 2 -> W(DATA, 65535) [] i = 6 -> W(0, 65535) [] i = 7 -> W(64768, 65535)
                              [] OTHER -> W(7 * i, 65535)],
   ssp |-> W(12288, 65535),
   memw |-> [a \in { 12288 + k - 1 : k \in 1..Len(ws) } |-> W(ws[a - 12288 + 1], 65535)]
            @@ [a \in { DATA + k - 1 : k \in 1..Len(DataWords) } |-> W(DataWords[a - DATA + 1], 65535)],
   dirty |-> <<>>, mcr |-> TRUE, prefetch |-> FALSE, fno |-> 0, dbgf |-> FALSE, frames |-> <<>>,
   icount |-> 0, obs |-> <<>>, kbd |-> <<66, 10, 67, 68>>, disp |-> <<>>,
   devs |-> <<Dev("null"), Dev("kbd"), Dev("disp")>>, ports |-> (65024 :> 1) @@ (65026 :> 1) @@ (65028 :> 2) @@ (65030 :> 2),
   ireg |-> (65532 :> "PSR") @@ (65534 :> "MCR"),
   flags |-> [strict |-> FALSE, real |-> real, dbg |-> FALSE, ignp |-> FALSE], alloca |-> <<>>,
   srdefs |-> <<>>, base |-> 1, bps |-> {}, pause |-> "Unsuccessful", devn |-> {}, drift |-> FALSE, nrej |-> 0,
   mark |-> [reg |-> <<>>, psr |-> 0, pc |-> 0, kbd |-> <<>>, disp |-> <<>>, memw |-> <<>>, ssp |-> NoW]]

Quiet == [lockK |-> FALSE, lockD |-> FALSE, clr |-> FALSE,
          ints |-> [j \in 1..8 |-> [k |-> 0, vect |-> 0, prio |-> 0]], draws |-> [j \in 1..8 |-> 1]]
Budget == 3000
Envs == [i \in 1..Budget |-> Quiet]

Msg(e) == CASE e = "AccessViolation"    -> <<10,45,45,45,32,65,99,99,101,115,115,32,118,105,111,108,97,116,105,111,110,32,45,45,45>>
            [] e = "PrivilegeViolation" -> <<10,45,45,45,32,80,114,105,118,105,108,101,103,101,32,118,105,111,108,97,116,105,111,110,32,45,45,45>>
            [] e \in {"IllegalOpcode", "InvalidInstrFormat"} -> <<10,45,45,45,32,73,108,108,101,103,97,108,32,111,112,99,111,100,101,32,45,45,45>>
            [] OTHER -> <<>>

UserAddrs(s) == { a \in DOMAIN s.memw : InUser(a) }
SameUserMem(a, b) == \A x \in UserAddrs(a) \cup UserAddrs(b) : Rd(a, x) = Rd(b, x)
Halted(r) == r.out = "ok" /\ r.n < Budget /\ ~r.st.mcr

VARIABLES prog, ending, r0, phase
vars == <<prog, ending, r0, phase>>
Init == prog = <<>> /\ ending = "halt" /\ r0 \in R0s /\ phase = "gen"
Next == \/ phase = "gen" /\ Len(prog) < MaxFrag /\ \E f \in FragNames : prog' = Append(prog, f) /\ UNCHANGED <<ending, r0, phase>>
        \/ phase = "gen" /\ \E e \in EndNames : ending' = e /\ phase' = "chk" /\ UNCHANGED <<prog, r0>>
Spec == Init /\ [][Next]_vars

\* the statement of C12 on the two ends
TrapModeOK ==
  phase = "chk" =>
    LET ws == Words(prog, ending)
        a  == RunCall(Mk(ws, FALSE, r0), "run", 0, Envs)
        b  == RunCall(Mk(ws, TRUE, r0), "run", 0, Envs)
    IN /\ a.n < Budget                           \* the family is bounded: every program ends (the keyboard queue
                                                 \* holds more bytes than a program of MaxFrag <= 4 fragments reads)
       /\ ~Privileged(a.st.psr)                  \* and ends in user mode under virtual traps
       /\ IF a.out = "ok"
          THEN /\ a.st.pause = "Halt"
               /\ Halted(b)
               /\ b.st.disp = a.st.disp
               /\ \A i \in 1..6 : b.st.reg[i] = a.st.reg[i]
               /\ SameUserMem(a.st, b.st)
          ELSE /\ a.out \in {"AccessViolation", "PrivilegeViolation", "IllegalOpcode", "InvalidInstrFormat"}
               /\ Halted(b)
               /\ b.st.disp = a.st.disp \o Msg(a.out)
\* every program of the family, for the harness to replay on the real simulator (`lc3v replay trapmode`):
\* R0 followed by the words loaded at x3000
\* (the constants of the start state are shared with the harness through the OPS file and must agree)
Ops == ndJsonDeserialize(IOEnv.OPS)[1]
OpsAgree == Ops.data = DataWords /\ Ops.dataaddr = DATA /\ Ops.kbd = <<66, 10, 67, 68>> /\ Ops.r6 = 64768 /\ Ops.psr = 32770
Emit == phase = "chk" => (OpsAgree /\ PrintT(<<"HIST", <<r0>> \o Words(prog, ending)>>))
\* which ending leads where (non-vacuity of the two branches)
EndingsAsMeant ==
  phase = "chk" =>
    LET a == RunCall(Mk(Words(prog, ending), FALSE, r0), "run", 0, Envs) IN
    a.out = CASE ending = "halt" -> "ok" [] ending \in {"load", "store", "jump"} -> "AccessViolation"
              [] ending = "rti" -> "PrivilegeViolation" [] ending = "illop" -> "IllegalOpcode"
=============================================================================
