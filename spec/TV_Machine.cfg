SPECIFICATION Spec
CONSTANT BaseRd <- TraceBaseRd
INVARIANT Conforms
CHECK_DEADLOCK FALSE
