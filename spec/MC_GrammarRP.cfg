SPECIFICATION Spec
INVARIANT ReadsBack
INVARIANT Emit
CHECK_DEADLOCK FALSE
