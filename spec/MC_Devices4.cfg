SPECIFICATION Spec
CONSTANT Depth = 4
CONSTANT BaseRd <- BaseRdMC
INVARIANT PortsOK
INVARIANT FixedOK
INVARIANT IregOK
INVARIANT DispatchOK
INVARIANT Emit
PROPERTY Grows
CHECK_DEADLOCK FALSE
