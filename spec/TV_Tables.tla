----------------------------- MODULE TV_Tables -----------------------------
(* Trace validation for pure functions of the implementation.  The harness    *)
(* (`lc3v emit <domain>`) records one JSON object per call of the real code;  *)
(* each record is an independent behaviour  call -> ret  of this module, and  *)
(* the invariant TableOK evaluates the corresponding specification operator   *)
(* on the logged arguments and compares it with the logged result.  A panic   *)
(* in the code under test is logged with panic = 1, for which no record       *)
(* predicate holds.                                                           *)
EXTENDS Isa, WordInit, SourceInfo, Sequences, FiniteSets, Json, IOUtils, TLC

Rec == ndJsonDeserialize(IOEnv.TRACE)
N   == Len(Rec)

VARIABLES i, phase
vars == <<i, phase>>

Init == i \in 1..N /\ phase = "call"
Next == phase = "call" /\ phase' = "ret" /\ i' = i
Spec == Init /\ [][Next]_vars

---------------------------------------------------------------------------
SameInstr(x, y) == x.op = y.op /\ x.a = y.a /\ x.b = y.b /\ x.c = y.c /\ x.m = y.m
SameNuc(x, s)   == x.k = s.k /\ x.a = s.a /\ x.b = s.b /\ x.c = s.c /\ x.m = s.m
                   /\ x.lbl = <<>> /\ x.str = <<>>

\* C06, decode direction.  The three conjunct groups are (1) the property's own
\* words (instruction iff canonical; reserved opcode / bad format kinds;
\* re-encoding gives back the word), (2) agreement with the specification's
\* decoder, which MC_Isa proves equivalent to (1) over all words.
DecodeOK(r) ==
  LET d == Decode(r.w) IN
  /\ r.panic = 0
  /\ (r.ok = 1) <=> Canonical(r.w)
  /\ (Slice(r.w, 12, 16) = 13) => (r.ok = 0 /\ r.err = "IllegalOpcode")
  /\ (Slice(r.w, 12, 16) # 13 /\ ~Canonical(r.w)) => (r.ok = 0 /\ r.err = "InvalidInstrFormat")
  /\ (r.ok = 1) => (r.re = r.w)
  /\ (r.ok = 1) = d.ok
  /\ d.ok => SameInstr(r.i, d.i)
  /\ ~d.ok => r.err = d.err

\* C06, encode direction.
EncodeOK(r) ==
  /\ r.panic = 0
  /\ Representable(r.i)
  /\ r.w = Encode(r.i)
  /\ r.back_ok = 1
  /\ SameInstr(r.back, r.i)

\* C07.
DisasmOK(r) ==
  LET s == Disasm(r.w) IN
  /\ r.panic = 0
  /\ r.nlabels = 0
  /\ SameNuc(r.stmt, s)
  /\ \A j \in 1..Len(r.re) : r.re[j] = r.w
  /\ Len(r.re) = 3
  \* words below x0200 and non-instructions come back as .fill
  /\ (r.w < 512 \/ ~Canonical(r.w)) <=> (r.stmt.k = ".fill")
  \* aliases by name
  /\ (r.w = 49600) <=> (r.stmt.k = "RET")                    \* xC1C0
  /\ (r.w \in 61472..61477) <=> (r.stmt.k \in {"GETC","PUTC","PUTS","IN","PUTSP","HALT"})
  /\ (r.w = 61477) <=> (r.stmt.k = "HALT")                   \* xF025
  /\ (r.w = 61472) <=> (r.stmt.k = "GETC")                   \* xF020

\* C35.  v is the mathematical value of the argument.
OffsetOK(r) ==
  /\ r.panic = 0
  /\ r.n \in 1..16
  /\ IF r.s = 1
     THEN /\ (r.new_ok = 1) <=> FitsS(r.v, r.n)
          /\ (r.new_ok = 1) => r.new_v = r.v
          /\ r.trunc = TruncS(r.v, r.n)
     ELSE /\ (r.new_ok = 1) <=> FitsU(r.v, r.n)
          /\ (r.new_ok = 1) => r.new_v = r.v
          /\ r.trunc = TruncU(r.v, r.n)

\* C15.  The value function of each operation on 16-bit values.
OpVal(op, x, y) == CASE op = "add" -> (x + y) % 65536 [] op = "sub" -> (x - y) % 65536
                     [] op = "and" -> (x & y) [] op = "not" -> 65535 - x
\* all completions of a word: the known bits fixed, every combination of the unknown ones
UnknownBits(m) == { bb \in 0..15 : Bit(m, bb) = 0 }
RECURSIVE SumPow(_)
SumPow(BS) == IF BS = {} THEN 0 ELSE LET bb == CHOOSE b0 \in BS : TRUE IN Pow2(bb) + SumPow(BS \ {bb})
CompletionsOf(p) == { (p[1] & p[2]) + SumPow(BS) : BS \in SUBSET UnknownBits(p[2]) }
\* bits on which two values agree, restricted to mask m
AgreeOn(u, v, m) == (u & m) = (v & m)

WordOpOK(r) ==
  LET rv == r.r[1]  rm == r.r[2]  full == (r.a[2] = 65535 /\ (r.op = "not" \/ r.b[2] = 65535)) IN
  /\ r.panic = 0
  \* fully initialized operands: wrapping value, fully initialized
  /\ full => (rm = 65535 /\ rv = OpVal(r.op, r.a[1], r.b[1]))
  \* the reported value is the operation on the data as given
  /\ AgreeOn(rv, OpVal(r.op, r.a[1], r.b[1]), rm)
  \* witnesses through the real operators: re-drawing the unknown bits never changes a
  \* bit that was reported initialized (and reports the same mask for these operators' rules)
  /\ \A j \in 1..Len(r.rr) : r.rr[j][3] >= 0 /\ AgreeOn(r.rr[j][3], rv, rm)
                              /\ AgreeOn(OpVal(r.op, r.rr[j][1], r.rr[j][2]), rv, rm)
  \* exact decision for the structured pairs: every completion, enumerated by TLC
  /\ (r.kind = "enum") =>
        \A cx \in CompletionsOf(r.a) : \A cy \in (IF r.op = "not" THEN {0} ELSE CompletionsOf(r.b)) :
           AgreeOn(OpVal(r.op, cx, cy), rv, rm)

\* conformance of the propagation rule itself (a different sound rule would also satisfy C15)
WordOpConf(r) ==
  LET x == W(r.a[1], r.a[2])  y == W(r.b[1], r.b[2])
      e == CASE r.op = "add" -> AddW(x, y) [] r.op = "sub" -> SubW(x, y) [] r.op = "and" -> AndW(x, y) [] r.op = "not" -> NotW(x)
  IN r.r = <<e.v, e.m>>

\* C25.  Every query of SourceInfo against the operators of spec/SourceInfo.tla.
SrcInfoOK(r) ==
  LET src == r.src  n == CountLines(src) IN
  /\ r.panic = 0
  /\ r.same = 1
  /\ r.lines = n
  /\ Len(r.spans) = n + 2 /\ Len(r.texts) = n + 2
  /\ \A ln \in 0..(n + 1) :
        IF ln < n
        THEN LET sp == LineSpan(src, ln) IN
             /\ r.spans[ln + 1] = <<sp.s, sp.e>>
             /\ r.texts[ln + 1] = <<1, ReadLine(src, ln)>>
        ELSE r.spans[ln + 1] = <<-1, -1>> /\ r.texts[ln + 1][1] = 0
  /\ Len(r.pos) = Len(src) + 11
  /\ \A j \in 1..Len(r.pos) : LET p == PosPair(src, r.pos[j][1]) IN r.pos[j] = <<j - 1, p[1], p[2]>>

RecOK(r) ==
  CASE r.ev = "Decode" -> DecodeOK(r)
    [] r.ev = "SrcInfo" -> SrcInfoOK(r)
    [] r.ev = "Encode" -> EncodeOK(r)
    [] r.ev = "Disasm" -> DisasmOK(r)
    [] r.ev = "Offset" -> OffsetOK(r)
    [] r.ev = "WordOp" -> WordOpOK(r)
    [] OTHER -> FALSE

TableOK == phase = "ret" => RecOK(Rec[i])
\* reported as drift, not as a violation of C15
TableConf == (phase = "ret" /\ Rec[i].ev = "WordOp") => WordOpConf(Rec[i])
=============================================================================
