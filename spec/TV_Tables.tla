----------------------------- MODULE TV_Tables -----------------------------
(* Trace validation for pure functions of the implementation.  The harness    *)
(* (`lc3v emit <domain>`) records one JSON object per call of the real code;  *)
(* each record is an independent behaviour  call -> ret  of this module, and  *)
(* the invariant TableOK evaluates the corresponding specification operator   *)
(* on the logged arguments and compares it with the logged result.  A panic   *)
(* in the code under test is logged with panic = 1, for which no record       *)
(* predicate holds.                                                           *)
EXTENDS Isa, Sequences, Json, IOUtils, TLC

Rec == ndJsonDeserialize(IOEnv.TRACE)
N   == Len(Rec)

VARIABLES i, phase
vars == <<i, phase>>

Init == i \in 1..N /\ phase = "call"
Next == phase = "call" /\ phase' = "ret" /\ i' = i
Spec == Init /\ [][Next]_vars

---------------------------------------------------------------------------
SameInstr(x, y) == x.op = y.op /\ x.a = y.a /\ x.b = y.b /\ x.c = y.c /\ x.m = y.m
SameNuc(x, s)   == x.k = s.k /\ x.a = s.a /\ x.b = s.b /\ x.c = s.c /\ x.m = s.m
                   /\ x.lbl = <<>> /\ x.str = <<>>

\* C06, decode direction.  The three conjunct groups are (1) the property's own
\* words (instruction iff canonical; reserved opcode / bad format kinds;
\* re-encoding gives back the word), (2) agreement with the specification's
\* decoder, which MC_Isa proves equivalent to (1) over all words.
DecodeOK(r) ==
  LET d == Decode(r.w) IN
  /\ r.panic = 0
  /\ (r.ok = 1) <=> Canonical(r.w)
  /\ (Slice(r.w, 12, 16) = 13) => (r.ok = 0 /\ r.err = "IllegalOpcode")
  /\ (Slice(r.w, 12, 16) # 13 /\ ~Canonical(r.w)) => (r.ok = 0 /\ r.err = "InvalidInstrFormat")
  /\ (r.ok = 1) => (r.re = r.w)
  /\ (r.ok = 1) = d.ok
  /\ d.ok => SameInstr(r.i, d.i)
  /\ ~d.ok => r.err = d.err

\* C06, encode direction.
EncodeOK(r) ==
  /\ r.panic = 0
  /\ Representable(r.i)
  /\ r.w = Encode(r.i)
  /\ r.back_ok = 1
  /\ SameInstr(r.back, r.i)

\* C07.
DisasmOK(r) ==
  LET s == Disasm(r.w) IN
  /\ r.panic = 0
  /\ r.nlabels = 0
  /\ SameNuc(r.stmt, s)
  /\ \A j \in 1..Len(r.re) : r.re[j] = r.w
  /\ Len(r.re) = 3
  \* words below x0200 and non-instructions come back as .fill
  /\ (r.w < 512 \/ ~Canonical(r.w)) <=> (r.stmt.k = ".fill")
  \* aliases by name
  /\ (r.w = 49600) <=> (r.stmt.k = "RET")                    \* xC1C0
  /\ (r.w \in 61472..61477) <=> (r.stmt.k \in {"GETC","PUTC","PUTS","IN","PUTSP","HALT"})
  /\ (r.w = 61477) <=> (r.stmt.k = "HALT")                   \* xF025
  /\ (r.w = 61472) <=> (r.stmt.k = "GETC")                   \* xF020

\* C35.  v is the mathematical value of the argument.
OffsetOK(r) ==
  /\ r.panic = 0
  /\ r.n \in 1..16
  /\ IF r.s = 1
     THEN /\ (r.new_ok = 1) <=> FitsS(r.v, r.n)
          /\ (r.new_ok = 1) => r.new_v = r.v
          /\ r.trunc = TruncS(r.v, r.n)
     ELSE /\ (r.new_ok = 1) <=> FitsU(r.v, r.n)
          /\ (r.new_ok = 1) => r.new_v = r.v
          /\ r.trunc = TruncU(r.v, r.n)

RecOK(r) ==
  CASE r.ev = "Decode" -> DecodeOK(r)
    [] r.ev = "Encode" -> EncodeOK(r)
    [] r.ev = "Disasm" -> DisasmOK(r)
    [] r.ev = "Offset" -> OffsetOK(r)
    [] OTHER -> FALSE

TableOK == phase = "ret" => RecOK(Rec[i])
=============================================================================
