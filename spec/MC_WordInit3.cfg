SPECIFICATION Spec
CONSTANT WW = 3
INVARIANT Sound
INVARIANT FullInit
CHECK_DEADLOCK FALSE
