------------------------------ MODULE MC_Timer ------------------------------
(* The timer design (Machine!PollDev for a timer device, `timer.rs`) explored *)
(* for all ranges within 1..MaxT, all draws, and all interleavings of poll,   *)
(* enable, disable and reset; the observer automaton of TimerProp must never  *)
(* report a violated clause.                                                  *)
EXTENDS Machine, TimerProp, TLC

CONSTANT MaxT
NoBase(h, a) == [v |-> 0, m |-> 0]

VARIABLES t, c, bad, n
vars == <<t, c, bad, n>>

Dev(time, lo, hi) == [NullDev EXCEPT !.k = "timer", !.time = time, !.lo = lo, !.hi = hi, !.vect = 129, !.prio = 4, !.slot = 1]
DummySt == [kbd |-> <<>>]
Env(d) == [lockK |-> FALSE, lockD |-> FALSE, ints |-> <<>>, draws |-> <<d>>]

Init == \E lo \in 1..MaxT, hi \in 1..MaxT, d0 \in 1..MaxT :
          /\ lo <= hi /\ d0 >= lo /\ d0 <= hi
          /\ t = Dev(d0, lo, hi)            \* construction draws the first time
          /\ c = PropInit(lo, hi)
          /\ bad = {} /\ n = 0

Poll == \E d \in t.lo..t.hi :
          LET p == PollDev(DummySt, t, Env(d))
              o == OnPoll(c, p.q.k = "vec")
          IN t' = p.d /\ c' = o.c /\ bad' = o.bad
Enable(en) == t' = [t EXCEPT !.en = en] /\ LET o == OnEnable(c, en) IN c' = o.c /\ bad' = o.bad
Reset == \E d \in t.lo..t.hi : t' = [t EXCEPT !.time = d] /\ LET o == OnReset(c) IN c' = o.c /\ bad' = o.bad

Next == /\ n < 3 * MaxT + 6 /\ n' = n + 1
        /\ (Poll \/ Enable(TRUE) \/ Enable(FALSE) \/ Reset)
Spec == Init /\ [][Next]_vars

NoViolation == bad = {}
\* the timer does fire: vacuity guard, checked as a reachability fact by its negation being violated
View == <<t, c, bad>>
=============================================================================
