SPECIFICATION Spec
INVARIANT Prop
CHECK_DEADLOCK FALSE
