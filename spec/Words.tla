------------------------------- MODULE Words -------------------------------
(* 16-bit machine words as integers 0..65535 with explicit wrap-around, bit   *)
(* slicing and sign extension.  Everything else in the specification builds   *)
(* on these operators.  AND/OR come from the CommunityModules Bitwise module  *)
(* (Java override); And16R is an independent recursive definition used by the *)
(* self-tests to cross-check it.                                              *)
EXTENDS Integers, Bitwise

Word16   == 0..65535
Pow2(n)  == 2^n

\* value modulo 2^16, for any integer x (TLC's % is the mathematical modulus)
Wrap(x)  == x % 65536

\* bits lo..hi-1 of w as the low bits of the result (Rust: slice(lo..hi))
Slice(w, lo, hi) == (w \div Pow2(lo)) % Pow2(hi - lo)
Bit(w, i)        == (w \div Pow2(i)) % 2

\* signed reading of an n-bit field value v \in 0..2^n-1
SExt(v, n) == IF v >= Pow2(n - 1) THEN v - Pow2(n) ELSE v
\* signed reading of a 16-bit word
S16(w)     == SExt(w, 16)
\* 16-bit word for any integer in -32768..65535
U16(x)     == Wrap(x)

And16(a, b) == a & b
Or16(a, b)  == a | b
Not16(a)    == 65535 - a

RECURSIVE And16R(_, _, _)
And16R(a, b, n) == IF n = 0 THEN 0
                   ELSE (a % 2) * (b % 2) + 2 * And16R(a \div 2, b \div 2, n - 1)

\* number of one bits among the low n bits
RECURSIVE PopCount(_, _)
PopCount(a, n) == IF n = 0 THEN 0 ELSE (a % 2) + PopCount(a \div 2, n - 1)

Min(a, b) == IF a < b THEN a ELSE b
Max(a, b) == IF a > b THEN a ELSE b
=============================================================================
