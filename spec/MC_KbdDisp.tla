----------------------------- MODULE MC_KbdDisp -----------------------------
(* C33 inside the specification: an echo program (GETC / OUT until NUL, then   *)
(* PUTS "!" and HALT) runs through the real OS image on the specification's    *)
(* machine while a second party holds the keyboard or the display buffer lock  *)
(* during ANY choice of up to Budget instruction steps (every placement, both  *)
(* locks, also together and in consecutive steps).                             *)
(*  Safety  : at the halt every queued byte is on the display exactly once and *)
(*            in order - unless the run used one of the two transcribed        *)
(*            `try_write` deviations (lock held at the very step of the data   *)
(*            access after the status register was read as ready), which are   *)
(*            the known findings; nothing else loses, duplicates or reorders.  *)
(*  Liveness: under weak fairness of the machine every such run halts (a lock  *)
(*            held for finitely many steps only delays the polling loops).     *)
EXTENDS MachineProps, Json, IOUtils

CONSTANTS Budget, Input
Input1 == <<97>>
Input2 == <<97, 98>>
OsRec == ndJsonDeserialize(IOEnv.OSIMG)[1]
RECURSIVE FlatFrom(_, _)
FlatFrom(bs, k) == IF k > Len(bs) THEN <<>> ELSE bs[k].w \o FlatFrom(bs, k + 1)
OsFlat == FlatFrom(OsRec.blocks, 1)
Echo == << Encode(I("TRAP", 32, 0, 0, 0)),      \* x3000 LOOP GETC
           Encode(I("TRAP", 33, 0, 0, 0)),      \*            OUT
           Encode(I("ADD", 0, 0, 0, 1)),        \*            ADD R0, R0, #0
           Encode(I("BR", 5, -4, 0, 0)),        \*            BRnp LOOP
           Encode(I("LEA", 0, 2, 0, 0)),        \*            LEA R0, BYE
           Encode(I("TRAP", 34, 0, 0, 0)),      \*            PUTS
           Encode(I("TRAP", 37, 0, 0, 0)),      \*            HALT
           33, 0 >>                             \* BYE  "!"
BaseRdMC(b, a) == IF a < Len(OsFlat) THEN (IF OsFlat[a + 1] >= 0 THEN W(OsFlat[a + 1], 65535) ELSE W(0, 0))
                  ELSE IF a >= 12288 /\ a < 12288 + Len(Echo) THEN W(Echo[a - 12288 + 1], 65535)
                  ELSE IF a >= IO_START THEN W(0, 65535) ELSE W(0, 0)

Dev(k) == [k |-> k, ie |-> FALSE, val |-> 0, time |-> 0, en |-> FALSE, lo |-> 0, hi |-> 0, vect |-> 0, prio |-> 0, slot |-> 0]
Start ==
  [pc |-> 12288, psr |-> 32770, reg |-> [i \in 1..8 |-> IF i = 7 THEN W(64768, 65535) ELSE W(0, 65535)], ssp |-> W(12288, 65535),
   memw |-> <<>>, dirty |-> <<>>, mcr |-> TRUE, prefetch |-> FALSE, fno |-> 0, dbgf |-> FALSE, frames |-> <<>>,
   icount |-> 0, obs |-> <<>>, kbd |-> Input \o <<0>>, disp |-> <<>>,
   devs |-> <<Dev("null"), Dev("kbd"), Dev("disp")>>, ports |-> (65024 :> 1) @@ (65026 :> 1) @@ (65028 :> 2) @@ (65030 :> 2),
   ireg |-> (65532 :> "PSR") @@ (65534 :> "MCR"),
   flags |-> [strict |-> FALSE, real |-> FALSE, dbg |-> FALSE, ignp |-> FALSE], alloca |-> <<>>,
   srdefs |-> <<>>, base |-> 1, bps |-> {}, pause |-> "Unsuccessful", devn |-> {}, drift |-> FALSE, nrej |-> 0,
   mark |-> [reg |-> <<>>, psr |-> 0, pc |-> 0, kbd |-> <<>>, disp |-> <<>>, memw |-> <<>>, ssp |-> NoW]]

VARIABLES st, left, halted, bad
vars == <<st, left, halted, bad>>
Init == st = Start /\ left = Budget /\ halted = FALSE /\ bad = FALSE
Step(lk, ld) ==
  /\ ~halted
  /\ (IF lk THEN 1 ELSE 0) + (IF ld THEN 1 ELSE 0) <= left
  /\ LET x == StepF(Clean(ClearObs(st)), [lockK |-> lk, lockD |-> ld, ints |-> <<>>, draws |-> <<>>]) IN
       /\ st' = [x.st EXCEPT !.obs = <<>>, !.dirty = <<>>]
       /\ halted' = (x.out = "halt")
       /\ bad' = (x.out \notin {"ok", "halt"})
  /\ left' = left - ((IF lk THEN 1 ELSE 0) + (IF ld THEN 1 ELSE 0))
Next == \E lk, ld \in BOOLEAN : Step(lk, ld)
Spec == Init /\ [][Next]_vars /\ WF_vars(Next)

Expected == (Input \o <<0>>) \o <<33>>
\* every queued byte exactly once and in order - or the run went through a transcribed deviation
Delivery == halted => (st.disp = Expected /\ st.kbd = <<>>) \/ st.devn # {}
\* without a deviation step nothing is lost whatever the lock pattern
NoOtherLoss == (halted /\ st.devn = {}) => st.disp = Expected
NoError == ~bad
\* the display never shows anything but a prefix-consistent output (no duplication, no reordering) while no deviation occurred
PrefixOK == st.devn = {} => (Len(st.disp) <= Len(Expected) /\ st.disp = SubSeq(Expected, 1, Len(st.disp)))
Terminates == <>halted
\* non-vacuity probe (must be VIOLATED: the two transcribed deviations are reachable and lose a byte)
ProbeAlwaysDelivered == halted => st.disp = Expected
=============================================================================
