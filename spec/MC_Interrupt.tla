---------------------------- MODULE MC_Interrupt ----------------------------
(* C10 inside the specification: a user program (a counted loop with a store   *)
(* and a halt) and a handler that saves and restores what it uses and returns  *)
(* with RTI are placed in memory; TLC places up to MaxReq interrupt requests   *)
(* (priorities 1, 4 and 7, two devices so that requests can compete at one     *)
(* boundary, arrive inside the handler, or follow each other) at EVERY         *)
(* instruction boundary of every run and checks on every step that the         *)
(* interrupt is taken exactly when its priority exceeds the current one        *)
(* (IntGate, as evaluated on the real simulator) and at the halt that          *)
(* registers, condition codes, R6, user memory and output equal those of the   *)
(* uninterrupted run.                                                          *)
EXTENDS MachineProps

CONSTANTS MaxReq, ProgPrio

\* ---- the memory image -------------------------------------------------------
Prog == << Encode(I("AND", 1, 1, 0, 1)),        \* x3000  AND R1, R1, #0
           Encode(I("ADD", 1, 1, 3, 1)),        \*        ADD R1, R1, #3
           Encode(I("ADD", 2, 2, 5, 1)),        \* LOOP   ADD R2, R2, #5
           Encode(I("ST", 2, 5, 0, 0)),         \*        ST  R2, CNT
           Encode(I("ADD", 6, 6, -1, 1)),       \*        ADD R6, R6, #-1      (a push on the user stack)
           Encode(I("STR", 2, 6, 0, 0)),        \*        STR R2, R6, #0
           Encode(I("ADD", 1, 1, -1, 1)),       \*        ADD R1, R1, #-1
           Encode(I("BR", 1, -6, 0, 0)),        \*        BRp LOOP
           Encode(I("TRAP", 37, 0, 0, 0)),      \*        HALT
           0 >>                                 \* CNT
Handler == << Encode(I("ADD", 6, 6, -1, 1)),    \* x1000  ADD R6, R6, #-1
              Encode(I("STR", 0, 6, 0, 0)),     \*        STR R0, R6, #0
              Encode(I("LD", 0, 5, 0, 0)),      \*        LD  R0, HC
              Encode(I("ADD", 0, 0, 1, 1)),     \*        ADD R0, R0, #1
              Encode(I("ST", 0, 3, 0, 0)),      \*        ST  R0, HC
              Encode(I("LDR", 0, 6, 0, 0)),     \*        LDR R0, R6, #0
              Encode(I("ADD", 6, 6, 1, 1)),     \*        ADD R6, R6, #1
              Encode(I("RTI", 0, 0, 0, 0)),     \*        RTI
              0 >>                              \* HC
BaseRdMC(b, a) ==
  IF a >= 12288 /\ a < 12288 + Len(Prog) THEN W(Prog[a - 12288 + 1], 65535)
  ELSE IF a >= 4096 /\ a < 4096 + Len(Handler) THEN W(Handler[a - 4096 + 1], 65535)
  ELSE IF a \in {400, 401} THEN W(4096, 65535)                 \* vectors x90, x91 -> handler
  ELSE W(0, 65535)

Dev(k, slot) == [k |-> k, ie |-> FALSE, val |-> 0, time |-> 0, en |-> FALSE, lo |-> 0, hi |-> 0, vect |-> 0, prio |-> 0, slot |-> slot]
Start ==
  [pc |-> 12288, psr |-> 32770 + 256 * ProgPrio, reg |-> [i \in 1..8 |-> IF i = 7 THEN W(64768, 65535) ELSE W(i, 65535)], ssp |-> W(12288, 65535),
   memw |-> <<>>, dirty |-> <<>>, mcr |-> TRUE, prefetch |-> FALSE, fno |-> 0, dbgf |-> FALSE, frames |-> <<>>,
   icount |-> 0, obs |-> <<>>, kbd |-> <<>>, disp |-> <<>>,
   devs |-> <<Dev("null", 0), Dev("kbd", 0), Dev("disp", 0), Dev("intfn", 1), Dev("intfn", 2)>>,
   ports |-> (65024 :> 1) @@ (65026 :> 1) @@ (65028 :> 2) @@ (65030 :> 2),
   ireg |-> (65532 :> "PSR") @@ (65534 :> "MCR"),
   flags |-> [strict |-> FALSE, real |-> FALSE, dbg |-> FALSE, ignp |-> FALSE], alloca |-> <<>>,
   srdefs |-> <<>>, base |-> 1, bps |-> {}, pause |-> "Unsuccessful", devn |-> {}, drift |-> FALSE, nrej |-> 0,
   mark |-> [reg |-> <<>>, psr |-> 0, pc |-> 0, kbd |-> <<>>, disp |-> <<>>, memw |-> <<>>, ssp |-> NoW]]

None == [k |-> 0, vect |-> 0, prio |-> 0]
Req(v, p) == [k |-> 1, vect |-> v, prio |-> p]
EnvWith(i1, i2) == [lockK |-> FALSE, lockD |-> FALSE, ints |-> <<i1, i2>>, draws |-> <<>>]
JEnv(i1, i2) == [lockK |-> 0, lockD |-> 0, ints |-> <<i1, i2>>, draws |-> <<>>]

\* the virtual HALT: the step reports "ok" and leaves the PC on the TRAP x25
AtHalt(s) == s.pc = 12288 + 8 /\ s.prefetch /\ Privileged(s.psr) = FALSE
\* the uninterrupted run
RECURSIVE RunFree(_, _)
RunFree(s, n) == IF n = 0 THEN s ELSE LET x == StepF(Clean(ClearObs(s)), EnvWith(None, None)) IN IF x.out = "halt" THEN x.st ELSE RunFree(x.st, n - 1)
Reference == RunFree(Start, 60)
UserMem(s) == { <<a, Rd(s, a)>> : a \in { a \in DOMAIN s.memw : InUser(a) } }
Final(s) == [reg |-> s.reg, cc |-> CC(s.psr), priv |-> Privileged(s.psr), prio |-> Prio(s.psr), pc |-> s.pc, umem |-> UserMem(s), disp |-> s.disp, icountge |-> TRUE]

VARIABLES st, left, prev, obsv, halted, steps
vars == <<st, left, prev, obsv, halted, steps>>

Init == st = Start /\ left = MaxReq /\ prev = Start /\ obsv = [res |-> "none"] /\ halted = FALSE /\ steps = 0
Reqs == { Req(144, 1), Req(144, 4), Req(144, 7), Req(145, 4), Req(145, 7) }
Choices == { <<None, None>> } \cup { <<r, None>> : r \in Reqs } \cup { <<r1, r2>> \in Reqs \X Reqs : r1.vect = 144 /\ r2.vect = 145 }
Cost(c) == (IF c[1].k = 1 THEN 1 ELSE 0) + (IF c[2].k = 1 THEN 1 ELSE 0)
Next == /\ ~halted /\ steps < 120
        /\ \E c \in Choices :
             /\ Cost(c) <= left
             /\ LET s0 == Clean(ClearObs(st))
                    x  == StepF(s0, EnvWith(c[1], c[2]))
                IN /\ prev' = s0 /\ st' = x.st /\ halted' = (x.out = "halt")
                   /\ obsv' = ObsvOfEnv(s0, [x EXCEPT !.out = IF x.out = "halt" THEN "ok" ELSE x.out], JEnv(c[1], c[2]))
                   /\ left' = left - Cost(c) /\ steps' = steps + 1
Spec == Init /\ [][Next]_vars

\* ---- C10 -------------------------------------------------------------------------------------
Gate == steps > 0 => IntGate(prev, obsv)
NoError == steps > 0 => obsv.res = "ok"
\* at the halt the interrupted run ends exactly like the uninterrupted one
Transparent == halted => Final(st) = Final(Reference)
\* the uninterrupted run itself halts (non-vacuity of the reference)
ASSUME AtHalt(Reference)
Terminates == steps < 120
\* (non-vacuity probes: each must be VIOLATED - the handler runs, also nested)
ProbeNeverInHandler == ~(st.pc >= 4096 /\ st.pc < 4104)
ProbeNeverNested == st.fno < 2
=============================================================================
