SPECIFICATION Spec
CONSTANT MaxLen = 3
CONSTANT BaseRd <- BaseRdMC
INVARIANT Contract
CHECK_DEADLOCK FALSE
