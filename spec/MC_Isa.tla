------------------------------- MODULE MC_Isa -------------------------------
(* Model checking of the instruction-set module over its whole domain: all    *)
(* 65 536 words and all representable instructions.                           *)
EXTENDS Isa, FiniteSets, TLC

R8 == 0..7
Off(n) == (-Pow2(n-1))..(Pow2(n-1) - 1)

\* The representable instructions, family by family (a single big union makes
\* TLC's enumeration quadratic).
IsInstr(x) ==
  \/ \E cc \in R8, o \in Off(9) : x = I("BR", cc, o, 0, 0)
  \/ \E op \in {"ADD","AND"}, dr \in R8, sr \in R8, r2 \in R8 : x = I(op, dr, sr, r2, 0)
  \/ \E op \in {"ADD","AND"}, dr \in R8, sr \in R8, im \in Off(5) : x = I(op, dr, sr, im, 1)
  \/ \E op \in {"LD","ST","LDI","STI","LEA"}, r \in R8, o \in Off(9) : x = I(op, r, o, 0, 0)
  \/ \E o \in Off(11) : x = I("JSR", o, 0, 0, 1)
  \/ \E r \in R8 : x = I("JSR", r, 0, 0, 0)
  \/ \E op \in {"LDR","STR"}, r \in R8, b \in R8, o \in Off(6) : x = I(op, r, b, o, 0)
  \/ x = I("RTI", 0, 0, 0, 0)
  \/ \E dr \in R8, sr \in R8 : x = I("NOT", dr, sr, 0, 0)
  \/ \E r \in R8 : x = I("JMP", r, 0, 0, 0)
  \/ \E v \in 0..255 : x = I("TRAP", v, 0, 0, 0)

NumInstrs == 8*512 + 2*8*8*8 + 2*8*8*32 + 5*8*512 + 2048 + 8 + 2*8*8*64 + 1 + 64 + 8 + 256

VARIABLES kind, x, phase
vars == <<kind, x, phase>>

\* phase "gen" -> "chk": the invariants are evaluated on the successor states so
\* that TLC's workers share the work (initial states are generated sequentially)
Init == /\ phase = "gen"
        /\ \/ kind = "word"  /\ x \in Word16
           \/ kind = "instr" /\ IsInstr(x)
Next == phase = "gen" /\ phase' = "chk" /\ UNCHANGED <<kind, x>>
Spec == Init /\ [][Next]_vars

\* decode yields an instruction exactly for canonical words; kinds of failure;
\* re-encoding gives the word back; disassembly reassembles to the word
WordInv ==
  (phase = "chk" /\ kind = "word") =>
    LET d == Decode(x) IN
    /\ d.ok <=> Canonical(x)
    /\ d.ok => Representable(d.i) /\ Encode(d.i) = x
    /\ ~d.ok => (d.err = "IllegalOpcode") = (Slice(x, 12, 16) = 13)
    /\ ~d.ok => d.err \in {"IllegalOpcode", "InvalidInstrFormat"}
    /\ StmtWord(Disasm(x)) = x
    /\ (x < 512 \/ ~Canonical(x)) <=> Disasm(x).k = ".fill"
    /\ And16(x, 43690) = And16R(x, 43690, 16)        \* Bitwise override vs. recursion

\* encode then decode is the identity on representable instructions
InstrInv ==
  (phase = "chk" /\ kind = "instr") =>
    /\ Representable(x)
    /\ Encode(x) \in Word16
    /\ Canonical(Encode(x))
    /\ Decode(Encode(x)) = DOk(x)

\* encode is a bijection between representable instructions and canonical words
ASSUME NumInstrs = Cardinality({w \in Word16 : Canonical(w)})
=============================================================================
