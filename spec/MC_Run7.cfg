SPECIFICATION Spec
CONSTANT MaxCalls = 7
CONSTANT BaseRd <- BaseRdMC
INVARIANT Segmented
INVARIANT NoError
INVARIANT LimitExact
INVARIANT LimitAtMost
INVARIANT OverOK
INVARIANT OutOK
INVARIANT BpAfterStep
CHECK_DEADLOCK FALSE
