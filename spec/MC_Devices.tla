----------------------------- MODULE MC_Devices -----------------------------
(* C32 inside the specification: EVERY history of up to Depth calls over an   *)
(* alphabet of add_device (free, occupied, non-I/O and empty port lists),     *)
(* remove_device (fixed, live, stale and unknown ids), mmap_internal /        *)
(* munmap_internal (fresh, occupied, default and non-I/O addresses) and reads *)
(* / writes through the ports.  TLC checks the statement of C32 on every      *)
(* state and prints every maximal history; check.py has the harness replay    *)
(* each printed history on a real Simulator and TLC validate the recorded     *)
(* outcomes against the same operators (MachineProps!DevOp) - specification   *)
(* -> implementation -> specification.                                        *)
EXTENDS MachineProps, Json, IOUtils

CONSTANT Depth
Ops == ndJsonDeserialize(IOEnv.OPS)
NOps == Len(Ops)

BaseRdMC(b, a) == W(0, IF a >= IO_START THEN 65535 ELSE 0)
Dev(k) == [k |-> k, ie |-> FALSE, val |-> 0, time |-> 0, en |-> FALSE, lo |-> 0, hi |-> 0, vect |-> 0, prio |-> 0, slot |-> 0]
Fresh ==
  [pc |-> 12288, psr |-> 32770, reg |-> [i \in 1..8 |-> W(0, 0)], ssp |-> W(12288, 65535),
   memw |-> <<>>, dirty |-> <<>>, mcr |-> FALSE, prefetch |-> FALSE, fno |-> 0, dbgf |-> FALSE, frames |-> <<>>,
   icount |-> 0, obs |-> <<>>, kbd |-> <<>>, disp |-> <<>>,
   devs |-> <<Dev("null"), Dev("kbd"), Dev("disp")>>, ports |-> (65024 :> 1) @@ (65026 :> 1) @@ (65028 :> 2) @@ (65030 :> 2),
   ireg |-> (65532 :> "PSR") @@ (65534 :> "MCR"),
   flags |-> [strict |-> FALSE, real |-> FALSE, dbg |-> FALSE, ignp |-> FALSE], alloca |-> <<>>,
   srdefs |-> <<>>, base |-> 1, bps |-> {}, pause |-> "Unsuccessful", devn |-> {}, drift |-> FALSE, nrej |-> 0,
   mark |-> [reg |-> <<>>, psr |-> 0, pc |-> 0, kbd |-> <<>>, disp |-> <<>>, memw |-> <<>>, ssp |-> NoW]]

\* the call in the vocabulary of DevOp (the logged result is not needed to compute the next state)
OmniCtx == [priv |-> 1, strict |-> 0, fx |-> 1, track |-> 0]
Env0 == [lockK |-> 0, lockD |-> 0, ints |-> <<>>, draws |-> <<>>]
Call(o) ==
  CASE o.op = "adddev" -> [op |-> "adddev", ports |-> o.ports, res |-> 0,
                           dev |-> [k |-> "reg", ie |-> 0, val |-> o.val, time |-> 0, en |-> 0, lo |-> 0, hi |-> 0, vect |-> 0, prio |-> 0, slot |-> 0]]
    [] o.op = "addnull" -> [op |-> "adddev", ports |-> o.ports, res |-> 0,
                            dev |-> [k |-> "null", ie |-> 0, val |-> 0, time |-> 0, en |-> 0, lo |-> 0, hi |-> 0, vect |-> 0, prio |-> 0, slot |-> 0]]
    [] o.op = "rmdev"  -> [op |-> "rmdev", id |-> o.id]
    [] o.op = "mmap"   -> [op |-> "mmap", a |-> o.a, reg |-> o.reg, res |-> "ok"]
    [] o.op = "munmap" -> [op |-> "munmap", a |-> o.a, res |-> "ok"]
    [] o.op = "rmem"   -> [op |-> "rmem", a |-> o.a, ctx |-> OmniCtx, env |-> Env0, res |-> "ok", w |-> <<0, 0>>]
    [] o.op = "wmem"   -> [op |-> "wmem", a |-> o.a, w |-> <<o.v, 65535>>, ctx |-> OmniCtx, env |-> Env0, res |-> "ok"]

VARIABLES st, hist, last
vars == <<st, hist, last>>
Init == st = Fresh /\ hist = <<>> /\ last = [op |-> "none"]
Next == /\ Len(hist) < Depth
        /\ \E k \in 1..NOps :
             /\ st' = DevOp(Clean(st), Call(Ops[k])).st
             /\ hist' = Append(hist, k)
             /\ last' = Ops[k]
Spec == Init /\ [][Next]_vars

\* ---- C32 as a statement about every reachable table --------------------------------------------
LiveIds == { j \in 0..(Len(st.devs) - 1) : st.devs[j + 1].k # "null" \/ j = 0 }
\* every owned port is an I/O address and belongs to a device that exists
PortsOK == \A a \in DOMAIN st.ports : a >= IO_START /\ st.ports[a] < Len(st.devs)
\* the keyboard and display ports stay with their fixed slots whatever is removed
FixedOK == st.ports[65024] = 1 /\ st.ports[65026] = 1 /\ st.ports[65028] = 2 /\ st.ports[65030] = 2
\* internal registers live in the I/O page only
IregOK == \A a \in DOMAIN st.ireg : a >= IO_START
\* ids are never reused: the table only grows
Grows == [][Len(st'.devs) >= Len(st.devs)]_vars
\* a read goes to the mapped internal register first, then to the owner of the port, else to nothing
DispatchOK ==
  \A a \in {65040, 65041, 65532} :
     LET x == ReadMem(Clean(st), a, [priv |-> TRUE, strict |-> FALSE, fx |-> TRUE, track |-> FALSE], NoEnv) IN
     /\ x.e = "none"
     /\ a \in DOMAIN st.ireg => x.w = Init16(IregRead(st, st.ireg[a]))
     /\ (a \notin DOMAIN st.ireg /\ PortDev(st, a) # 0 /\ st.devs[PortDev(st, a) + 1].k = "reg") => x.w = Init16(st.devs[PortDev(st, a) + 1].val)
     /\ (a \notin DOMAIN st.ireg /\ PortDev(st, a) = 0) => x.st.memw = Clean(st).memw      \* nobody answers: the mirror is untouched
\* every maximal history is printed for the replay on the real simulator
Emit == (Len(hist) = Depth) => PrintT(<<"HIST", hist>>)
=============================================================================
