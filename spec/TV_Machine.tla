----------------------------- MODULE TV_Machine -----------------------------
(* Trace validation of the simulator.  The harness (`lc3v emit machine ...`)  *)
(* drives real `Simulator`s and records one event per public call, with the   *)
(* projected post-state (registers with masks, PC, PSR, saved SP, prefetch,   *)
(* MCR, frames, instruction count, observer, device buffers, timers and the   *)
(* diff of ALL 65 536 memory words against the state after the previous       *)
(* event).  Each run (a `New` event and what follows) is one behaviour here:  *)
(* the specification state is initialised from the header and then advanced   *)
(* by the specification's own operators (Machine!StepIn, WriteMem, ...); the  *)
(* invariant Conforms compares it with the logged projection after every      *)
(* event.  `why` names the first fields that differ.                          *)
EXTENDS MachineProps, Json, IOUtils

Rec == ndJsonDeserialize(IOEnv.TRACE)
N   == Len(Rec)



OsBlocks == IF N >= 1 /\ Rec[1].ev = "Os" THEN Rec[1].blocks ELSE <<>>
RECURSIVE FlatFrom(_, _)
FlatFrom(bs, k) == IF k > Len(bs) THEN <<>> ELSE bs[k].w \o FlatFrom(bs, k + 1)
OsFlat == FlatFrom(OsBlocks, 1)                   \* word at address a is OsFlat[a + 1]
OsContiguous == /\ Len(OsBlocks) >= 1 /\ OsBlocks[1].s = 0
                /\ \A k \in 2..Len(OsBlocks) : OsBlocks[k].s = OsBlocks[k-1].s + Len(OsBlocks[k-1].w)
InOs(a) == a < Len(OsFlat)

\* initial memory of the run whose header is record h: dense segments over a fill word.  A `light`
\* header (replayed behaviours: thousands of short runs) carries no segments: the machine is a new
\* Known-strategy simulator, whose memory NewOK prescribes (and checks on every ordinary header).
\* A base is a header record number h, or h + InitStep * k after a reset that followed a change of the
\* initialization strategy to Known{FillTab[k]} (flags are edited on a live simulator; reset builds the
\* new machine for the CURRENT flags): memory is then what NewOK prescribes for that fill value.
BaseH(b) == b % InitStep
BaseK(b) == b \div InitStep
TraceBaseRd(b, a) ==
  LET h == BaseH(b)  k == BaseK(b)
      fillw == IF k = 0 THEN WP(Rec[h].fill) ELSE W(FillTab[k], 0)
  IN
  IF "pattern" \in DOMAIN Rec[h]      \* an adversarial machine of MC_Machine (replay machine): the pattern and the instruction word at the PC
  THEN IF a = Rec[h].poke[1] THEN W(Rec[h].poke[2], 65535) ELSE PatRd(Rec[h].pattern, a)
  ELSE IF "light" \in DOMAIN Rec[h] \/ k # 0
  THEN IF InOs(a) THEN (IF OsFlat[a + 1] >= 0 THEN W(OsFlat[a + 1], 65535) ELSE W(fillw.v, 0))
       ELSE IF a >= 65024 THEN W(0, 65535) ELSE fillw
  ELSE
  LET segs == Rec[h].segs
      hit  == { j \in 1..Len(segs) : segs[j].s <= a /\ a < segs[j].s + Len(segs[j].w) }
  IN IF hit = {} THEN WP(Rec[h].fill)
     ELSE LET j == CHOOSE j \in hit : TRUE IN WP(segs[j].w[a - segs[j].s + 1])

VARIABLES l, st, why
vars == <<l, st, why>>

---------------------------------------------------------------------------
\* conversions from the JSON vocabulary
PairsFn(ps) == [a \in { q[1] : q \in {ps[k] : k \in 1..Len(ps)} } |->
                  (CHOOSE q \in {ps[k] : k \in 1..Len(ps)} : q[1] = a)[2]]
FrameOf(f) == [caller |-> f.caller, callee |-> f.callee, ft |-> f.ft, fp |-> WP(f.fp),
               args |-> [i \in 1..Len(f.args) |-> WP(f.args[i])]]
BlocksOf(bs) == [i \in 1..Len(bs) |-> [s |-> bs[i].s, w |-> bs[i].w]]
AllocaSeq(al) == [i \in 1..Len(al) |-> <<al[i][1], al[i][2]>>]

FromHeader(h) ==
  LET r == Rec[h]  p == r.proj IN
  [pc |-> p.pc, psr |-> p.psr, reg |-> [i \in 1..8 |-> WP(p.regs[i])], ssp |-> WP(p.ssp),
   memw |-> <<>>, dirty |-> <<>>, mcr |-> B(p.mcr), prefetch |-> B(p.prefetch),
   fno |-> p.fno, dbgf |-> B(p.dbgf), frames |-> [i \in 1..Len(p.frames) |-> FrameOf(p.frames[i])],
   icount |-> p.icount, obs |-> <<>>, kbd |-> p.kbd, disp |-> p.disp,
   devs |-> [i \in 1..Len(r.devs) |-> DevOf(r.devs[i])], ports |-> PairsFn(r.ports),
   ireg |-> PairsFn(r.ireg), flags |-> FlagsOf(r.flags), alloca |-> AllocaSeq(r.alloca),
   srdefs |-> <<>>, base |-> h, initk |-> 0, bps |-> {}, pause |-> "Unsuccessful", devn |-> {}, drift |-> FALSE, nrej |-> 0, mark |-> [reg |-> <<>>, psr |-> 0, pc |-> 0, kbd |-> <<>>, disp |-> <<>>, memw |-> <<>>, ssp |-> NoW]]

---------------------------------------------------------------------------
\* comparison of the specification state with a logged projection
ObsSet(s) == { <<a, s.obs[a]>> : a \in DOMAIN s.obs }
TimerSlots(s) == { j \in 1..Len(s.devs) : s.devs[j].k = "timer" }

FieldOK(n, s, p) ==
  CASE n = "pc"       -> s.pc = p.pc
    [] n = "psr"      -> s.psr = p.psr
    [] n = "regs"     -> \A i \in 1..8 : s.reg[i] = WP(p.regs[i])
    [] n = "ssp"      -> s.ssp = WP(p.ssp)
    [] n = "mcr"      -> s.mcr = B(p.mcr)
    [] n = "prefetch" -> s.prefetch = B(p.prefetch)
    [] n = "fno"      -> s.fno = p.fno
    [] n = "frames"   -> /\ s.dbgf = B(p.dbgf)
                         /\ Len(s.frames) = Len(p.frames)
                         /\ \A i \in 1..Len(p.frames) : s.frames[i] = FrameOf(p.frames[i])
    [] n = "icount"   -> s.icount = p.icount
    [] n = "obs"      -> ObsSet(s) = { <<q[1], q[2]>> : q \in SeqSet(p.obs) }
    [] n = "kbd"      -> s.kbd = p.kbd
    [] n = "kbdie"    -> (IF s.devs[2].k = "kbd" THEN s.devs[2].ie ELSE FALSE) = B(p.kbdie)
    [] n = "disp"     -> s.disp = p.disp
    [] n = "timers"   -> \A j \in TimerSlots(s) : s.devs[j].time = p.timers[s.devs[j].slot]
                                               /\ s.devs[j].en = B(p.timer_en[s.devs[j].slot])
    [] n = "mem"      -> /\ \A q \in SeqSet(p.memdiff) : Rd(s, q[1]) = W(q[2], q[3])
                         /\ \A a \in DOMAIN s.dirty :
                              (\A q \in SeqSet(p.memdiff) : q[1] # a) => Rd(s, a) = s.dirty[a]
    [] n = "alloca"   -> s.alloca = AllocaSeq(p.alloca)
    [] n = "regvals"  -> LET rs == SelectSeq([j \in 1..Len(s.devs) |-> j], LAMBDA j : s.devs[j].k = "reg")
                         IN /\ Len(rs) = Len(p.regvals)
                            /\ \A q \in 1..Len(rs) : s.devs[rs[q]].val = p.regvals[q]
    [] n = "pause"    -> /\ B(p.hit_halt) = (s.pause \in {"Halt", "MCROff"})
                         /\ B(p.hit_bp) = (s.pause = "Breakpoint")

Fields == {"pc","psr","regs","ssp","mcr","prefetch","fno","frames","icount","obs","kbd","kbdie",
           "disp","timers","mem","alloca","pause","regvals"}
Mismatch(s, p) == { n \in Fields : ~FieldOK(n, s, p) }

---------------------------------------------------------------------------
\* C29 / C31: what a new simulator holds.  Rec[1] is the `Os` record (blocks of the
\* built-in OS object file, contiguous from x0000).
NewOK(h) ==
  "light" \in DOMAIN Rec[h] \/
  LET r == Rec[h]  p == r.proj  segs == r.segs
      known == r.init.k = "known"
      fillw == IF known THEN <<r.init.v, 0>> ELSE <<0, 0>>
      covered(a) == \E k \in 1..Len(segs) : segs[k].s <= a /\ a < segs[k].s + Len(segs[k].w)
  IN
  /\ OsContiguous
  /\ r.fill = fillw
  \* every logged word is what its address class prescribes
  /\ \A k \in 1..Len(segs) : \A i \in 1..Len(segs[k].w) :
        LET a == segs[k].s + i - 1  x == segs[k].w[i] IN
        IF InOs(a) THEN (IF OsFlat[a + 1] >= 0 THEN x = <<OsFlat[a + 1], 65535>> ELSE x[2] = 0)
        ELSE IF a >= IO_START THEN x = <<0, 65535>>
        ELSE x[2] = 0 /\ (known => FALSE)        \* known: such words equal the fill and are not logged
  \* the OS image and the I/O page are present (they differ from the fill word)
  /\ \A a \in 0..(Len(OsFlat) - 1) : OsFlat[a + 1] >= 0 => covered(a)
  /\ \A a \in IO_START..65535 : covered(a)
  \* registers and control state of a new machine
  /\ \A i \in 1..8 : p.regs[i][2] = 0 /\ (known => p.regs[i][1] = r.init.v)
  /\ p.pc = 12288 /\ p.psr = 32770 /\ p.ssp = <<12288, 65535>> /\ p.fno = 0 /\ p.icount = 0
  /\ p.frames = <<>> /\ p.obs = <<>> /\ p.prefetch = 0 /\ p.hit_halt = 0 /\ p.hit_bp = 0
  /\ p.dbgf = r.flags.dbg

\* Simulator::reset: a new machine with the same flags; flags, MCR handle,
\* internal-register map and device table are kept and the devices io_reset.
\* the new machine reset builds: that of the header, or the Known{FillTab[k]} machine if the strategy was changed
FreshFor(s) ==
  LET k == IF s.initk # 0 THEN s.initk ELSE BaseK(s.base)
      f == FromHeader(BaseH(s.base))
  IN IF k = 0 THEN f
     ELSE [f EXCEPT !.base = BaseH(s.base) + InitStep * k, !.initk = s.initk, !.reg = [i \in 1..8 |-> W(FillTab[k], 0)]]
ResetTo(s, draws) == ResetOf(s, FreshFor(s), draws)
ResetDrawsOK(s, draws) == \A j \in 1..Len(s.devs) : s.devs[j].k = "timer" =>
                             draws[s.devs[j].slot] >= s.devs[j].lo /\ draws[s.devs[j].slot] <= s.devs[j].hi

---------------------------------------------------------------------------
\* events
\* result of applying event r to s: [st, bad] where bad = names of failed checks
ApplyStep(s, r) ==
  LET env == EnvOf(r.env)
      x   == StepIn(Clean(s), env)
  IN [st |-> x.st,
      bad |-> (IF x.out = r.res THEN {} ELSE {"res"})
         \cup (IF DrawsOK(s, env) THEN {} ELSE {"draw"})
         \cup (IF r.res \in SimErrs \cup {"ok"} THEN {} ELSE {"simerr"})
         \cup (IF Isolation(s, r) THEN {} ELSE {"isolation"})
         \cup (IF DepthOK(s, r) THEN {} ELSE {"depth"})
         \cup (IF ObsProp(ClearObs(s), r) THEN {} ELSE {"obsprop"})
         \cup (IF StrictRel(s, env) THEN {} ELSE {"strictrel"})
         \cup (IF IntGate(s, r) THEN {} ELSE {"intgate"})]

EnvsOf(es) == [i \in 1..Len(es) |-> [lockK |-> B(es[i].lockK), lockD |-> B(es[i].lockD), ints |-> es[i].ints,
                                      draws |-> es[i].draws, clr |-> B(es[i].clr)]]

\* C13: a run-style call is repeated single steps up to the first stop condition
ApplyRun(s, r) ==
  LET envs == EnvsOf(r.envs)
      x    == RunCall(Clean(s), r.kind, r.arg, envs)
  IN [st |-> x.st,
      bad |-> (IF x.out = r.res THEN {} ELSE {"res"})
         \cup (IF x.n = r.nsteps THEN {} ELSE {"nsteps"})]

RECURSIVE Pokes(_, _, _)
Pokes(s, ps, k) == IF k > Len(ps) THEN s ELSE Pokes(Wr(s, ps[k][1], W(ps[k][2], ps[k][3])), ps, k + 1)

ApplyHost(s0, r) ==
  LET s == Clean(s0)
      ok(x) == [st |-> x, bad |-> {}]
  IN
  CASE r.op = "setreg" -> ok(SetR(s, r.r, WP(r.w)))
    [] r.op = "setmem" -> ok(Wr(s, r.a, WP(r.w)))
    [] r.op = "setmems" -> ok(Pokes(s, r.pokes, 1))
    [] r.op = "setpc"  -> ok([s EXCEPT !.pc = r.v])
    [] r.op = "keys"   -> ok([s EXCEPT !.kbd = @ \o r.bytes])
    [] r.op = "flag"   -> ok([s EXCEPT !.flags = FlagsOf(r.flags)])
    [] r.op = "setinit" -> ok([s EXCEPT !.initk = r.k])
    [] r.op = "clearicount" -> ok([s EXCEPT !.icount = 0])
    [] r.op = "srdef"  -> ok([s EXCEPT !.srdefs = (r.addr :> [some |-> TRUE, cc |-> B(r.cc), n |-> r.n, regs |-> r.regs]) @@ @])
    [] r.op \in {"mmap", "munmap", "adddev", "rmdev", "rmem", "wmem"} -> DevOp(s, r)
    [] r.op = "timercfg" ->
         ok([s EXCEPT !.devs[r.id + 1] = DevOf(r.dev)])
    [] r.op = "load"   ->
         IF r.res = "ok"
         THEN [st |-> [LoadBlocks(s, BlocksOf(r.blocks), 1) EXCEPT !.alloca = AllocaSeq(r.proj.alloca)],
               bad |-> IF IsAllocaOf(AllocaSeq(r.proj.alloca), BlocksOf(r.blocks)) /\ r.ext = 0 THEN {} ELSE {"alloca"}]
         ELSE [st |-> s, bad |-> IF r.res = "UnresolvedExternal" /\ r.ext = 1 THEN {} ELSE {"res"}]
    [] r.op = "reset" ->
         [st |-> ResetTo(s, r.draws),
          bad |-> (IF r.mcr_same = 1 /\ r.bp_before = r.bp_after THEN {} ELSE {"kept"})
             \cup (IF ResetDrawsOK(s, r.draws) THEN {} ELSE {"draw"})]
    [] r.op = "addbp" -> ok([s EXCEPT !.bps = @ \cup {BpOf(r.bp)}])
    [] r.op = "rmbp"  -> ok([s EXCEPT !.bps = @ \ {BpOf(r.bp)}])
    [] r.op = "setmcr" -> ok([s EXCEPT !.mcr = B(r.v)])
    [] r.op = "timeren" ->
         ok([s EXCEPT !.devs = [j \in 1..Len(@) |-> IF @[j].k = "timer" /\ @[j].slot = r.slot
                                                     THEN [@[j] EXCEPT !.en = B(r.en)] ELSE @[j]]])
    [] r.op = "setdev" ->
         ok([s EXCEPT !.devs[r.id + 1] = DevOf(r.dev),
                      !.kbd = IF r.clearbuf = "kbd" THEN <<>> ELSE @,
                      !.disp = IF r.clearbuf = "disp" THEN <<>> ELSE @])
    [] r.op = "mark" -> ok([s EXCEPT !.mark = MarkOf(s)])
    [] r.op = "trapdone" -> [st |-> s, bad |-> TrapContract(s, r.vect, r.prompt, r.hch)]
    [] r.op = "halted" ->      \* C11: HALT stops the machine (virtual: halt at the TRAP; real: MCR cleared by the OS)
         [st |-> s, bad |-> IF s.pause \in {"Halt", "MCROff"} /\ ~s.mcr THEN {} ELSE {"trap-halt"}]
    [] r.op = "prefetchpc" ->
         [st |-> s, bad |-> IF r.v = PrefetchPc(s) THEN {} ELSE {"prefetchpc"}]

\* C33: an echo scenario declares the bytes the display must show at the end (every
\* queued input byte exactly once and in order).  A loss that the two transcribed
\* try_write deviations explain is reported under their names.
EndBad(s, r) ==
  IF "expect_disp" \notin DOMAIN r THEN {}
  \* the verdict is on the REAL display and keyboard queue (r.proj); a loss counts as explained by
  \* the transcribed deviations only if the specification, run with them, ends in the same state
  ELSE IF r.proj.disp = r.expect_disp /\ r.proj.kbd = r.expect_kbd THEN {}
  ELSE IF s.devn # {} /\ ~s.drift /\ s.disp = r.proj.disp /\ s.kbd = r.proj.kbd THEN { "lost-byte:" \o d : d \in s.devn } ELSE {"lost-byte"}

Apply(s, r) ==
  CASE r.ev = "Step" -> ApplyStep(s, r)
    [] r.ev = "Host" -> ApplyHost(s, r)
    [] r.ev = "Run"  -> ApplyRun(s, r)
    [] r.ev = "End"  -> [st |-> Clean(s), bad |-> EndBad(s, r)]
    [] r.ev = "Panic" -> [st |-> s, bad |-> {"panic"}]
    [] OTHER -> [st |-> s, bad |-> {"unknown-event"}]

---------------------------------------------------------------------------
Init == /\ l \in { k \in 1..N : Rec[k].ev = "New" }
        /\ st = FromHeader(l)
        /\ why = IF NewOK(l) THEN {} ELSE {"newok"}

\* When an event is rejected the specification state is re-synchronised with the logged projection
\* (everything the projection carries; memory = memory before the event + the logged diff), so that
\* the REST of the run is still checked event by event instead of being abandoned at the first
\* difference.  `drift` remembers that this happened (a later end-of-run loss is then not attributed
\* to the transcribed deviations).
Resync(pre, post, p) ==
  LET diffA == { q[1] : q \in SeqSet(p.memdiff) }
      dval(a) == LET q == CHOOSE q \in SeqSet(p.memdiff) : q[1] = a IN W(q[2], q[3])
  IN [post EXCEPT !.pc = p.pc, !.psr = p.psr, !.reg = [i \in 1..8 |-> WP(p.regs[i])], !.ssp = WP(p.ssp),
                  !.mcr = B(p.mcr), !.prefetch = B(p.prefetch), !.fno = p.fno, !.icount = p.icount,
                  !.frames = IF B(p.dbgf) THEN [i \in 1..Len(p.frames) |-> FrameOf(p.frames[i])] ELSE @,
                  !.obs = [a \in { q[1] : q \in SeqSet(p.obs) } |-> (CHOOSE q \in SeqSet(p.obs) : q[1] = a)[2]],
                  !.kbd = p.kbd, !.disp = p.disp, !.alloca = AllocaSeq(p.alloca),
                  !.devs = [j \in 1..Len(post.devs) |->
                              LET d == post.devs[j] IN
                              IF d.k = "timer" THEN [d EXCEPT !.time = p.timers[d.slot], !.en = B(p.timer_en[d.slot])]
                              ELSE IF d.k = "kbd" /\ j = 2 THEN [d EXCEPT !.ie = B(p.kbdie)] ELSE d],
                  \* (a diff of tens of thousands of words - a reset into another fill value - is not copied: the
                  \* specification's own memory is kept, the comparison above has already reported the difference)
                  !.memw = IF Len(p.memdiff) > 2000 THEN post.memw
                           ELSE [a \in (DOMAIN pre.memw) \cup diffA |-> IF a \in diffA THEN dval(a) ELSE pre.memw[a]],
                  !.dirty = <<>>, !.drift = TRUE, !.nrej = pre.nrej + 1]

\* (at most MaxRejected rejected events per run are followed up: a badly broken implementation must
\* not turn every remaining event of every run into a reported difference)
MaxRejected == 6
Next == /\ l + 1 <= N
        /\ Rec[l + 1].ev # "New"
        /\ st.nrej < MaxRejected
        /\ LET r == Rec[l + 1]
               x == Apply(st, r)
               hasproj == r.ev \in {"Step", "Host", "End", "Run"}
               bad == x.bad \cup (IF hasproj THEN Mismatch(x.st, r.proj) ELSE {})
           IN /\ st' = IF bad = {} \/ ~hasproj THEN x.st ELSE Resync(st, x.st, r.proj)
              /\ why' = bad
        /\ l' = l + 1

Spec == Init /\ [][Next]_vars

\* The implementation followed the specification on every event so far.
Conforms == why = {}

\* state-level theorems evaluated on every validated state
OneCC       == TRUE
View == <<l, why>>
=============================================================================
