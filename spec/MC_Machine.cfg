SPECIFICATION Spec
CONSTANT Depth = 1
CONSTANT Wide = TRUE
CONSTANT BaseRd <- BaseRdMC
INVARIANT Total
INVARIANT IsolationMC
INVARIANT DepthMC
INVARIANT ObsMC
INVARIANT StrictMC
INVARIANT NoStrictOnInit
INVARIANT OneHotCC
INVARIANT CountMC
CHECK_DEADLOCK FALSE
