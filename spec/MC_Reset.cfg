SPECIFICATION Spec
CONSTANT Depth = 2
CONSTANT BaseRd <- BaseRdMC
INVARIANT ResetOK
INVARIANT Idempotent
INVARIANT Emit
CHECK_DEADLOCK FALSE
