SPECIFICATION Spec
CONSTANT MaxLen = 2
CONSTANT BaseRd <- BaseRdMC
INVARIANT Contract
INVARIANT Emit
CHECK_DEADLOCK FALSE
