------------------------------ MODULE TV_Pairs ------------------------------
(* Relational trace validation on pairs of recorded runs (runs 2k-1 and 2k of *)
(* the file belong together; the header field `pair` names the relation):     *)
(*  "repro"      C31: two independent runs of one configuration must produce  *)
(*               identical histories, event by event, field by field.         *)
(*  "strict"     C14: run A without and run B with strict mode, driven in     *)
(*               lockstep from identical states: every step of B either fails *)
(*               with a strict (uninitialized-value) error or has exactly A's *)
(*               outcome and projected state.                                 *)
(*  "strictfull" C14: as "strict" on a machine whose memory and registers are *)
(*               all initialized: B never reports a strict error.             *)
(* The relation is evaluated by TLC on the logged events alone; it does not   *)
(* depend on the machine semantics of spec/Machine.tla.                       *)
EXTENDS Integers, Sequences, FiniteSets, Json, IOUtils, TLC

Rec == ndJsonDeserialize(IOEnv.TRACE)
N   == Len(Rec)

StrictErrs == {"StrictRegSetUninit", "StrictMemSetUninit", "StrictIOSetUninit", "StrictJmpAddrUninit",
               "StrictSRAddrUninit", "StrictMemAddrUninit", "StrictPCCurrUninit", "StrictPCNextUninit",
               "StrictPSRSetUninit"}

Starts   == SelectSeq([i \in 1..N |-> i], LAMBDA i : Rec[i].ev = "New")
NRuns    == Len(Starts)
RunLen(k) == (IF k < NRuns THEN Starts[k + 1] ELSE N + 1) - Starts[k]

Strip(r)      == [f \in (DOMAIN r) \ {"run", "pairpos"} |-> r[f]]
StripFlags(r) == [f \in (DOMAIN r) \ {"run", "flags", "pairpos"} |-> r[f]]

VARIABLES pr, off, bad, done
vars == <<pr, off, bad, done>>

A(o) == Rec[Starts[pr] + o]
Bv(o) == Rec[Starts[pr + 1] + o]

HeaderBad(a, b) ==
  IF a.pair = "repro" THEN (IF Strip(a) = Strip(b) THEN {} ELSE {"header"})
  ELSE (IF StripFlags(a) = StripFlags(b) THEN {} ELSE {"header"})
       \cup (IF a.flags.strict = 0 /\ b.flags.strict = 1
                /\ [a.flags EXCEPT !.strict = 1] = b.flags THEN {} ELSE {"flags"})

EventBad(mode, a, b) ==
  IF mode = "repro" THEN (IF Strip(a) = Strip(b) THEN {} ELSE {"differs"})
  ELSE IF a.ev # b.ev THEN {"shape"}
  ELSE IF a.ev = "Step" THEN
         (IF b.res \in StrictErrs THEN (IF mode = "strictfull" THEN {"strict-error-on-initialized-machine"} ELSE {})
          ELSE IF b.res = a.res /\ b.proj = a.proj /\ b.env = a.env THEN {} ELSE {"strict-changed-step"})
  ELSE IF a.ev = "Host" /\ a.op = "flag" THEN {}
  ELSE (IF Strip(a) = Strip(b) THEN {} ELSE {"host-differs"})

\* "segments" (C13): run A executes the program as any number of paused and resumed
\* run-style calls, run B as one unbroken run; the final states must agree.
LastOf(k)  == Rec[Starts[k] + RunLen(k) - 1]
FinalBad(a, b) == IF a.ev = "End" /\ b.ev = "End" /\ a.final = b.final THEN {} ELSE {"final-differs"}

\* "transparent" (C10): run A is uninterrupted, run B takes interrupts whose handlers save
\* and restore what they use and return with RTI: same registers, condition codes,
\* stack pointer, user memory and output at the end.
TransparentBad(a, b) ==
  IF ~(a.ev = "End" /\ b.ev = "End") THEN {"shape"}
  ELSE IF a.final.athalt = 0 \/ b.final.athalt = 0 THEN {}      \* a run hit the step bound: not comparable
  ELSE IF a.final.regs = b.final.regs
     /\ a.final.psr % 8 = b.final.psr % 8
     /\ (a.final.psr \div 32768) = (b.final.psr \div 32768)
     /\ a.final.umemh = b.final.umemh
     /\ a.final.disp = b.final.disp
     /\ a.final.pc = b.final.pc
     /\ a.final.hit_halt = b.final.hit_halt
  THEN {} ELSE {"interrupt-not-transparent"}

\* "trapmode" (C12): run A with virtual traps, run B with real traps, same user program.
Msg(e) == CASE e = "AccessViolation"    -> <<10,45,45,45,32,65,99,99,101,115,115,32,118,105,111,108,97,116,105,111,110,32,45,45,45>>
            [] e = "PrivilegeViolation" -> <<10,45,45,45,32,80,114,105,118,105,108,101,103,101,32,118,105,111,108,97,116,105,111,110,32,45,45,45>>
            [] e \in {"IllegalOpcode", "InvalidInstrFormat"} -> <<10,45,45,45,32,73,108,108,101,103,97,108,32,111,112,99,111,100,101,32,45,45,45>>
            [] OTHER -> <<>>
TrapModeBad(a, b) ==
  IF ~(a.ev = "End" /\ b.ev = "End") THEN {"shape"}
  ELSE LET fa == a.final  fb == b.final IN
       \* "For user-mode programs": the instruction that ends the run under virtual traps (the HALT, which
       \* leaves the PSR alone there, or the faulting instruction) executes in user mode.  With privilege
       \* checks off a program can RTI itself into supervisor mode on its own stack; what the OS then
       \* pushes on that stack is not constrained by this property.
       IF fa.psr < 32768 THEN {}
       ELSE IF fa.lastres = "ok" /\ fa.hit_halt = 1
       THEN \* the program halts under virtual traps
            (IF fb.disp = fa.disp THEN {} ELSE {"real-traps-output-differs"})
            \cup (IF \A i \in 1..6 : fb.regs[i] = fa.regs[i] THEN {} ELSE {"real-traps-registers-differ"})
            \cup (IF fb.umemh = fa.umemh THEN {} ELSE {"real-traps-user-memory-differs"})
            \cup (IF fb.lastres = "ok" /\ fb.hit_halt = 1 /\ fb.mcr = 0 THEN {} ELSE {"real-traps-no-halt"})
       ELSE IF fa.lastres \in {"AccessViolation", "PrivilegeViolation", "IllegalOpcode", "InvalidInstrFormat"}
       THEN (IF fb.disp = fa.disp \o Msg(fa.lastres) THEN {} ELSE {"exception-message-differs"})
            \cup (IF fb.lastres = "ok" /\ fb.hit_halt = 1 THEN {} ELSE {"exception-no-halt"})
       ELSE {}     \* bounded without halting, or another error: the property is silent

Init == /\ pr \in { k \in 1..NRuns : k + 1 <= NRuns /\ Rec[Starts[k]].pairpos = "A" }
        /\ off = 0
        /\ bad = IF A(0).pair = "segments"
                 THEN (IF Strip(A(0)) = Strip(Bv(0)) THEN {} ELSE {"header"}) \cup FinalBad(LastOf(pr), LastOf(pr + 1))
                 ELSE IF A(0).pair = "transparent"
                 THEN (IF Strip(A(0)) = Strip(Bv(0)) THEN {} ELSE {"header"}) \cup TransparentBad(LastOf(pr), LastOf(pr + 1))
                 ELSE IF A(0).pair = "trapmode"
                 THEN (IF StripFlags(A(0)) = StripFlags(Bv(0)) /\ A(0).flags.real = 0 /\ Bv(0).flags.real = 1 THEN {} ELSE {"header"})
                      \cup TrapModeBad(LastOf(pr), LastOf(pr + 1))
                 ELSE HeaderBad(A(0), Bv(0)) \cup (IF RunLen(pr) = RunLen(pr + 1) THEN {} ELSE {"length"})
        /\ done = (A(0).pair \in {"segments", "transparent", "trapmode"})

\* after a step that strict mode rejected the two machines legitimately differ
Next == /\ bad = {} /\ ~done
        /\ off + 1 < RunLen(pr)
        /\ done' = (A(0).pair # "repro" /\ A(off + 1).ev = "Step" /\ Bv(off + 1).res \in StrictErrs)
        /\ off' = off + 1
        /\ bad' = EventBad(A(0).pair, A(off + 1), Bv(off + 1))
        /\ UNCHANGED pr

Spec == Init /\ [][Next]_vars

Related == bad = {}
\* line numbers for reports
LineA == Starts[pr] + off
LineB == Starts[pr + 1] + off
ALIAS_ == [pr |-> pr, off |-> off, why |-> bad, l |-> LineB, la |-> LineA, done |-> done]
=============================================================================
