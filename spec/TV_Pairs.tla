------------------------------ MODULE TV_Pairs ------------------------------
(* Relational trace validation on pairs of recorded runs (runs 2k-1 and 2k of *)
(* the file belong together; the header field `pair` names the relation):     *)
(*  "repro"      C31: two independent runs of one configuration must produce  *)
(*               identical histories, event by event, field by field.         *)
(*  "strict"     C14: run A without and run B with strict mode, driven in     *)
(*               lockstep from identical states: every step of B either fails *)
(*               with a strict (uninitialized-value) error or has exactly A's *)
(*               outcome and projected state.                                 *)
(*  "strictfull" C14: as "strict" on a machine whose memory and registers are *)
(*               all initialized: B never reports a strict error.             *)
(* The relation is evaluated by TLC on the logged events alone; it does not   *)
(* depend on the machine semantics of spec/Machine.tla.                       *)
EXTENDS Integers, Sequences, FiniteSets, Json, IOUtils, TLC

Rec == ndJsonDeserialize(IOEnv.TRACE)
N   == Len(Rec)

StrictErrs == {"StrictRegSetUninit", "StrictMemSetUninit", "StrictIOSetUninit", "StrictJmpAddrUninit",
               "StrictSRAddrUninit", "StrictMemAddrUninit", "StrictPCCurrUninit", "StrictPCNextUninit",
               "StrictPSRSetUninit"}

Starts   == SelectSeq([i \in 1..N |-> i], LAMBDA i : Rec[i].ev = "New")
NRuns    == Len(Starts)
RunLen(k) == (IF k < NRuns THEN Starts[k + 1] ELSE N + 1) - Starts[k]

Strip(r)      == [f \in (DOMAIN r) \ {"run", "pairpos"} |-> r[f]]
StripFlags(r) == [f \in (DOMAIN r) \ {"run", "flags", "pairpos"} |-> r[f]]

VARIABLES pr, off, bad, done
vars == <<pr, off, bad, done>>

A(o) == Rec[Starts[pr] + o]
Bv(o) == Rec[Starts[pr + 1] + o]

HeaderBad(a, b) ==
  IF a.pair = "repro" THEN (IF Strip(a) = Strip(b) THEN {} ELSE {"header"})
  ELSE (IF StripFlags(a) = StripFlags(b) THEN {} ELSE {"header"})
       \cup (IF a.flags.strict = 0 /\ b.flags.strict = 1
                /\ [a.flags EXCEPT !.strict = 1] = b.flags THEN {} ELSE {"flags"})

EventBad(mode, a, b) ==
  IF mode = "repro" THEN (IF Strip(a) = Strip(b) THEN {} ELSE {"differs"})
  ELSE IF a.ev # b.ev THEN {"shape"}
  ELSE IF a.ev = "Step" THEN
         (IF b.res \in StrictErrs THEN (IF mode = "strictfull" THEN {"strict-error-on-initialized-machine"} ELSE {})
          ELSE IF b.res = a.res /\ b.proj = a.proj /\ b.env = a.env THEN {} ELSE {"strict-changed-step"})
  ELSE IF a.ev = "Host" /\ a.op = "flag" THEN {}
  ELSE (IF Strip(a) = Strip(b) THEN {} ELSE {"host-differs"})

\* "segments" (C13): run A executes the program as any number of paused and resumed
\* run-style calls, run B as one unbroken run; the final states must agree.
LastOf(k)  == Rec[Starts[k] + RunLen(k) - 1]
FinalBad(a, b) == IF a.ev = "End" /\ b.ev = "End" /\ a.final = b.final THEN {} ELSE {"final-differs"}

Init == /\ pr \in { k \in 1..NRuns : k + 1 <= NRuns /\ Rec[Starts[k]].pairpos = "A" }
        /\ off = 0
        /\ bad = IF A(0).pair = "segments"
                 THEN (IF Strip(A(0)) = Strip(Bv(0)) THEN {} ELSE {"header"}) \cup FinalBad(LastOf(pr), LastOf(pr + 1))
                 ELSE HeaderBad(A(0), Bv(0)) \cup (IF RunLen(pr) = RunLen(pr + 1) THEN {} ELSE {"length"})
        /\ done = (A(0).pair = "segments")

\* after a step that strict mode rejected the two machines legitimately differ
Next == /\ bad = {} /\ ~done
        /\ off + 1 < RunLen(pr)
        /\ done' = (A(0).pair # "repro" /\ A(off + 1).ev = "Step" /\ Bv(off + 1).res \in StrictErrs)
        /\ off' = off + 1
        /\ bad' = EventBad(A(0).pair, A(off + 1), Bv(off + 1))
        /\ UNCHANGED pr

Spec == Init /\ [][Next]_vars

Related == bad = {}
\* line numbers for reports
LineA == Starts[pr] + off
LineB == Starts[pr + 1] + off
ALIAS_ == [pr |-> pr, off |-> off, why |-> bad, l |-> LineB, la |-> LineA, done |-> done]
=============================================================================
