-------------------------------- MODULE Asm --------------------------------
(* The two-pass assembler (`SymbolTable::new`, `ObjectFile::new`, asm.rs).    *)
(*                                                                            *)
(* A program is a sequence of statements as the parser returns them:          *)
(*   [labels |-> <<[name, s, e], ...>>, n |-> nucleus, s, e]                  *)
(* nucleus = [k, a, b, c, m, lbl, strb]: k mnemonic or directive name, m = 2  *)
(* marks a label operand (name in lbl), strb the UTF-8 bytes of a .stringz.   *)
(* Names are sequences of code points.                                        *)
(*                                                                            *)
(* Two descriptions are given:                                                *)
(*  - OPERATIONAL (Pass1, Pass2, Assemble): shaped like the code, one step    *)
(*    per statement, returns the exact error the code returns;                *)
(*  - DECLARATIVE (WellFormed, ViolatedKinds, ImageSpec, LabelSpec, LineSpec):*)
(*    the properties C01, C02, C24 in their own words.                        *)
(* MC_Asm checks them against each other on a universe of small programs.     *)
EXTENDS Isa, SourceInfo, FiniteSets, TLC

IO_START_A == 65024

Upper(name) == [i \in 1..Len(name) |-> IF name[i] >= 97 /\ name[i] <= 122 THEN name[i] - 32 ELSE name[i]]
\* Names are sequences of characters (code points); the source is a sequence of UTF-8 bytes.  A label
\* occupies Utf8Len(name) bytes of the source, and the characters of a byte span are DecodeUtf8 of it
\* (<<-1>> in place of anything that is not the start of a whole character: a span that cuts one).
Utf8Len1(c) == IF c < 128 THEN 1 ELSE IF c < 2048 THEN 2 ELSE IF c < 65536 THEN 3 ELSE 4
RECURSIVE Utf8Len(_)
Utf8Len(name) == IF name = <<>> THEN 0 ELSE Utf8Len1(Head(name)) + Utf8Len(Tail(name))
RECURSIVE DecodeUtf8(_)
DecodeUtf8(b) ==
  IF b = <<>> THEN <<>>
  ELSE LET c == b[1]
           n == IF c < 128 THEN 1 ELSE IF c >= 192 /\ c < 224 THEN 2 ELSE IF c >= 224 /\ c < 240 THEN 3 ELSE IF c >= 240 /\ c < 248 THEN 4 ELSE 0
       IN IF n = 0 \/ n > Len(b) \/ \E k \in 2..n : b[k] < 128 \/ b[k] >= 192 THEN <<-1>>
          ELSE <<CASE n = 1 -> c
                   [] n = 2 -> (c - 192) * 64 + (b[2] - 128)
                   [] n = 3 -> (c - 224) * 4096 + (b[2] - 128) * 64 + (b[3] - 128)
                   [] OTHER -> (c - 240) * 262144 + (b[2] - 128) * 4096 + (b[3] - 128) * 64 + (b[4] - 128)>>
               \o DecodeUtf8(SubSeq(b, n + 1, Len(b)))

IsInstrK(k)  == k \notin {".orig", ".fill", ".blkw", ".stringz", ".end", ".external"}
Size(n) == CASE n.k = ".fill" -> 1 [] n.k = ".blkw" -> n.a [] n.k = ".stringz" -> Len(n.strb) + 1
             [] n.k \in {".orig", ".end", ".external"} -> 0 [] OTHER -> 1

Span(s, e) == <<s, e>>

\* ---------------------------------------------------------------------------
\* OPERATIONAL: pass 1.  State: cur = <<>> (closed) or [lc, ovf, os, oe];
\* labels: key -> [addr, src, ext]; rel: addr -> key; fills: <<[lc, key]>> candidates;
\* lines: set of <<line, addr>>.
Err(kind, spans, lbl) == [ok |-> FALSE, kind |-> kind, spans |-> spans, lbl |-> lbl]

AddLabel(labels, l, addr, ext) ==
  LET key == Upper(l.name) IN
  IF key \in DOMAIN labels
  THEN IF labels[key].addr # addr
       THEN [ok |-> FALSE, labels |-> labels,
             err |-> Err("OverlappingLabels", <<Span(labels[key].src, labels[key].src + Utf8Len(key)), Span(l.s, l.e)>>, key)]
       ELSE [ok |-> TRUE, labels |-> labels, err |-> Err("none", <<>>, <<>>)]
  ELSE [ok |-> TRUE, labels |-> (key :> [addr |-> addr, src |-> l.s, ext |-> ext]) @@ labels,
        err |-> Err("none", <<>>, <<>>)]

RECURSIVE AddLabels(_, _, _, _)
AddLabels(labels, ls, k, addr) ==
  IF k > Len(ls) THEN [ok |-> TRUE, labels |-> labels, err |-> Err("none", <<>>, <<>>)]
  ELSE LET r == AddLabel(labels, ls[k], addr, FALSE) IN
       IF ~r.ok THEN r ELSE AddLabels(r.labels, ls, k + 1, addr)

\* Cursor::shift(n): [ok, cur, kind]
Shift(cur, n) ==
  IF n = 0 THEN [ok |-> TRUE, cur |-> cur, kind |-> "none"]
  ELSE IF cur.ovf THEN [ok |-> FALSE, cur |-> cur, kind |-> "WrappingBlock"]
  ELSE IF cur.lc + n <= 65535
       THEN IF cur.lc + n > IO_START_A THEN [ok |-> FALSE, cur |-> cur, kind |-> "BlockInIO"]
            ELSE [ok |-> TRUE, cur |-> [cur EXCEPT !.lc = cur.lc + n], kind |-> "none"]
  ELSE [ok |-> FALSE, cur |-> [cur EXCEPT !.lc = 0, !.ovf = TRUE],
        kind |-> IF cur.lc + n = 65536 THEN "BlockInIO" ELSE "WrappingBlock"]

P1Init == [cur |-> <<>>, labels |-> <<>>, fills |-> <<>>, lines |-> {}]

\* one statement of pass 1: [ok, st, err]
P1Stmt(st, stmt, nl, dbg) ==
  LET open == st.cur # <<>>
      bad(e) == [ok |-> FALSE, st |-> st, err |-> e]
      good(s) == [ok |-> TRUE, st |-> s, err |-> Err("none", <<>>, <<>>)]
  IN
  IF stmt.labels # <<>> /\ ~open
  THEN bad(Err("UndetAddrLabel", [i \in 1..Len(stmt.labels) |-> Span(stmt.labels[i].s, stmt.labels[i].e)], <<>>))
  ELSE
    LET al == IF stmt.labels # <<>> THEN AddLabels(st.labels, stmt.labels, 1, st.cur.lc)
              ELSE [ok |-> TRUE, labels |-> st.labels, err |-> Err("none", <<>>, <<>>)]
    IN IF ~al.ok THEN bad(al.err)
    ELSE
      LET s1 == [st EXCEPT !.labels = al.labels]
          n  == stmt.n
          \* special directives
          sp == CASE n.k = ".orig" ->
                       IF open THEN bad(Err("OverlappingOrig", <<Span(s1.cur.os, s1.cur.oe), Span(stmt.s, stmt.e)>>, <<>>))
                       ELSE good([s1 EXCEPT !.cur = [lc |-> n.a, ovf |-> FALSE, os |-> stmt.s, oe |-> stmt.e]])
                  [] n.k = ".end" ->
                       IF open THEN good([s1 EXCEPT !.cur = <<>>])
                       ELSE bad(Err("UnopenedOrig", <<Span(stmt.s, stmt.e)>>, <<>>))
                  [] n.k = ".external" ->
                       LET r == AddLabel(s1.labels, [name |-> n.lbl, s |-> n.ls, e |-> n.le], 0, TRUE) IN
                       IF r.ok THEN good([s1 EXCEPT !.labels = r.labels]) ELSE bad(r.err)
                  [] n.k = ".fill" /\ n.m = 2 ->
                       \* remember the candidate; whether the label is external is decided at the end
                       \* (independent of the order of declaration and use)
                       IF open THEN good([s1 EXCEPT !.fills = Append(@, [lc |-> s1.cur.lc, key |-> Upper(n.lbl), s |-> stmt.s, e |-> stmt.e, open |-> TRUE])])
                       ELSE good([s1 EXCEPT !.fills = Append(@, [lc |-> 0, key |-> Upper(n.lbl), s |-> stmt.s, e |-> stmt.e, open |-> FALSE])])
                  [] OTHER -> good(s1)
      IN IF ~sp.ok THEN sp
      ELSE
        LET s2 == sp.st IN
        IF s2.cur = <<>> THEN good(s2)
        ELSE
          LET ln == IF dbg /\ n.k \notin {".orig", ".end", ".external"} THEN {<<LineOfNl(nl, stmt.s), s2.cur.lc>>} ELSE {}
              s3 == [s2 EXCEPT !.lines = { q \in @ : \A x \in ln : q[1] # x[1] } \cup ln]
              sh == Shift(s3.cur, Size(n))
          IN IF sh.ok THEN good([s3 EXCEPT !.cur = sh.cur])
             ELSE bad(Err(sh.kind, <<Span(stmt.s, stmt.e)>>, <<>>))

RECURSIVE P1Run(_, _, _, _, _)
P1Run(st, prog, k, nl, dbg) ==
  IF k > Len(prog)
  THEN IF st.cur # <<>> THEN [ok |-> FALSE, st |-> st, err |-> Err("UnclosedOrig", <<Span(st.cur.os, st.cur.oe)>>, <<>>)]
       ELSE [ok |-> TRUE, st |-> st, err |-> Err("none", <<>>, <<>>)]
  ELSE LET r == P1Stmt(st, prog[k], nl, dbg) IN
       IF ~r.ok THEN r ELSE P1Run(r.st, prog, k + 1, nl, dbg)

\* relocation entries: every `.fill L` whose label is external in the finished table;
\* such a statement outside a block is an error
Pass1(prog, src, dbg) ==
  LET r == P1Run(P1Init, prog, 1, IF dbg THEN NlIdx(src) ELSE <<>>, dbg) IN
  IF ~r.ok THEN [ok |-> FALSE, err |-> r.err, labels |-> <<>>, rel |-> <<>>, lines |-> {}]
  ELSE
    LET ext == { i \in 1..Len(r.st.fills) : r.st.fills[i].key \in DOMAIN r.st.labels /\ r.st.labels[r.st.fills[i].key].ext }
        outside == { i \in ext : ~r.st.fills[i].open }
    IN IF outside # {}
       THEN LET i == CHOOSE i \in outside : \A j \in outside : i <= j IN
            [ok |-> FALSE, err |-> Err("UndetAddrStmt", <<Span(r.st.fills[i].s, r.st.fills[i].e)>>, <<>>),
             labels |-> <<>>, rel |-> <<>>, lines |-> {}]
       ELSE [ok |-> TRUE, err |-> Err("none", <<>>, <<>>), labels |-> r.st.labels,
             rel |-> [a \in { r.st.fills[i].lc : i \in ext } |->
                         r.st.fills[CHOOSE i \in ext : r.st.fills[i].lc = a /\ \A j \in ext : r.st.fills[j].lc = a => j <= i].key],
             lines |-> r.st.lines]

\* ---------------------------------------------------------------------------
\* OPERATIONAL: pass 2.  blocks: sequence of [s, w, os, oe] kept sorted by s.
LabelOff(labels, n, lname, ls, le, pc, bits) ==      \* replace_pc_offset
  LET key == Upper(lname) IN
  IF key \notin DOMAIN labels THEN [ok |-> FALSE, err |-> Err("CouldNotFindLabel", <<Span(ls, le)>>, key), v |-> 0]
  ELSE IF labels[key].ext THEN [ok |-> FALSE, err |-> Err("OffsetExternal", <<Span(ls, le)>>, key), v |-> 0]
  ELSE LET d == S16(Wrap(labels[key].addr - pc)) IN
       IF FitsS(d, bits) THEN [ok |-> TRUE, err |-> Err("none", <<>>, <<>>), v |-> d]
       ELSE [ok |-> FALSE, err |-> Err("OffsetNewErr", <<Span(ls, le)>>, key), v |-> 0]

\* the word(s) of a statement at address lc: [ok, err, w]
StmtWords(labels, n, lc) ==
  LET okw(ws) == [ok |-> TRUE, err |-> Err("none", <<>>, <<>>), w |-> ws]
      off(bits) == IF n.m = 2 THEN LabelOff(labels, n, n.lbl, n.ls, n.le, Wrap(lc + 1), bits)
                   ELSE [ok |-> TRUE, err |-> Err("none", <<>>, <<>>), v |-> IF n.k \in {"JSR", "NOP"} THEN n.a ELSE n.b]
  IN
  CASE n.k = ".fill" ->
         IF n.m = 2
         THEN LET key == Upper(n.lbl) IN
              IF key \in DOMAIN labels THEN okw(<<labels[key].addr>>)
              ELSE [ok |-> FALSE, err |-> Err("CouldNotFindLabel", <<Span(n.ls, n.le)>>, key), w |-> <<>>]
         ELSE okw(<<n.a>>)
    [] n.k = ".blkw" -> okw([i \in 1..n.a |-> -1])
    [] n.k = ".stringz" -> okw(n.strb \o <<0>>)
    [] n.k \in {"BR", "LD", "LDI", "LEA", "ST", "STI"} ->
         LET o == off(9) IN IF o.ok THEN okw(<<Encode(I(n.k, n.a, o.v, 0, 0))>>) ELSE [ok |-> FALSE, err |-> o.err, w |-> <<>>]
    [] n.k = "NOP" ->
         LET o == off(9) IN IF o.ok THEN okw(<<Encode(I("BR", 0, o.v, 0, 0))>>) ELSE [ok |-> FALSE, err |-> o.err, w |-> <<>>]
    [] n.k = "JSR" ->
         LET o == off(11) IN IF o.ok THEN okw(<<Encode(I("JSR", o.v, 0, 0, 1))>>) ELSE [ok |-> FALSE, err |-> o.err, w |-> <<>>]
    [] OTHER -> okw(<<StmtWord(S(n.k, n.a, n.b, n.c, n.m))>>)

RangesOverlap(s1, e1, s2, e2) == s1 < e2 /\ s2 < e1

P2Init == [cur |-> <<>>, blocks |-> <<>>]
P2Stmt(st, stmt, labels) ==
  LET n == stmt.n
      bad(e) == [ok |-> FALSE, st |-> st, err |-> e]
      good(s) == [ok |-> TRUE, st |-> s, err |-> Err("none", <<>>, <<>>)]
  IN
  CASE n.k = ".orig" -> good([st EXCEPT !.cur = [s |-> n.a, w |-> <<>>, os |-> stmt.s, oe |-> stmt.e, lc |-> n.a]])
    [] n.k = ".end" ->
         IF st.cur = <<>> THEN bad(Err("UnopenedOrig", <<Span(stmt.s, stmt.e)>>, <<>>))
         ELSE IF st.cur.w = <<>> THEN good([st EXCEPT !.cur = <<>>])
         ELSE
           LET b == st.cur
               \* nearest stored block on each side (by start address)
               prev == { i \in 1..Len(st.blocks) : st.blocks[i].s <= b.s }
               next == { i \in 1..Len(st.blocks) : st.blocks[i].s >= b.s }
               pi == IF prev = {} THEN {} ELSE { CHOOSE i \in prev : \A j \in prev : st.blocks[j].s <= st.blocks[i].s }
               ni == IF next = {} THEN {} ELSE { CHOOSE i \in next : \A j \in next : st.blocks[j].s >= st.blocks[i].s }
               ov == { i \in pi \cup ni : RangesOverlap(b.s, b.s + Len(b.w), st.blocks[i].s, st.blocks[i].s + Len(st.blocks[i].w)) }
           IN IF ov # {}
              THEN LET i == IF pi \cap ov # {} THEN CHOOSE x \in pi \cap ov : TRUE ELSE CHOOSE x \in ov : TRUE
                       o == st.blocks[i]
                   IN bad(Err("OverlappingBlocks",
                              IF b.os <= o.os THEN <<Span(b.os, b.oe), Span(o.os, o.oe)>> ELSE <<Span(o.os, o.oe), Span(b.os, b.oe)>>, <<>>))
              ELSE good([st EXCEPT !.cur = <<>>,
                                   !.blocks = \* replace a block with the same start (BTreeMap::insert), else add
                                      IF \E i \in 1..Len(@) : @[i].s = b.s
                                      THEN [i \in 1..Len(@) |-> IF @[i].s = b.s THEN b ELSE @[i]]
                                      ELSE Append(@, b)])
    [] n.k = ".external" -> good(st)
    [] OTHER ->
         IF st.cur = <<>> THEN bad(Err("UndetAddrStmt", <<Span(stmt.s, stmt.e)>>, <<>>))
         ELSE LET ws == StmtWords(labels, n, st.cur.lc) IN
              IF ~ws.ok THEN bad(ws.err)
              ELSE good([st EXCEPT !.cur.w = @ \o ws.w, !.cur.lc = Wrap(@ + Size(n))])

RECURSIVE P2Run(_, _, _, _)
P2Run(st, prog, k, labels) ==
  IF k > Len(prog) THEN [ok |-> TRUE, st |-> st, err |-> Err("none", <<>>, <<>>)]
  ELSE LET r == P2Stmt(st, prog[k], labels) IN
       IF ~r.ok THEN r ELSE P2Run(r.st, prog, k + 1, labels)

\* blocks sorted by start address, as [s, w]
RECURSIVE SortBlocks(_)
SortBlocks(bs) ==
  IF bs = <<>> THEN <<>>
  ELSE LET i == CHOOSE i \in 1..Len(bs) : \A j \in 1..Len(bs) : bs[i].s <= bs[j].s
           rest == [j \in 1..(Len(bs) - 1) |-> IF j < i THEN bs[j] ELSE bs[j + 1]]
       IN <<[s |-> bs[i].s, w |-> bs[i].w]>> \o SortBlocks(rest)

\* the abstract object file
Obj(blocks, sym, labels, rel, dbg, lines, src) ==
  [blocks |-> blocks, sym |-> sym, labels |-> labels, rel |-> rel, dbg |-> dbg, lines |-> lines, src |-> src]
EmptySym == [sym |-> FALSE, labels |-> <<>>, rel |-> <<>>, dbg |-> FALSE, lines |-> {}, src |-> <<>>]

HasExternal(labels) == \E k \in DOMAIN labels : labels[k].ext

\* assemble(ast) / assemble_debug(ast, src): [ok, err, obj]
Assemble(prog, src, dbg) ==
  LET p1 == Pass1(prog, src, dbg) IN
  IF ~p1.ok THEN [ok |-> FALSE, err |-> p1.err, obj |-> Obj(<<>>, FALSE, <<>>, <<>>, FALSE, {}, <<>>)]
  ELSE LET p2 == P2Run(P2Init, prog, 1, p1.labels) IN
       IF ~p2.ok THEN [ok |-> FALSE, err |-> p2.err, obj |-> Obj(<<>>, FALSE, <<>>, <<>>, FALSE, {}, <<>>)]
       ELSE [ok |-> TRUE, err |-> Err("none", <<>>, <<>>),
             obj |-> \* the symbol table is kept with debug symbols, and whenever it declares externals
                     IF dbg \/ HasExternal(p1.labels)
                     THEN Obj(SortBlocks(p2.st.blocks), TRUE, p1.labels, p1.rel, dbg, IF dbg THEN p1.lines ELSE {}, IF dbg THEN src ELSE <<>>)
                     ELSE Obj(SortBlocks(p2.st.blocks), FALSE, <<>>, <<>>, FALSE, {}, <<>>)]

\* ---------------------------------------------------------------------------
\* DECLARATIVE.  Block structure by position.  One scan gives, for every statement k,
\* the state just before it: is a block open, which .orig opened it, and the address
\* implied by that .orig and the sizes of the statements before k (a prefix sum).
InfoInit == [open |-> FALSE, orig |-> 0, lc |-> -1]
InfoStep(s, n, k) ==
  CASE n.k = ".orig" -> [open |-> TRUE, orig |-> k, lc |-> n.a]
    [] n.k = ".end"  -> InfoInit
    [] OTHER -> IF s.open THEN [s EXCEPT !.lc = @ + Size(n)] ELSE s
RECURSIVE InfoScan(_, _, _, _)
InfoScan(prog, k, s, acc) ==
  IF k > Len(prog) THEN [rows |-> acc, final |-> s]
  ELSE InfoScan(prog, k + 1, InfoStep(s, prog[k].n, k), Append(acc, s))
Info(prog) == InfoScan(prog, 1, InfoInit, <<>>)

OpenAt(X, k) == X.rows[k].open
AddrAt(X, k) == IF X.rows[k].open THEN X.rows[k].lc ELSE -1

\* the blocks: each .orig met while no block is open; a block runs to the next .end/.orig or to the end
BlockIdxI(prog, X) == { k \in 1..Len(prog) : prog[k].n.k = ".orig" /\ ~OpenAt(X, k) }
BlockStop(prog, o) ==
  LET stops == { j \in (o + 1)..Len(prog) : prog[j].n.k \in {".end", ".orig"} } IN
  IF stops = {} THEN Len(prog) + 1 ELSE CHOOSE j \in stops : \A i \in stops : j <= i
BlockLenI(prog, X, o) ==
  LET j == BlockStop(prog, o) IN (IF j > Len(prog) THEN X.final.lc ELSE X.rows[j].lc) - prog[o].n.a

\* every label definition: <<key, addr (-1 outside a block), external, source offset>>
LabelDefsI(prog, X) ==
  UNION { { <<Upper(prog[k].labels[i].name), AddrAt(X, k), FALSE, prog[k].labels[i].s>> : i \in 1..Len(prog[k].labels) } : k \in 1..Len(prog) }
  \cup { <<Upper(prog[k].n.lbl), 0, TRUE, prog[k].n.ls>> : k \in { k \in 1..Len(prog) : prog[k].n.k = ".external" } }
KeysOf(D) == { d[1] : d \in D }
AddrsOfKey(D, key) == { d[2] : d \in { d \in D : d[1] = key } }
AddrOfKey(D, key) == CHOOSE a \in AddrsOfKey(D, key) : TRUE
IsExtKey(D, key) == \E d \in D : d[1] = key /\ d[3]
\* a key both defined at address 0 and declared external does not clash (the declaration counts as
\* address 0); whether it then counts as external is left open by the property (the code keeps
\* whichever came first).  AllExtKey: declared external and defined nowhere.
AllExtKey(D, key) == \A d \in D : d[1] = key => d[3]
FirstSrcOfKey(D, key) == LET SS == { d[4] : d \in { d \in D : d[1] = key } } IN CHOOSE s \in SS : \A t \in SS : s <= t

UsesLabel(n) == n.m = 2 /\ n.k # ".external"
PcRel(n) == n.k \in {"BR", "LD", "LDI", "LEA", "ST", "STI", "NOP", "JSR"}
OffBits(n) == IF n.k = "JSR" THEN 11 ELSE 9
OffsetOf(target, at) == S16(Wrap(target - (at + 1)))       \* label address minus the address of the following word

\* the conditions of C02, each with the error kinds that name it
CondInBlockI(prog, X) ==
  /\ \A k \in 1..Len(prog) : prog[k].labels # <<>> => OpenAt(X, k)
  /\ \A k \in 1..Len(prog) : prog[k].n.k \notin {".orig", ".end", ".external"} => OpenAt(X, k)
  /\ \A k \in 1..Len(prog) : prog[k].n.k = ".orig" => ~OpenAt(X, k)
  /\ \A k \in 1..Len(prog) : prog[k].n.k = ".end" => OpenAt(X, k)
  /\ ~X.final.open
KindsInBlockI(prog, X) ==
       (IF \E k \in 1..Len(prog) : prog[k].labels # <<>> /\ ~OpenAt(X, k) THEN {"UndetAddrLabel"} ELSE {})
  \cup (IF \E k \in 1..Len(prog) : prog[k].n.k \notin {".orig", ".end", ".external"} /\ ~OpenAt(X, k) THEN {"UndetAddrStmt"} ELSE {})
  \cup (IF \E k \in 1..Len(prog) : prog[k].n.k = ".orig" /\ OpenAt(X, k) THEN {"OverlappingOrig"} ELSE {})
  \cup (IF \E k \in 1..Len(prog) : prog[k].n.k = ".end" /\ ~OpenAt(X, k) THEN {"UnopenedOrig"} ELSE {})
  \cup (IF X.final.open THEN {"UnclosedOrig"} ELSE {})

ClashKeys(D) == { key \in KeysOf(D) : Cardinality(AddrsOfKey(D, key)) > 1 }
CondNoLabelClashI(D) == ClashKeys(D) = {}

UndefinedRefs(prog, D) == { k \in 1..Len(prog) : UsesLabel(prog[k].n) /\ Upper(prog[k].n.lbl) \notin KeysOf(D) }
ExternalRefs(prog, D)  == { k \in 1..Len(prog) : UsesLabel(prog[k].n) /\ PcRel(prog[k].n) /\ Upper(prog[k].n.lbl) \in KeysOf(D)
                                                 /\ IsExtKey(D, Upper(prog[k].n.lbl)) }
DefExternalRefs(prog, D) == { k \in ExternalRefs(prog, D) : AllExtKey(D, Upper(prog[k].n.lbl)) }
TooFarRefs(prog, X, D) == { k \in 1..Len(prog) : UsesLabel(prog[k].n) /\ PcRel(prog[k].n) /\ OpenAt(X, k)
                                                 /\ \E d \in D : d[1] = Upper(prog[k].n.lbl) /\ ~d[3] /\ d[2] >= 0
                                                       /\ ~FitsS(OffsetOf(d[2], AddrAt(X, k)), OffBits(prog[k].n)) }
CondOperandsI(prog, X, D) == UndefinedRefs(prog, D) = {} /\ ExternalRefs(prog, D) = {} /\ TooFarRefs(prog, X, D) = {}
KindsOperandsI(prog, X, D) ==
       (IF UndefinedRefs(prog, D) # {} THEN {"CouldNotFindLabel"} ELSE {})
  \cup (IF ExternalRefs(prog, D) # {} THEN {"OffsetExternal"} ELSE {})
  \cup (IF TooFarRefs(prog, X, D) # {} THEN {"OffsetNewErr"} ELSE {})

NonEmptyBlocks(prog, X) == { o \in BlockIdxI(prog, X) : BlockLenI(prog, X, o) > 0 }
BlockOverlapPairs(prog, X) ==
  { p \in NonEmptyBlocks(prog, X) \X NonEmptyBlocks(prog, X) : p[1] # p[2] /\
      RangesOverlap(prog[p[1]].n.a, prog[p[1]].n.a + BlockLenI(prog, X, p[1]), prog[p[2]].n.a, prog[p[2]].n.a + BlockLenI(prog, X, p[2])) }
CondBlocksI(prog, X) ==
  /\ \A o \in NonEmptyBlocks(prog, X) : prog[o].n.a + BlockLenI(prog, X, o) <= IO_START_A
  /\ BlockOverlapPairs(prog, X) = {}
KindsBlocksI(prog, X) ==
       (IF \E o \in NonEmptyBlocks(prog, X) : prog[o].n.a + BlockLenI(prog, X, o) > IO_START_A THEN {"BlockInIO"} ELSE {})
  \cup (IF \E o \in NonEmptyBlocks(prog, X) : prog[o].n.a + BlockLenI(prog, X, o) > 65536 THEN {"WrappingBlock"} ELSE {})
  \cup (IF BlockOverlapPairs(prog, X) # {} THEN {"OverlappingBlocks"} ELSE {})

WellFormedI(prog, X, D) == CondInBlockI(prog, X) /\ CondNoLabelClashI(D) /\ CondOperandsI(prog, X, D) /\ CondBlocksI(prog, X)
\* the same with the open case read the other way (a key also defined in the file is not external):
\* WellFormedI => accepted, accepted => WellFormedHiI; the two differ only for such keys in PC-relative operands
WellFormedHiI(prog, X, D) == /\ CondInBlockI(prog, X) /\ CondNoLabelClashI(D) /\ CondBlocksI(prog, X)
                             /\ UndefinedRefs(prog, D) = {} /\ DefExternalRefs(prog, D) = {} /\ TooFarRefs(prog, X, D) = {}
ViolatedKindsI(prog, X, D) == KindsInBlockI(prog, X) \cup (IF CondNoLabelClashI(D) THEN {} ELSE {"OverlappingLabels"})
                              \cup KindsOperandsI(prog, X, D) \cup KindsBlocksI(prog, X)
WellFormed(prog) == LET X == Info(prog) D == LabelDefsI(prog, X) IN WellFormedI(prog, X, D)
ViolatedKinds(prog) == LET X == Info(prog) D == LabelDefsI(prog, X) IN ViolatedKindsI(prog, X, D)

\* C01: the image of a well-formed program: address -> word (-1 = reserved, uninitialized)
StmtImageI(prog, X, D, k) ==
  LET n == prog[k].n  a == AddrAt(X, k)
      lo == IF n.m = 2 THEN OffsetOf(AddrOfKey(D, Upper(n.lbl)), a) ELSE (IF n.k \in {"JSR", "NOP"} THEN n.a ELSE n.b)
  IN CASE n.k = ".fill" -> <<IF n.m = 2 THEN AddrOfKey(D, Upper(n.lbl)) ELSE n.a>>
       [] n.k = ".blkw" -> [i \in 1..n.a |-> -1]
       [] n.k = ".stringz" -> n.strb \o <<0>>
       [] n.k \in {".orig", ".end", ".external"} -> <<>>
       [] n.k \in {"BR", "LD", "LDI", "LEA", "ST", "STI"} -> <<Encode(I(n.k, n.a, lo, 0, 0))>>
       [] n.k = "NOP" -> <<Encode(I("BR", 0, lo, 0, 0))>>
       [] n.k = "JSR" -> <<Encode(I("JSR", lo, 0, 0, 1))>>
       [] OTHER -> <<StmtWord(S(n.k, n.a, n.b, n.c, n.m))>>
ImageSpecI(prog, X, D) ==     \* set of <<address, word>>
  UNION { LET w == StmtImageI(prog, X, D, k) IN { <<AddrAt(X, k) + i - 1, w[i]>> : i \in 1..Len(w) } : k \in 1..Len(prog) }
ImageSpec(prog) == LET X == Info(prog) D == LabelDefsI(prog, X) IN ImageSpecI(prog, X, D)
ImageOfBlocks(bs) == UNION { { <<bs[j].s + i - 1, bs[j].w[i]>> : i \in 1..Len(bs[j].w) } : j \in 1..Len(bs) }

\* every label maps to the address of the statement it precedes (externals: 0, flagged)
LabelSpecI(D) == { <<d[1], d[2]>> : d \in D }
\* the external flag is fixed when all declarations of the key agree (a label at address 0 and an
\* .external of the same name do not clash; the property leaves the flag open there)
ExtFlagOK(D, key, ext) == /\ (\A d \in D : d[1] = key => d[3]) => ext
                          /\ (\A d \in D : d[1] = key => ~d[3]) => ~ext
LabelsOfObj(labels) == { <<k, labels[k].addr, labels[k].ext>> : k \in DOMAIN labels }
LabelAddrsOfObj(labels) == { <<k, labels[k].addr>> : k \in DOMAIN labels }

\* C24: exactly the lines holding a statement that occupies memory map to its first address
LineSpecI(prog, X, nl) ==
  { <<LineOfNl(nl, prog[k].s), AddrAt(X, k)>> : k \in { k \in 1..Len(prog) : Size(prog[k].n) > 0 /\ OpenAt(X, k) } }

\* relocation entries: every .fill of a key that is external
RelSpecI(prog, X, D) ==
  { <<AddrAt(X, k), Upper(prog[k].n.lbl)>> : k \in { k \in 1..Len(prog) : prog[k].n.k = ".fill" /\ prog[k].n.m = 2
                                                          /\ Upper(prog[k].n.lbl) \in KeysOf(D) /\ IsExtKey(D, Upper(prog[k].n.lbl)) } }
\* (for a key that is also defined in the file the entry is optional: see AllExtKey)
RelSpecLoI(prog, X, D) == { e \in RelSpecI(prog, X, D) : AllExtKey(D, e[2]) }
RelOfObj(rel) == { <<a, rel[a]>> : a \in DOMAIN rel }

\* C26: the labels an error of the given kind may point at (upper-cased)
OffendingLabels(prog, X, D, kind) ==
  CASE kind = "UndetAddrLabel" -> UNION { { Upper(prog[k].labels[i].name) : i \in 1..Len(prog[k].labels) } : k \in { k \in 1..Len(prog) : ~OpenAt(X, k) } }
    [] kind = "OverlappingLabels" -> ClashKeys(D)
    [] kind = "CouldNotFindLabel" -> { Upper(prog[k].n.lbl) : k \in UndefinedRefs(prog, D) }
    [] kind = "OffsetExternal" -> { Upper(prog[k].n.lbl) : k \in ExternalRefs(prog, D) }
    [] kind = "OffsetNewErr" -> { Upper(prog[k].n.lbl) : k \in TooFarRefs(prog, X, D) }
    [] OTHER -> {}
IsLabelKind(kind) == kind \in {"UndetAddrLabel", "OverlappingLabels", "CouldNotFindLabel", "OffsetExternal", "OffsetNewErr"}
=============================================================================
