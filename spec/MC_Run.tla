------------------------------- MODULE MC_Run -------------------------------
(* C13 inside the specification: a program with a loop, nested subroutine      *)
(* calls and a halt is executed as EVERY sequence of up to MaxCalls run-style  *)
(* calls (run_with_limit 0/1/2/5, step_over, step_out, run_while(pc # a), run  *)
(* with a PC breakpoint set or not) followed by a final run.  TLC checks that  *)
(* every segmentation ends in the same state and instruction count as the      *)
(* unbroken run, that a limit of n executes exactly n instructions unless the  *)
(* machine halts or a breakpoint matches, that step_over ends at or below the  *)
(* depth it started from and step_out strictly below it.                       *)
EXTENDS Run

CONSTANT MaxCalls
Prog == << Encode(I("ADD", 1, 1, 2, 1)),        \* x3000        ADD R1, R1, #2
           Encode(I("JSR", 3, 0, 0, 1)),        \* x3001 LOOP   JSR F
           Encode(I("ADD", 1, 1, -1, 1)),       \* x3002        ADD R1, R1, #-1
           Encode(I("BR", 1, -3, 0, 0)),        \* x3003        BRp LOOP
           Encode(I("TRAP", 37, 0, 0, 0)),      \* x3004        HALT
           Encode(I("ADD", 6, 6, -1, 1)),       \* x3005 F      ADD R6, R6, #-1
           Encode(I("STR", 7, 6, 0, 0)),        \* x3006        STR R7, R6, #0
           Encode(I("JSR", 3, 0, 0, 1)),        \* x3007        JSR G
           Encode(I("LDR", 7, 6, 0, 0)),        \* x3008        LDR R7, R6, #0
           Encode(I("ADD", 6, 6, 1, 1)),        \* x3009        ADD R6, R6, #1
           Encode(I("JMP", 7, 0, 0, 0)),        \* x300A        RET
           Encode(I("ADD", 2, 2, 1, 1)),        \* x300B G      ADD R2, R2, #1
           Encode(I("JMP", 7, 0, 0, 0)) >>      \* x300C        RET
BaseRdMC(b, a) == IF a >= 12288 /\ a < 12288 + Len(Prog) THEN W(Prog[a - 12288 + 1], 65535) ELSE W(0, 65535)

Dev(k) == [k |-> k, ie |-> FALSE, val |-> 0, time |-> 0, en |-> FALSE, lo |-> 0, hi |-> 0, vect |-> 0, prio |-> 0, slot |-> 0]
Start(bps) ==
  [pc |-> 12288, psr |-> 32770, reg |-> [i \in 1..8 |-> IF i = 7 THEN W(64768, 65535) ELSE W(0, 65535)], ssp |-> W(12288, 65535),
   memw |-> <<>>, dirty |-> <<>>, mcr |-> FALSE, prefetch |-> FALSE, fno |-> 0, dbgf |-> FALSE, frames |-> <<>>,
   icount |-> 0, obs |-> <<>>, kbd |-> <<>>, disp |-> <<>>,
   devs |-> <<Dev("null"), Dev("kbd"), Dev("disp")>>, ports |-> (65024 :> 1) @@ (65026 :> 1) @@ (65028 :> 2) @@ (65030 :> 2),
   ireg |-> (65532 :> "PSR") @@ (65534 :> "MCR"),
   flags |-> [strict |-> FALSE, real |-> FALSE, dbg |-> FALSE, ignp |-> FALSE], alloca |-> <<>>,
   srdefs |-> <<>>, base |-> 1, bps |-> bps, pause |-> "Unsuccessful", devn |-> {}, drift |-> FALSE, nrej |-> 0,
   mark |-> [reg |-> <<>>, psr |-> 0, pc |-> 0, kbd |-> <<>>, disp |-> <<>>, memw |-> <<>>, ssp |-> NoW]]

NoInts == [j \in 1..8 |-> [k |-> 0, vect |-> 0, prio |-> 0]]
Envs == [i \in 1..200 |-> [lockK |-> FALSE, lockD |-> FALSE, clr |-> FALSE, ints |-> NoInts, draws |-> [j \in 1..8 |-> 1]]]
Reference == RunCall(Start({}), "run", 0, Envs).st
Fin(s) == [pc |-> s.pc, psr |-> s.psr, reg |-> s.reg, icount |-> s.icount, fno |-> s.fno,
           mem |-> { <<a, Rd(s, a)>> : a \in DOMAIN s.memw }]
ASSUME Reference.pause = "Halt" /\ Reference.icount = 23

VARIABLES st, n, last
vars == <<st, n, last>>
Calls == { <<"limit", 0>>, <<"limit", 1>>, <<"limit", 2>>, <<"limit", 5>>, <<"over", 0>>, <<"out", 0>>, <<"pcne", 12299>>, <<"run", 0>> }
Init == /\ \E bps \in { {}, { [k |-> "pc", a |-> 12299, c |-> [k |-> "always", v |-> 0]] },
                        { [k |-> "reg", a |-> 2, c |-> [k |-> "eq", v |-> 1]] } } : st = Start(bps)
        /\ n = 0 /\ last = [kind |-> "none", arg |-> 0, pre |-> Start({}), res |-> [out |-> "ok", n |-> 0]]
Halted == st.pause = "Halt"
Next == /\ ~Halted
        /\ \E c \in Calls :
             /\ (n >= MaxCalls => c[1] = "run")
             /\ LET r == RunCall(st, c[1], c[2], Envs) IN
                  /\ st' = r.st
                  /\ last' = [kind |-> c[1], arg |-> c[2], pre |-> st, res |-> [out |-> r.out, n |-> r.n]]
             /\ n' = n + 1
Spec == Init /\ [][Next]_vars

\* any segmentation ends like the unbroken run
Segmented == Halted => Fin(st) = Fin(Reference)
NoError == last.res.out = "ok"
Stopped == st.pause \in {"Halt", "Breakpoint", "Tripwire", "Unsuccessful"}
\* run_with_limit(k) executes exactly k instructions unless the machine halts or a breakpoint matches first
LimitExact == (last.kind = "limit" /\ st.pause = "Tripwire") => st.icount - last.pre.icount = last.arg
LimitAtMost == last.kind = "limit" => st.icount - last.pre.icount <= last.arg
\* step_over: at least one instruction, and back at (or below) the starting depth when it stops by itself
OverOK == (last.kind = "over" /\ st.pause = "Tripwire") => (st.icount > last.pre.icount /\ st.fno <= last.pre.fno)
\* step_out: strictly below the starting depth when it stops by itself; nothing happens at depth 0
OutOK == /\ (last.kind = "out" /\ last.pre.fno = 0) => Fin(st) = Fin(last.pre)
         /\ (last.kind = "out" /\ last.pre.fno > 0 /\ st.pause = "Tripwire") => st.fno < last.pre.fno
\* a breakpoint is only reported after an executed step
\* (a step_out at depth 0 returns at once and leaves the status of the call before it)
BpAfterStep == (st.pause = "Breakpoint" /\ ~(last.kind = "out" /\ last.pre.fno = 0)) => st.icount > last.pre.icount
=============================================================================
