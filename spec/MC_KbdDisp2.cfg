SPECIFICATION Spec
CONSTANT Budget = 2
CONSTANT Input <- Input1
CONSTANT BaseRd <- BaseRdMC
INVARIANT Delivery
INVARIANT NoOtherLoss
INVARIANT NoError
INVARIANT PrefixOK
PROPERTY Terminates
CHECK_DEADLOCK FALSE
