SPECIFICATION Spec
CONSTANT Depth = 3
INVARIANT Total
INVARIANT Emit
CHECK_DEADLOCK FALSE
