SPECIFICATION Spec
CONSTANT MaxReq = 1
CONSTANT ProgPrio = 0
CONSTANT BaseRd <- BaseRdMC
INVARIANT Gate
INVARIANT NoError
INVARIANT Transparent
INVARIANT Terminates
CHECK_DEADLOCK FALSE
