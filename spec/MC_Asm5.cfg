SPECIFICATION Spec
CONSTANT MaxLen = 5
INVARIANT Agree
CHECK_DEADLOCK FALSE
