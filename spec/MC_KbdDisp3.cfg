SPECIFICATION Spec
CONSTANT Budget = 3
CONSTANT Input <- Input2
CONSTANT BaseRd <- BaseRdMC
INVARIANT Delivery
INVARIANT NoOtherLoss
INVARIANT NoError
INVARIANT PrefixOK
PROPERTY Terminates
CHECK_DEADLOCK FALSE
