SPECIFICATION Spec
INVARIANT RoundTrip
INVARIANT EscapeInverse
CHECK_DEADLOCK FALSE
