SPECIFICATION Spec
CONSTANT MaxLen = 2
CONSTANT BaseRd <- BaseRdMC
INVARIANT Contract
CHECK_DEADLOCK FALSE
