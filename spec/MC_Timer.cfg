SPECIFICATION Spec
CONSTANT MaxT = 4
CONSTANT BaseRd <- NoBase
INVARIANT NoViolation
VIEW View
CHECK_DEADLOCK FALSE
