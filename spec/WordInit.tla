------------------------------ MODULE WordInit ------------------------------
(* Simulated words with initialization tracking (`Word`, sim/mem.rs): a value *)
(* and a mask of bits known to be initialized.  Parametric in the width WW so *)
(* that MC_WordInit can check soundness exhaustively at small widths; the     *)
(* machine uses WW = 16.                                                      *)
EXTENDS Words

W(v, m)  == [v |-> v, m |-> m]

\* ---- width-parametric operators ------------------------------------------
AllW(ww)        == Pow2(ww) - 1
AddWW(l, r, ww) == IF r.v = 0 /\ r.m = AllW(ww) THEN l
                   ELSE IF l.v = 0 /\ l.m = AllW(ww) THEN r
                   ELSE W((l.v + r.v) % Pow2(ww),
                          IF l.m = AllW(ww) /\ r.m = AllW(ww) THEN AllW(ww) ELSE 0)
SubWW(l, r, ww) == IF r.v = 0 /\ r.m = AllW(ww) THEN l
                   ELSE W((l.v - r.v) % Pow2(ww),
                          IF l.m = AllW(ww) /\ r.m = AllW(ww) THEN AllW(ww) ELSE 0)
AndWW(l, r, ww) == W(l.v & r.v,
                     ((l.m & r.m) | ((AllW(ww) - l.v) & l.m)) | ((AllW(ww) - r.v) & r.m))
NotWW(x, ww)    == W(AllW(ww) - x.v, x.m)

\* ---- the 16-bit instances used by the machine ----------------------------
Init16(v) == W(v, 65535)
IsInit(x) == x.m = 65535
AddW(l, r) == AddWW(l, r, 16)
SubW(l, r) == SubWW(l, r, 16)
AndW(l, r) == AndWW(l, r, 16)
NotW(x)    == NotWW(x, 16)

\* ---- soundness, as the property states it ---------------------------------
\* Completions of a word: every value agreeing with x.v on the initialized bits.
Completions(x, ww) == { c \in 0..AllW(ww) : (c & x.m) = (x.v & x.m) }
\* A result r of a binary operation `f` on values is sound for operands x, y iff
\* every bit r reports initialized has the value r.v gives it, for every choice
\* of the operands' uninitialized bits.
SoundBin(r, x, y, ww, F(_, _)) ==
  \A cx \in Completions(x, ww), cy \in Completions(y, ww) :
     (F(cx, cy) & r.m) = (r.v & r.m)
SoundUn(r, x, ww, F(_)) ==
  \A cx \in Completions(x, ww) : (F(cx) & r.m) = (r.v & r.m)
=============================================================================
