----------------------------- MODULE MC_Offsets -----------------------------
(* The arithmetic statement of "fits in N bits" / "truncate to N bits" equals *)
(* the shift-based computation, for every N in 1..16 and every 16-bit value.  *)
EXTENDS Offsets, TLC

VARIABLES n, v, s, phase
vars == <<n, v, s, phase>>

Init == /\ n \in 1..16 /\ phase = "gen"
        /\ \/ s = 1 /\ v \in -32768..32767
           \/ s = 0 /\ v \in 0..65535
Next == phase = "gen" /\ phase' = "chk" /\ UNCHANGED <<n, v, s>>
Spec == Init /\ [][Next]_vars

Agree ==
  phase = "chk" =>
  IF s = 1
  THEN /\ FitsS(v, n) <=> BitFitsS(v, n)
       /\ TruncS(v, n) = ShlShrS(v, n)
       /\ FitsS(TruncS(v, n), n)
       /\ FitsS(v, n) => TruncS(v, n) = v
       /\ (TruncS(v, n) - v) % Pow2(n) = 0
  ELSE /\ FitsU(v, n) <=> BitFitsU(v, n)
       /\ TruncU(v, n) = ShlShrU(v, n)
       /\ FitsU(TruncU(v, n), n)
       /\ FitsU(v, n) => TruncU(v, n) = v
       /\ (TruncU(v, n) - v) % Pow2(n) = 0
=============================================================================
