SPECIFICATION Spec
INVARIANT WordInv
INVARIANT InstrInv
CHECK_DEADLOCK FALSE
