-------------------------------- MODULE Isa --------------------------------
(* The LC-3 instruction set: encoding, decoding, canonical-word table and    *)
(* disassembly (`SimInstr::encode/decode`, ast/sim.rs; `disassemble_line`,   *)
(* ast/asm.rs).                                                              *)
(*                                                                           *)
(* An instruction is a uniform record [op, a, b, c, m] (unused fields 0):    *)
(*   BR   a=cc b=off9            ADD/AND a=dr b=sr1 m=0 c=sr2 | m=1 c=imm5   *)
(*   LD/ST/LDI/STI/LEA a=r b=off9        LDR/STR a=r b=base c=off6           *)
(*   JSR  m=1 a=off11 | m=0 a=base (JSRR)    JMP a=base     NOT a=dr b=sr    *)
(*   RTI                          TRAP a=vect8                               *)
(* Offsets and immediates are signed integers; registers 0..7.               *)
EXTENDS Words, Offsets

I(op, a, b, c, m) == [op |-> op, a |-> a, b |-> b, c |-> c, m |-> m]

OpName(n) == CASE n = 0 -> "BR"  [] n = 1 -> "ADD" [] n = 2 -> "LD"  [] n = 3 -> "ST"
               [] n = 4 -> "JSR" [] n = 5 -> "AND" [] n = 6 -> "LDR" [] n = 7 -> "STR"
               [] n = 8 -> "RTI" [] n = 9 -> "NOT" [] n = 10 -> "LDI" [] n = 11 -> "STI"
               [] n = 12 -> "JMP" [] n = 13 -> "RES" [] n = 14 -> "LEA" [] n = 15 -> "TRAP"

OpNum(s) == CASE s = "BR" -> 0 [] s = "ADD" -> 1 [] s = "LD" -> 2 [] s = "ST" -> 3
              [] s = "JSR" -> 4 [] s = "AND" -> 5 [] s = "LDR" -> 6 [] s = "STR" -> 7
              [] s = "RTI" -> 8 [] s = "NOT" -> 9 [] s = "LDI" -> 10 [] s = "STI" -> 11
              [] s = "JMP" -> 12 [] s = "LEA" -> 14 [] s = "TRAP" -> 15

\* field value -> n low bits (two's complement for negatives)
Fld(v, n) == v % Pow2(n)

---------------------------------------------------------------------------
\* Encoding

Encode(i) ==
  LET o == OpNum(i.op) * 4096 IN
  CASE i.op = "BR"   -> o + i.a * 512 + Fld(i.b, 9)
    [] i.op \in {"ADD", "AND"} ->
         IF i.m = 1 THEN o + i.a * 512 + i.b * 64 + 32 + Fld(i.c, 5)
                    ELSE o + i.a * 512 + i.b * 64 + i.c
    [] i.op \in {"LD", "ST", "LDI", "STI", "LEA"} -> o + i.a * 512 + Fld(i.b, 9)
    [] i.op = "JSR"  -> IF i.m = 1 THEN o + 2048 + Fld(i.a, 11) ELSE o + i.a * 64
    [] i.op \in {"LDR", "STR"} -> o + i.a * 512 + i.b * 64 + Fld(i.c, 6)
    [] i.op = "RTI"  -> o
    [] i.op = "NOT"  -> o + i.a * 512 + i.b * 64 + 63
    [] i.op = "JMP"  -> o + i.a * 64
    [] i.op = "TRAP" -> o + i.a

\* Is `i` a representable instruction (all fields within their widths)?
Representable(i) ==
  /\ i.op \in {"BR","ADD","LD","ST","JSR","AND","LDR","STR","RTI","NOT","LDI","STI","JMP","LEA","TRAP"}
  /\ CASE i.op = "BR" -> i.a \in 0..7 /\ FitsS(i.b, 9) /\ i.c = 0 /\ i.m = 0
       [] i.op \in {"ADD", "AND"} -> i.a \in 0..7 /\ i.b \in 0..7 /\ i.m \in {0, 1}
                                    /\ (IF i.m = 1 THEN FitsS(i.c, 5) ELSE i.c \in 0..7)
       [] i.op \in {"LD","ST","LDI","STI","LEA"} -> i.a \in 0..7 /\ FitsS(i.b, 9) /\ i.c = 0 /\ i.m = 0
       [] i.op = "JSR" -> i.m \in {0,1} /\ (IF i.m = 1 THEN FitsS(i.a, 11) ELSE i.a \in 0..7) /\ i.b = 0 /\ i.c = 0
       [] i.op \in {"LDR","STR"} -> i.a \in 0..7 /\ i.b \in 0..7 /\ FitsS(i.c, 6) /\ i.m = 0
       [] i.op = "RTI" -> i.a = 0 /\ i.b = 0 /\ i.c = 0 /\ i.m = 0
       [] i.op = "NOT" -> i.a \in 0..7 /\ i.b \in 0..7 /\ i.c = 0 /\ i.m = 0
       [] i.op = "JMP" -> i.a \in 0..7 /\ i.b = 0 /\ i.c = 0 /\ i.m = 0
       [] i.op = "TRAP" -> i.a \in 0..255 /\ i.b = 0 /\ i.c = 0 /\ i.m = 0

---------------------------------------------------------------------------
\* The ISA's table of canonical encodings, written from the must-be-zero /
\* must-be-one bits of each format (independent of Decode below).

Canonical(w) ==
  LET op == Slice(w, 12, 16) IN
  CASE op \in {0, 2, 3, 6, 7, 10, 11, 14} -> TRUE
    [] op \in {1, 5} -> Bit(w, 5) = 1 \/ Slice(w, 3, 5) = 0
    [] op = 4  -> Bit(w, 11) = 1 \/ (Slice(w, 9, 12) = 0 /\ Slice(w, 0, 6) = 0)
    [] op = 8  -> Slice(w, 0, 12) = 0
    [] op = 9  -> Slice(w, 0, 6) = 63
    [] op = 12 -> Slice(w, 9, 12) = 0 /\ Slice(w, 0, 6) = 0
    [] op = 13 -> FALSE
    [] op = 15 -> Slice(w, 8, 12) = 0

---------------------------------------------------------------------------
\* Decoding.  Result: [ok |-> TRUE, i |-> instr] or [ok |-> FALSE, err |-> kind]

DOk(i)    == [ok |-> TRUE, i |-> i, err |-> "none"]
DErr(e)   == [ok |-> FALSE, i |-> I("RES", 0, 0, 0, 0), err |-> e]
BadFmt    == DErr("InvalidInstrFormat")

Decode(w) ==
  LET op  == Slice(w, 12, 16)
      r9  == Slice(w, 9, 12)
      r6  == Slice(w, 6, 9)
      o9  == SExt(Slice(w, 0, 9), 9)
  IN
  CASE op = 0  -> DOk(I("BR", r9, o9, 0, 0))
    [] op \in {1, 5} ->
         IF Bit(w, 5) = 1 THEN DOk(I(OpName(op), r9, r6, SExt(Slice(w, 0, 5), 5), 1))
         ELSE IF Slice(w, 3, 5) # 0 THEN BadFmt
         ELSE DOk(I(OpName(op), r9, r6, Slice(w, 0, 3), 0))
    [] op \in {2, 3, 10, 11, 14} -> DOk(I(OpName(op), r9, o9, 0, 0))
    [] op = 4  ->
         IF Bit(w, 11) = 1 THEN DOk(I("JSR", SExt(Slice(w, 0, 11), 11), 0, 0, 1))
         ELSE IF Slice(w, 9, 11) # 0 \/ Slice(w, 0, 6) # 0 THEN BadFmt
         ELSE DOk(I("JSR", r6, 0, 0, 0))
    [] op \in {6, 7} -> DOk(I(OpName(op), r9, r6, SExt(Slice(w, 0, 6), 6), 0))
    [] op = 8  -> IF Slice(w, 0, 12) # 0 THEN BadFmt ELSE DOk(I("RTI", 0, 0, 0, 0))
    [] op = 9  -> IF Slice(w, 0, 6) # 63 THEN BadFmt ELSE DOk(I("NOT", r9, r6, 0, 0))
    [] op = 12 -> IF Slice(w, 9, 12) # 0 \/ Slice(w, 0, 6) # 0 THEN BadFmt
                  ELSE DOk(I("JMP", r6, 0, 0, 0))
    [] op = 13 -> DErr("IllegalOpcode")
    [] op = 15 -> IF Slice(w, 8, 12) # 0 THEN BadFmt ELSE DOk(I("TRAP", Slice(w, 0, 8), 0, 0, 0))

---------------------------------------------------------------------------
\* Disassembly: abstract assembly statement for a word.  A statement nucleus
\* is [k, a, b, c, m] with k the mnemonic (aliases by name) or ".fill".

S(k, a, b, c, m) == [k |-> k, a |-> a, b |-> b, c |-> c, m |-> m]

TrapAlias(v) == CASE v = 32 -> "GETC" [] v = 33 -> "PUTC" [] v = 34 -> "PUTS"
                  [] v = 35 -> "IN" [] v = 36 -> "PUTSP" [] v = 37 -> "HALT"
                  [] OTHER -> "TRAP"

Disasm(w) ==
  LET d == Decode(w) IN
  IF w < 512 \/ ~d.ok THEN S(".fill", w, 0, 0, 0)
  ELSE LET i == d.i IN
       CASE i.op = "JSR" /\ i.m = 0 -> S("JSRR", i.a, 0, 0, 0)
         [] i.op = "JSR" /\ i.m = 1 -> S("JSR", i.a, 0, 0, 0)
         [] i.op = "JMP" /\ i.a = 7 -> S("RET", 0, 0, 0, 0)
         [] i.op = "TRAP" -> IF TrapAlias(i.a) = "TRAP" THEN S("TRAP", i.a, 0, 0, 0)
                             ELSE S(TrapAlias(i.a), 0, 0, 0, 0)
         [] OTHER -> S(i.op, i.a, i.b, i.c, i.m)

\* Encoding of a label-free statement nucleus (the inverse direction, used for
\* the theorem "every word reassembles from its disassembly").
StmtWord(s) ==
  CASE s.k = ".fill" -> s.a
    [] s.k = "JSRR"  -> Encode(I("JSR", s.a, 0, 0, 0))
    [] s.k = "JSR"   -> Encode(I("JSR", s.a, 0, 0, 1))
    [] s.k = "RET"   -> Encode(I("JMP", 7, 0, 0, 0))
    [] s.k = "NOP"   -> Encode(I("BR", 0, s.a, 0, 0))
    [] s.k = "GETC"  -> Encode(I("TRAP", 32, 0, 0, 0))
    [] s.k \in {"PUTC", "OUT"} -> Encode(I("TRAP", 33, 0, 0, 0))
    [] s.k = "PUTS"  -> Encode(I("TRAP", 34, 0, 0, 0))
    [] s.k = "IN"    -> Encode(I("TRAP", 35, 0, 0, 0))
    [] s.k = "PUTSP" -> Encode(I("TRAP", 36, 0, 0, 0))
    [] s.k = "HALT"  -> Encode(I("TRAP", 37, 0, 0, 0))
    [] OTHER -> Encode(I(s.k, s.a, s.b, s.c, s.m))
=============================================================================
