SPECIFICATION Spec
INVARIANT TableOK
INVARIANT TableConf
CHECK_DEADLOCK FALSE
