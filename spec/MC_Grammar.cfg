SPECIFICATION Spec
INVARIANT ReadsBack
CHECK_DEADLOCK FALSE
