------------------------------- MODULE MC_Asm -------------------------------
(* Model checking of the assembler specification: for EVERY program of up to   *)
(* MaxLen statements over a universe of statement templates (block structure   *)
(* faults, labels in two spellings, externals, label operands, blocks at the   *)
(* ends of the address space, touching and overlapping origins), the           *)
(* operational description (pass 1 / pass 2 as the code runs them) and the     *)
(* declarative description (C01, C02, C21, C24, C26 in their own words) agree. *)
EXTENDS AsmTpl, TLC

CONSTANT MaxLen

VARIABLES ts, phase
vars == <<ts, phase>>
Init == ts = <<>> /\ phase = "gen"
Next == \/ phase = "gen" /\ Len(ts) < MaxLen /\ \E t \in Templates \cup {20} : ts' = Append(ts, t) /\ phase' = "gen"
        \/ phase = "gen" /\ phase' = "chk" /\ UNCHANGED ts
Spec == Init /\ [][Next]_vars

Prog == ProgOf(ts)
Src  == SrcOf(ts)

Agree ==
  phase = "chk" =>
  LET prog == Prog  src == Src
      X == Info(prog)  D == LabelDefsI(prog, X)
      wf == WellFormedI(prog, X, D)
      A0 == Assemble(prog, src, FALSE)
      A1 == Assemble(prog, src, TRUE)
  IN
  \* C02: accepted exactly when well-formed; a rejection names a violated condition; debug symbols do not matter
  /\ (wf => A0.ok) /\ (A0.ok => WellFormedHiI(prog, X, D)) /\ A1.ok = A0.ok
  /\ ~A0.ok => A0.err.kind \in ViolatedKindsI(prog, X, D) /\ A1.err.kind = A0.err.kind /\ A1.err.spans = A0.err.spans
  \* C01: exactly the image, exactly the labels
  /\ wf => /\ ImageOfBlocks(A0.obj.blocks) = ImageSpecI(prog, X, D)
           /\ A1.obj.blocks = A0.obj.blocks
           /\ LabelAddrsOfObj(A1.obj.labels) = LabelSpecI(D)
           /\ \A k \in DOMAIN A1.obj.labels : ExtFlagOK(D, k, A1.obj.labels[k].ext)
           \* blocks are sorted, non-empty, pairwise disjoint, below xFE00
           /\ \A i \in 1..Len(A0.obj.blocks) : Len(A0.obj.blocks[i].w) > 0 /\ A0.obj.blocks[i].s + Len(A0.obj.blocks[i].w) <= 65024
           /\ \A i \in 1..(Len(A0.obj.blocks) - 1) : A0.obj.blocks[i].s + Len(A0.obj.blocks[i].w) <= A0.obj.blocks[i + 1].s
  \* C21: relocation entries; the symbol table survives iff debug or an external is declared
  /\ wf => /\ RelSpecLoI(prog, X, D) \subseteq RelOfObj(A1.obj.rel) /\ RelOfObj(A1.obj.rel) \subseteq RelSpecI(prog, X, D)
           /\ ((\E d \in D : d[3] /\ AllExtKey(D, d[1])) => A0.obj.sym) /\ (A0.obj.sym => \E d \in D : d[3])
           /\ A0.obj.sym => A0.obj.labels = A1.obj.labels /\ A0.obj.rel = A1.obj.rel
           /\ (RelSpecLoI(prog, X, D) # {}) => Unresolved(A0.obj) /\ Unresolved(A1.obj)
  \* C24: the line table, one-to-one
  /\ wf => /\ A1.obj.lines = LineSpecI(prog, X, NlIdx(src))
           /\ \A p, q \in A1.obj.lines : (p[1] = q[1] \/ p[2] = q[2]) => p = q
           /\ A0.obj.lines = {}
  \* C26: error spans: non-empty, inside the source, label errors spell an offending label
  /\ ~A0.ok => /\ Len(A0.err.spans) >= 1
               /\ \A j \in 1..Len(A0.err.spans) : 0 <= A0.err.spans[j][1] /\ A0.err.spans[j][1] <= A0.err.spans[j][2] /\ A0.err.spans[j][2] <= Len(src)
               /\ (IsLabelKind(A0.err.kind) /\ A0.err.kind # "UndetAddrLabel") => A0.err.lbl \in OffendingLabels(prog, X, D, A0.err.kind)
               /\ A0.err.kind = "UndetAddrLabel" =>
                     \E k \in 1..Len(prog) : ~OpenAt(X, k) /\ prog[k].labels # <<>>
                                             /\ A0.err.spans = [i \in 1..Len(prog[k].labels) |-> <<prog[k].labels[i].s, prog[k].labels[i].e>>]
=============================================================================
