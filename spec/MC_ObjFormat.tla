--------------------------- MODULE MC_ObjFormat ---------------------------
(* The binary object format checked inside the specification:                 *)
(*  RoundTrip  every object of a small universe (reserved words, an empty     *)
(*             block, a block at xFFFF, labels with non-ASCII names, external *)
(*             flags, source offsets up to 2^64-1, relocation entries, line   *)
(*             blocks incl. one near 2^64, sources) written in every order of *)
(*             the hash-map tables reads back as itself (C17), and is         *)
(*             recognised by WrittenFor;                                      *)
(*  Total      the reader is defined (accepts or rejects) on every input made *)
(*             of up to three chunks, cut at any length and with one byte     *)
(*             replaced, and whatever it accepts can be written again and     *)
(*             reads back equal (C19: re-serializing an accepted file).       *)
EXTENDS ObjFormat
CONSTANTS MaxChunks, Flips      \* Flips = FALSE: cut files only (the RP configuration prints each of them)

VARIABLES mode, o, b, phase
vars == <<mode, o, b, phase>>

NameA == <<65>>
NameE == <<195, 169>>          \* U+00E9
L0    == <<0, 0, 0, 0>>
L1    == <<1, 0, 0, 0>>
LBig  == <<65533, 65535, 65535, 65535>>
LMax  == <<65535, 65535, 65535, 65535>>

BlockChoices == { <<>>, (12288 :> <<4660, -1>>), (12288 :> <<4660, -1>>) @@ (65535 :> <<255>>), (0 :> <<>>) @@ (65024 :> <<-1>>) }
LabelData    == [addr : {0, 12288}, ext : BOOLEAN, src : {L0, LMax}]
LabelChoices == { <<>> } \cup { (NameA :> d) : d \in LabelData } \cup { (NameE :> d) : d \in LabelData }
                \cup { (NameA :> d) @@ (NameE :> e) : d \in LabelData, e \in [addr : {12288}, ext : BOOLEAN, src : {L1}] }
RelChoices   == { <<>>, (12288 :> NameA), (65535 :> NameE), (12288 :> NameE) @@ (65535 :> NameA) }
LineChoices  == { <<>>, (L0 :> <<12288>>), (L1 :> <<12288, 12289>>) @@ (LBig :> <<5, 6>>), (L0 :> <<>>) }
SrcChoices   == { <<>>, <<120, 10>>, <<195, 169>> }

Objects ==
  { [blocks |-> bl, sym |-> (DOMAIN lb # {} \/ dbg), labels |-> lb,
     rel |-> IF DOMAIN lb # {} \/ dbg THEN rl ELSE <<>>, dbg |-> dbg,
     lines |-> IF dbg THEN ln ELSE <<>>, src |-> IF dbg THEN sr ELSE <<>>]
    : bl \in BlockChoices, lb \in LabelChoices, rl \in RelChoices, dbg \in BOOLEAN, ln \in LineChoices, sr \in SrcChoices }

Orders(S) == { q \in [1..Cardinality(S) -> S] : \A i, j \in 1..Cardinality(S) : q[i] = q[j] => i = j }

\* chunks for the malformed-input exploration
ChunkChoices ==
  { BlockChunk(12288, <<7, -1>>), BlockChunk(65535, <<>>), <<0, 0, 48, 2, 0, 5, 1, 0, 255, 2, 0>>,
    LabelChunk(NameA, [addr |-> 12288, ext |-> FALSE, src |-> L1]),
    LabelChunk(NameE, [addr |-> 0, ext |-> TRUE, src |-> LMax]),
    LabelChunk(<<>>, [addr |-> 5, ext |-> FALSE, src |-> L0]),
    LineChunk(L0, <<12288, 12289>>), LineChunk(L1, <<12290>>), LineChunk(LMax, <<1>>), LineChunk(LBig, <<1, 2, 3>>), LineChunk(L0, <<2, 2>>),
    SrcChunk(<<120, 10>>), SrcChunk(<<>>), SrcChunk(<<195>>),
    RelChunk(12288, NameA), RelChunk(0, <<255>>),
    <<5>>, <<1, 0, 0, 0, 0, 0, 0, 0, 0, 0, 0, 0, 255, 255, 255, 255, 255, 255, 255, 127>> }
ByteChoices == {0, 1, 2, 3, 4, 255, 128}

Init == /\ mode \in {"rt", "mal"} /\ phase = "gen"
        /\ o = [blocks |-> <<>>, sym |-> FALSE, labels |-> <<>>, rel |-> <<>>, dbg |-> FALSE, lines |-> <<>>, src |-> <<>>]
        /\ b = Magic
Next ==
  \/ mode = "rt" /\ phase = "gen" /\ \E x \in Objects : o' = x /\ phase' = "chk" /\ UNCHANGED <<mode, b>>
  \/ mode = "mal" /\ phase = "gen" /\ \E n \in 0..MaxChunks : \E cs \in [1..n -> ChunkChoices] :
        b' = Magic \o Cat(cs) /\ phase' = "cut" /\ UNCHANGED <<mode, o>>
  \/ mode = "mal" /\ phase = "cut" /\ \E n \in 0..Len(b) : b' = SubSeq(b, 1, n) /\ phase' = "flip" /\ UNCHANGED <<mode, o>>
  \/ mode = "mal" /\ phase = "flip" /\
        \/ b' = b /\ phase' = "chk" /\ UNCHANGED <<mode, o>>
        \/ Flips /\ \E i \in 1..Len(b), v \in ByteChoices : b' = [b EXCEPT ![i] = v] /\ phase' = "chk" /\ UNCHANGED <<mode, o>>
Spec == Init /\ [][Next]_vars

RoundTrip ==
  (mode = "rt" /\ phase = "chk") =>
    \A lo \in Orders(DOMAIN o.labels), ro \in Orders(DOMAIN o.rel) :
      LET w == BinWrite(o, lo, ro)  r == BinRead(w) IN
      r.ok /\ View(r.obj) = View(o) /\ WrittenFor(w, o)

Total ==
  (mode = "mal" /\ phase = "chk") =>
    LET r == BinRead(b) IN
    /\ r.ok \in BOOLEAN
    /\ r.ok => \A lo \in Orders(DOMAIN r.obj.labels), ro \in Orders(DOMAIN r.obj.rel) :
                 LET w == BinWrite(r.obj, lo, ro)  r2 == BinRead(w) IN
                 r2.ok /\ View(r2.obj) = View(r.obj)
\* RP: every cut file, for the harness to give to the real reader (`lc3v replay fmt`)
EmitCut == (mode = "mal" /\ phase = "chk") => PrintT(<<"HIST", b>>)
\* RP: one serialization of every object of the universe (the real reader must build that object from it)
EmitRt == (mode = "rt" /\ phase = "chk") =>
            PrintT(<<"HIST", BinWrite(o, CHOOSE lo \in Orders(DOMAIN o.labels) : TRUE, CHOOSE ro \in Orders(DOMAIN o.rel) : TRUE)>>)
\* non-vacuity (run by hand with each as an INVARIANT: TLC must report a violation): the exploration contains
\* accepted damaged files and rejected ones
NoAcceptedDamaged == ~(mode = "mal" /\ phase = "chk" /\ BinRead(b).ok /\ Len(b) > 40 /\ BinRead(b).obj.dbg)
NoRejected        == ~(mode = "mal" /\ phase = "chk" /\ ~BinRead(b).ok)
=============================================================================
