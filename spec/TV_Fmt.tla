------------------------------ MODULE TV_Fmt ------------------------------
(* Trace validation of the binary object format against ObjFormat.  `lc3v emit *)
(* fmt` records (1) what the real writer produced for assembled and linked      *)
(* objects together with the object's view, and (2) byte strings given to the  *)
(* real reader with its verdict, the view of what it built and what the real   *)
(* writer makes of that.  Each record is a behaviour call -> ret; on ret `why` *)
(* names the failed checks.                                                    *)
EXTENDS ObjFormat, Json, IOUtils

Rec == ndJsonDeserialize(IOEnv.TRACE)
N   == Len(Rec)

VARIABLES l, phase, why
vars == <<l, phase, why>>

Rng(s) == { s[i] : i \in 1..Len(s) }
ViewOfJson(j) ==
  [blocks |-> { <<x.s, x.w>> : x \in Rng(j.blocks) },
   sym    |-> j.sym = 1,
   labels |-> { <<x.k, x.a, x.x = 1, x.src>> : x \in Rng(j.labels) },
   rel    |-> { <<x[1], x[2]>> : x \in Rng(j.rel) },
   dbg    |-> j.dbg = 1,
   lines  |-> { <<x[1], x[2]>> : x \in Rng(j.lines) },
   src    |-> j.src]

\* the text format works on objects with plain integers (what assembling and linking produce)
T == INSTANCE TxtFormat
Small(q) == q[1] + 65536 * q[2]
TxtObjOfJson(j) ==
  LET pairs == { <<Small(x[1]), x[2]>> : x \in Rng(j.lines) }
      mapped == { p[1] : p \in pairs }
      addrOf(n) == (CHOOSE p \in pairs : p[1] = n)[2]
      starts == { n \in mapped : (n - 1) \notin mapped }
      runlen(s) == CHOOSE n \in 1..Cardinality(mapped) : (\A k \in 0..(n - 1) : (s + k) \in mapped) /\ (s + n) \notin mapped
  IN [blocks |-> [a \in { x.s : x \in Rng(j.blocks) } |-> (CHOOSE x \in Rng(j.blocks) : x.s = a).w],
      sym    |-> j.sym = 1,
      labels |-> [k \in { x.k : x \in Rng(j.labels) } |-> LET x == CHOOSE x \in Rng(j.labels) : x.k = k IN [addr |-> x.a, ext |-> x.x = 1, src |-> Small(x.src)]],
      rel    |-> [a \in { x[1] : x \in Rng(j.rel) } |-> (CHOOSE x \in Rng(j.rel) : x[1] = a)[2]],
      dbg    |-> j.dbg = 1,
      lines  |-> [s \in starts |-> [k \in 1..runlen(s) |-> addrOf(s + k - 1)]],
      src    |-> j.src]
RECURSIVE FirstDiff(_, _, _)
FirstDiff(a, b, i) == IF i > Len(a) \/ i > Len(b) THEN i ELSE IF a[i] # b[i] THEN i ELSE FirstDiff(a, b, i + 1)

FmtWhy(r) ==
  LET v == ViewOfJson(r.view) IN
  IF r.panic = 1 THEN {"panic"}
  ELSE IF r.kind = "txt" THEN
         LET o == TxtObjOfJson(r.view)
             w == T!TxtWrite(o)
             rd == T!TxtRead(r.input)
         IN \* the real writer's text is, byte for byte, the text of the specification ...
            (IF w = r.input THEN {} ELSE {"txt-written"})
            \* ... the specification's reader reads the real text back as the object ...
       \cup (IF rd.ok /\ T!View(rd.obj) = T!View(o) THEN {} ELSE {"txt-read"})
            \* ... and so does the real reader (C18)
       \cup (IF r.eq = 1 THEN {} ELSE {"txt-roundtrip"})
  ELSE IF r.kind = "txtread" THEN
         \* a text of the specification's writer through the real reader: it builds what TxtRead builds,
         \* and the real writer gives the same text back
         LET rd == T!TxtRead(r.input) IN
            (IF (r.deser = "accept") = rd.ok THEN {} ELSE {"txt-accept"})
       \cup (IF r.deser = "accept" /\ rd.ok /\ T!View(TxtObjOfJson(r.view)) # T!View(rd.obj) THEN {"txt-obj"} ELSE {})
       \cup (IF r.deser = "accept" /\ r.again # r.input THEN {"txt-rewritten"} ELSE {})
  ELSE IF r.kind = "written" THEN
         \* the real writer's bytes are a serialization of the object in the sense of the specification ...
         (IF WrittenForView(r.input, v) THEN {} ELSE {"fmt-written"})
         \* ... and the real reader gives the object back (C17)
    \cup (IF r.eq = 1 THEN {} ELSE {"fmt-roundtrip"})
  ELSE
    LET s == BinRead(r.input) IN
         \* the real reader accepts exactly what the specification accepts, and builds the same object
         (IF (r.deser = "accept") = s.ok THEN {} ELSE {"fmt-accept"})
    \cup (IF r.deser = "accept" /\ s.ok /\ View(s.obj) # v THEN {"fmt-obj"} ELSE {})
         \* what it accepted can be written again, and that is a serialization of the same object
    \cup (IF r.deser = "accept" /\ r.again_ok = 1 /\ ~WrittenForView(r.again, v) THEN {"fmt-rewritten"} ELSE {})

RecWhy(r) == IF r.ev = "Fmt" THEN FmtWhy(r) ELSE {"unknown-event"}

Init == l \in 1..N /\ phase = "call" /\ why = {}
Next == phase = "call" /\ phase' = "ret" /\ l' = l /\ why' = RecWhy(Rec[l])
Spec == Init /\ [][Next]_vars
RecOK == why = {}
=============================================================================
