------------------------------ MODULE TV_Fmt ------------------------------
(* Trace validation of the binary object format against ObjFormat.  `lc3v emit *)
(* fmt` records (1) what the real writer produced for assembled and linked      *)
(* objects together with the object's view, and (2) byte strings given to the  *)
(* real reader with its verdict, the view of what it built and what the real   *)
(* writer makes of that.  Each record is a behaviour call -> ret; on ret `why` *)
(* names the failed checks.                                                    *)
EXTENDS ObjFormat, Json, IOUtils

Rec == ndJsonDeserialize(IOEnv.TRACE)
N   == Len(Rec)

VARIABLES l, phase, why
vars == <<l, phase, why>>

Rng(s) == { s[i] : i \in 1..Len(s) }
ViewOfJson(j) ==
  [blocks |-> { <<x.s, x.w>> : x \in Rng(j.blocks) },
   sym    |-> j.sym = 1,
   labels |-> { <<x.k, x.a, x.x = 1, x.src>> : x \in Rng(j.labels) },
   rel    |-> { <<x[1], x[2]>> : x \in Rng(j.rel) },
   dbg    |-> j.dbg = 1,
   lines  |-> { <<x[1], x[2]>> : x \in Rng(j.lines) },
   src    |-> j.src]

FmtWhy(r) ==
  LET v == ViewOfJson(r.view) IN
  IF r.panic = 1 THEN {"panic"}
  ELSE IF r.kind = "written" THEN
         \* the real writer's bytes are a serialization of the object in the sense of the specification ...
         (IF WrittenForView(r.input, v) THEN {} ELSE {"fmt-written"})
         \* ... and the real reader gives the object back (C17)
    \cup (IF r.eq = 1 THEN {} ELSE {"fmt-roundtrip"})
  ELSE
    LET s == BinRead(r.input) IN
         \* the real reader accepts exactly what the specification accepts, and builds the same object
         (IF (r.deser = "accept") = s.ok THEN {} ELSE {"fmt-accept"})
    \cup (IF r.deser = "accept" /\ s.ok /\ View(s.obj) # v THEN {"fmt-obj"} ELSE {})
         \* what it accepted can be written again, and that is a serialization of the same object
    \cup (IF r.deser = "accept" /\ r.again_ok = 1 /\ ~WrittenForView(r.again, v) THEN {"fmt-rewritten"} ELSE {})

RecWhy(r) == IF r.ev = "Fmt" THEN FmtWhy(r) ELSE {"unknown-event"}

Init == l \in 1..N /\ phase = "call" /\ why = {}
Next == phase = "call" /\ phase' = "ret" /\ l' = l /\ why' = RecWhy(Rec[l])
Spec == Init /\ [][Next]_vars
RecOK == why = {}
=============================================================================
