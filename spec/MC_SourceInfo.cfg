SPECIFICATION Spec
CONSTANT MaxLen = 5
INVARIANT Prop
CHECK_DEADLOCK FALSE
