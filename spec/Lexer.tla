------------------------------- MODULE Lexer -------------------------------
(* The surface syntax of LC-3 assembly at character level (parse/lex.rs), over *)
(* source texts given as sequences of UTF-8 bytes (offsets are 0-based byte    *)
(* offsets, as the spans of the implementation).                              *)
(*                                                                            *)
(*  - Tokenize(src): spaces and tabs separate tokens, `;` starts a comment to  *)
(*    the end of the line, LF or CRLF ends a line, `:` and `,` are tokens, `"` *)
(*    starts a string literal (ScanStr), anything else is a word: a maximal    *)
(*    run of bytes that are not delimiters.  A word is classified by           *)
(*    its spelling (Classify): number, register, directive, keyword, label.    *)
(*  - NumTok: the denotation of numeric spellings (C05).                       *)
(*  - ScanStr: the string-literal scanner with escapes, closed on the same     *)
(*    line or not at all (C04).                                                *)
EXTENDS Integers, Sequences, FiniteSets

IsDigit(c)  == c >= 48 /\ c <= 57
IsHexDig(c) == IsDigit(c) \/ (c >= 65 /\ c <= 70) \/ (c >= 97 /\ c <= 102)
IsAlpha(c)  == (c >= 65 /\ c <= 90) \/ (c >= 97 /\ c <= 122)
IsWordCh(c) == IsAlpha(c) \/ IsDigit(c) \/ c = 95 \/ c >= 128      \* \w (non-ASCII bytes belong to words)
UpC(c)      == IF c >= 97 /\ c <= 122 THEN c - 32 ELSE c
UpSeq(s)    == [i \in 1..Len(s) |-> UpC(s[i])]
HexVal1(c)  == IF IsDigit(c) THEN c - 48 ELSE IF c >= 97 THEN c - 87 ELSE c - 55
From(s, k)  == SubSeq(s, k, Len(s))          \* from position k (1-based) on

\* value of a digit string, saturating far above every 16-bit range (TLC integers are 32-bit)
BIG == 1000000
RECURSIVE DecVal(_, _, _)
DecVal(s, k, acc) == IF k > Len(s) THEN acc ELSE DecVal(s, k + 1, IF acc >= BIG THEN BIG ELSE acc * 10 + (s[k] - 48))
RECURSIVE HexVal(_, _, _)
HexVal(s, k, acc) == IF k > Len(s) THEN acc ELSE HexVal(s, k + 1, IF acc >= BIG THEN BIG ELSE acc * 16 + HexVal1(s[k]))
AllDigits(s) == \A i \in 1..Len(s) : IsDigit(s[i])
AllHex(s)    == \A i \in 1..Len(s) : IsHexDig(s[i])

\* ---------------------------------------------------------------------------
\* C05: numeric spellings.  A literal is   [#] digits | [#] - digits | x hex | x - hex
\* (x in either case).  Result: [form, v]: form "U" unsigned form, "S" signed form,
\* "bad" not a literal of this grammar; v the written value (mathematical integer).
Literal(w) ==
  LET n == Len(w) IN
  IF n = 0 THEN [form |-> "bad", v |-> 0]
  ELSE LET hash == w[1] = 35
           r1 == IF hash THEN From(w, 2) ELSE w
       IN IF r1 # <<>> /\ r1[1] \in {88, 120} /\ ~hash
          THEN LET h == From(r1, 2) IN
               IF h # <<>> /\ h[1] = 45
               THEN IF Len(h) > 1 /\ AllHex(From(h, 2)) THEN [form |-> "S", v |-> 0 - HexVal(From(h, 2), 1, 0)] ELSE [form |-> "bad", v |-> 0]
               ELSE IF h # <<>> /\ AllHex(h) THEN [form |-> "U", v |-> HexVal(h, 1, 0)] ELSE [form |-> "bad", v |-> 0]
          ELSE IF r1 # <<>> /\ r1[1] = 45
               THEN IF Len(r1) > 1 /\ AllDigits(From(r1, 2)) THEN [form |-> "S", v |-> 0 - DecVal(From(r1, 2), 1, 0)] ELSE [form |-> "bad", v |-> 0]
               ELSE IF r1 # <<>> /\ AllDigits(r1) THEN [form |-> "U", v |-> DecVal(r1, 1, 0)] ELSE [form |-> "bad", v |-> 0]
\* the token: Unsigned(v) iff unsigned form and 0 <= v <= 65535; Signed(v) iff signed form and
\* -32768 <= v <= 32767; otherwise rejected
NumTok(w) ==
  LET l == Literal(w) IN
  IF l.form = "U" /\ l.v >= 0 /\ l.v <= 65535 THEN [k |-> "U", v |-> l.v]
  ELSE IF l.form = "S" /\ l.v >= -32768 /\ l.v <= 32767 THEN [k |-> "S", v |-> l.v]
  ELSE [k |-> "E", v |-> 0]
\* register spelling: R or r followed by digits; names register n iff the number is 0..7
IsRegSpelling(w) == Len(w) >= 2 /\ w[1] \in {82, 114} /\ AllDigits(From(w, 2))
RegTok(w) == LET v == DecVal(From(w, 2), 1, 0) IN IF v <= 7 THEN [k |-> "R", v |-> v] ELSE [k |-> "E", v |-> 0]

\* does the word look like a number (first characters), whatever follows
LooksNumeric(w) ==
  \/ IsDigit(w[1]) \/ w[1] = 35 \/ w[1] = 45
  \/ w[1] \in {88, 120} /\ Len(w) >= 2 /\ (IsHexDig(w[2]) \/ w[2] = 45)

Keywords == { "ADD", "AND", "NOT", "BR", "BRP", "BRZ", "BRZP", "BRN", "BRNP", "BRNZ", "BRNZP", "JMP", "JSR", "JSRR", "LD", "LDI",
              "LDR", "LEA", "ST", "STI", "STR", "TRAP", "NOP", "RET", "RTI", "GETC", "OUT", "PUTC", "PUTS", "IN", "PUTSP", "HALT" }
KwTable ==
 << <<"ADD", <<65,68,68>>>>,
    <<"AND", <<65,78,68>>>>,
    <<"NOT", <<78,79,84>>>>,
    <<"BR", <<66,82>>>>,
    <<"BRP", <<66,82,80>>>>,
    <<"BRZ", <<66,82,90>>>>,
    <<"BRZP", <<66,82,90,80>>>>,
    <<"BRN", <<66,82,78>>>>,
    <<"BRNP", <<66,82,78,80>>>>,
    <<"BRNZ", <<66,82,78,90>>>>,
    <<"BRNZP", <<66,82,78,90,80>>>>,
    <<"JMP", <<74,77,80>>>>,
    <<"JSR", <<74,83,82>>>>,
    <<"JSRR", <<74,83,82,82>>>>,
    <<"LD", <<76,68>>>>,
    <<"LDI", <<76,68,73>>>>,
    <<"LDR", <<76,68,82>>>>,
    <<"LEA", <<76,69,65>>>>,
    <<"ST", <<83,84>>>>,
    <<"STI", <<83,84,73>>>>,
    <<"STR", <<83,84,82>>>>,
    <<"TRAP", <<84,82,65,80>>>>,
    <<"NOP", <<78,79,80>>>>,
    <<"RET", <<82,69,84>>>>,
    <<"RTI", <<82,84,73>>>>,
    <<"GETC", <<71,69,84,67>>>>,
    <<"OUT", <<79,85,84>>>>,
    <<"PUTC", <<80,85,84,67>>>>,
    <<"PUTS", <<80,85,84,83>>>>,
    <<"IN", <<73,78>>>>,
    <<"PUTSP", <<80,85,84,83,80>>>>,
    <<"HALT", <<72,65,76,84>>>> >>
KeywordOf(w) == LET u == UpSeq(w)  hits == { i \in 1..Len(KwTable) : KwTable[i][2] = u } IN
                IF hits = {} THEN "none" ELSE KwTable[CHOOSE i \in hits : TRUE][1]
DirTable ==
 << <<"orig", <<79,82,73,71>>>>,
    <<"fill", <<70,73,76,76>>>>,
    <<"blkw", <<66,76,75,87>>>>,
    <<"stringz", <<83,84,82,73,78,71,90>>>>,
    <<"end", <<69,78,68>>>>,
    <<"external", <<69,88,84,69,82,78,65,76>>>> >>
DirectiveOf(w) == LET u == UpSeq(From(w, 2))  hits == { i \in 1..Len(DirTable) : DirTable[i][2] = u } IN
                  IF hits = {} THEN "none" ELSE DirTable[CHOOSE i \in hits : TRUE][1]

\* classification of a word: [t, ...]; t in "num", "reg", "dir", "kw", "label", "bad"
Classify(w) ==
  IF w[1] = 46 THEN [t |-> "dir", name |-> DirectiveOf(w), k |-> "", v |-> 0]
  ELSE IF LooksNumeric(w) THEN LET n == NumTok(w) IN [t |-> IF n.k = "E" THEN "bad" ELSE "num", name |-> "", k |-> n.k, v |-> n.v]
  ELSE IF IsRegSpelling(w) THEN LET g == RegTok(w) IN [t |-> IF g.k = "E" THEN "bad" ELSE "reg", name |-> "", k |-> "R", v |-> g.v]
  ELSE IF (IsAlpha(w[1]) \/ w[1] = 95) /\ \A i \in 1..Len(w) : IsWordCh(w[i])
       THEN LET kw == KeywordOf(w) IN IF kw = "none" THEN [t |-> "label", name |-> "", k |-> "", v |-> 0] ELSE [t |-> "kw", name |-> kw, k |-> "", v |-> 0]
  ELSE [t |-> "bad", name |-> "", k |-> "", v |-> 0]

\* ---------------------------------------------------------------------------
\* String literals.  `at` is the 0-based offset just after the opening quote.  The literal
\* must close on the same line (a line ends at LF, or at CR LF).  Escapes: \n \r \t \\ \0 \"
\* denote one character; any other escaped character stays with its backslash.
\* Result: [ok, bytes, end]: end = offset just after the closing quote, or of the end of the line.
LineEnd(src, at) ==      \* offset of the end of the line holding `at` (before its LF / CR LF)
  LET nls == { i \in (at + 1)..Len(src) : src[i] = 10 } IN
  IF nls = {} THEN Len(src)
  ELSE LET p == CHOOSE i \in nls : \A j \in nls : i <= j IN
       IF p - 1 >= at + 1 /\ src[p - 1] = 13 THEN p - 2 ELSE p - 1
\* number of bytes of the UTF-8 character starting with byte b
Utf8Len(b) == IF b < 128 THEN 1 ELSE IF b < 224 THEN 2 ELSE IF b < 240 THEN 3 ELSE 4
RECURSIVE ScanStrR(_, _, _, _)
ScanStrR(src, at, lim, acc) ==
  IF at >= lim THEN [ok |-> FALSE, bytes |-> acc, end |-> lim]
  ELSE LET c == src[at + 1] IN
       IF c = 34 THEN [ok |-> TRUE, bytes |-> acc, end |-> at + 1]
       ELSE IF c = 92
            THEN IF at + 1 >= lim THEN [ok |-> FALSE, bytes |-> acc, end |-> lim]
                 ELSE LET e == src[at + 2]  n == Utf8Len(e) IN
                      CASE e = 110 -> ScanStrR(src, at + 2, lim, Append(acc, 10))
                        [] e = 114 -> ScanStrR(src, at + 2, lim, Append(acc, 13))
                        [] e = 116 -> ScanStrR(src, at + 2, lim, Append(acc, 9))
                        [] e = 92  -> ScanStrR(src, at + 2, lim, Append(acc, 92))
                        [] e = 48  -> ScanStrR(src, at + 2, lim, Append(acc, 0))
                        [] e = 34  -> ScanStrR(src, at + 2, lim, Append(acc, 34))
                        [] OTHER   -> ScanStrR(src, at + 1 + n, lim, acc \o <<92>> \o SubSeq(src, at + 2, at + 1 + n))
            ELSE ScanStrR(src, at + 1, lim, Append(acc, c))
ScanStr(src, at) == ScanStrR(src, at, LineEnd(src, at), <<>>)

\* UTF-8 decoding of a valid byte sequence into code points
RECURSIVE Utf8Decode(_, _, _)
Utf8Decode(b, k, acc) ==
  IF k > Len(b) THEN acc
  ELSE LET c == b[k] IN
       IF c < 128 THEN Utf8Decode(b, k + 1, Append(acc, c))
       ELSE IF c < 224 THEN Utf8Decode(b, k + 2, Append(acc, (c - 192) * 64 + (b[k + 1] - 128)))
       ELSE IF c < 240 THEN Utf8Decode(b, k + 3, Append(acc, (c - 224) * 4096 + (b[k + 1] - 128) * 64 + (b[k + 2] - 128)))
       ELSE Utf8Decode(b, k + 4, Append(acc, (c - 240) * 262144 + (b[k + 1] - 128) * 4096 + (b[k + 2] - 128) * 64 + (b[k + 3] - 128)))
Decode8(b) == Utf8Decode(b, 1, <<>>)

\* ---------------------------------------------------------------------------
\* Tokenizer.  Tokens: [t, w, s, e, ...] with t in "nl", "colon", "comma", "str", "word", "err".
IsDelim(c) == c \in {32, 9, 10, 13, 59, 58, 44, 34}
RECURSIVE WordEnd(_, _)
WordEnd(src, at) == IF at >= Len(src) \/ IsDelim(src[at + 1]) THEN at ELSE WordEnd(src, at + 1)
RECURSIVE SkipComment(_, _)
SkipComment(src, at) == IF at >= Len(src) \/ src[at + 1] = 10 THEN at ELSE SkipComment(src, at + 1)

Tok(t, w, s, e) == [t |-> t, w |-> w, s |-> s, e |-> e]
RECURSIVE TokenizeR(_, _, _)
TokenizeR(src, at, acc) ==
  IF at >= Len(src) THEN [ok |-> TRUE, toks |-> acc, errs |-> 0, erre |-> 0, kind |-> "none"]
  ELSE LET c == src[at + 1] IN
       CASE c \in {32, 9} -> TokenizeR(src, at + 1, acc)
         [] c = 10 -> TokenizeR(src, at + 1, Append(acc, Tok("nl", <<>>, at, at + 1)))
         [] c = 13 -> IF at + 1 < Len(src) /\ src[at + 2] = 10 THEN TokenizeR(src, at + 2, Append(acc, Tok("nl", <<>>, at, at + 2)))
                      ELSE [ok |-> FALSE, toks |-> acc, errs |-> at, erre |-> at + 1, kind |-> "symbol"]
         [] c = 59 -> TokenizeR(src, SkipComment(src, at), acc)
         [] c = 58 -> TokenizeR(src, at + 1, Append(acc, Tok("colon", <<>>, at, at + 1)))
         [] c = 44 -> TokenizeR(src, at + 1, Append(acc, Tok("comma", <<>>, at, at + 1)))
         [] c = 34 -> LET r == ScanStr(src, at + 1) IN
                      IF r.ok THEN TokenizeR(src, r.end, Append(acc, Tok("str", r.bytes, at, r.end)))
                      ELSE [ok |-> FALSE, toks |-> acc, errs |-> at, erre |-> r.end, kind |-> "unclosed"]
         [] OTHER -> LET e == WordEnd(src, at)  w == SubSeq(src, at + 1, e) IN
                     TokenizeR(src, e, Append(acc, Tok("word", w, at, e)))
Tokenize(src) == TokenizeR(src, 0, <<>>)
=============================================================================
