------------------------------- MODULE MC_LinkRP -------------------------------
(* MC_Link with every selection it checks printed (file and debug flag of each *)
(* operand), for the harness to assemble and link with the real crate in every *)
(* order and bracketing (`lc3v replay link`); the records are validated by     *)
(* TV_Asm.  Templates and files are shared through the OPS file.               *)
EXTENDS MC_Link, Json, IOUtils

CONSTANT MaxSel
Ops == ndJsonDeserialize(IOEnv.OPS)
BareTpl(t) == LET s == Tpl(t, 1) IN
  [labels |-> [i \in 1..Len(s.labels) |-> s.labels[i].name],
   n |-> [k |-> s.n.k, a |-> s.n.a, b |-> s.n.b, c |-> s.n.c, m |-> s.n.m, lbl |-> s.n.lbl, str |-> s.n.str]]
OpsAgree == /\ Len(Ops) = 20 + NFiles
            /\ \A t \in 1..20 : BareTpl(t) = Ops[t]
            /\ \A f \in 1..NFiles : Ops[20 + f].file = FileTs[f]
Flat(q) == IF Len(q) = 2 THEN <<q[1][1], IF q[1][2] THEN 1 ELSE 0, q[2][1], IF q[2][2] THEN 1 ELSE 0>>
           ELSE <<q[1][1], IF q[1][2] THEN 1 ELSE 0, q[2][1], IF q[2][2] THEN 1 ELSE 0, q[3][1], IF q[3][2] THEN 1 ELSE 0>>
Emit == (phase = "chk" /\ Len(sel) <= MaxSel) => (OpsAgree /\ PrintT(<<"HIST", Flat(sel)>>))
=============================================================================
