SPECIFICATION Spec
CONSTANT MaxFrag = 3
CONSTANT R0s = {10, 43585}
CONSTANT BaseRd <- BaseRdMC
INVARIANT TrapModeOK
INVARIANT EndingsAsMeant
CHECK_DEADLOCK FALSE
