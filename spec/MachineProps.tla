----------------------------- MODULE MachineProps -----------------------------
(* The properties of the simulator core, stated on a step  s --r-->  where s is the     *)
(* specification state before the step and r the observation of the step in the         *)
(* vocabulary of the harness projection (r.res, r.env, r.proj with pc, psr, regs, obs,  *)
(* memdiff, kbd, disp, icount, fno).  They are evaluated by TV_Machine on every step    *)
(* recorded from the real simulator and by MC_Machine on every step of the              *)
(* specification itself (where r is the projection of Machine!StepIn).                  *)
EXTENDS Run

B(x) == x = 1
EnvOf(e) == [lockK |-> B(e.lockK), lockD |-> B(e.lockD), ints |-> e.ints, draws |-> e.draws]
NoEnv == [lockK |-> FALSE, lockD |-> FALSE, ints |-> <<>>, draws |-> <<>>]
SeqSet(s) == { s[k] : k \in 1..Len(s) }

Clean(s) == [s EXCEPT !.dirty = <<>>]

\* every draw a timer makes in this step lies in its range
DrawsOK(s, env) == \A j \in DrawingTimers(s) :
                      env.draws[s.devs[j].slot] >= s.devs[j].lo /\ env.draws[s.devs[j].slot] <= s.devs[j].hi

\* ---- property-level statements, evaluated on every validated step ----------
\* They are written on the LOGGED data (pre = previous projection = s by
\* induction, post = r.proj), independently of how StepF computes its result.

UserChecked(s) == ~Privileged(s.psr) /\ ~s.flags.ignp
ObsAddrs(p)    == { q[1] : q \in SeqSet(p.obs) }
DiffAddrs(p)   == { q[1] : q \in SeqSet(p.memdiff) }

\* C09: a step that begins in user mode with privilege checks on
Isolation(s, r) ==
  LET p == r.proj IN
  UserChecked(s) =>
    IF ~Privileged(p.psr)
    THEN \* still in user mode: nothing outside user space was read, written or fetched.  (One way to be "still" in
         \* user mode is to have entered supervisor mode and left it within the step: with the saved supervisor
         \* stack pointer set next to the PSR port, the first push of a trap or exception entry rewrites the PSR with
         \* the user-mode value just saved.  Those two pushes are what the ELSE branch allows; they are told here by
         \* the saved stack pointer of the state before.)
         /\ \A a \in ObsAddrs(p) \cup DiffAddrs(p) :
               InUser(a) \/ (a >= IO_START /\ (a = Wrap(s.ssp.v - 1) \/ a = Wrap(s.ssp.v - 2)))
         \* a rejected attempt leaves memory and devices untouched.  (Same gadget: an exception entry whose pushes
         \* land on the PSR port drops back to user mode, and its own vector read is then rejected - the pushes
         \* next to the saved stack pointer in the I/O page are not the program's doing.)
         /\ r.res \in {"AccessViolation", "PrivilegeViolation"} =>
               /\ \A a \in DiffAddrs(p) : a >= IO_START /\ (a = Wrap(s.ssp.v - 1) \/ a = Wrap(s.ssp.v - 2))
               /\ p.kbd = s.kbd /\ p.disp = s.disp
         \* no RTI executes in user mode (in strict mode a word that is not fully initialized is not
         \* decoded at all: the step stops with StrictPCCurrUninit before there is an instruction)
         /\ (InUser(s.pc) /\ Rd(s, s.pc).v = 32768 /\ ~(Strict(s) /\ ~IsInit(Rd(s, s.pc))))
               => r.res = "PrivilegeViolation"
    ELSE \* entered supervisor mode (trap, interrupt or exception entry): beyond the
         \* user-mode fetch/operand accesses only the vector entry and the two
         \* pushes on the supervisor stack are touched, and devices are untouched
         \* unless the user-mode part of the instruction legally did so
         /\ LET nu == { a \in (ObsAddrs(p) \cup DiffAddrs(p)) : ~InUser(a) }
                 vt == { a \in nu : a < 512 /\ a \notin DiffAddrs(p) /\ <<a, 1>> \in { <<q[1], q[2]>> : q \in SeqSet(p.obs) } }
             IN /\ \A a \in nu : a = Wrap(p.regs[7][1]) \/ a = Wrap(p.regs[7][1] + 1) \/ a \in vt
                /\ Cardinality(vt) <= 1
         /\ p.kbd = s.kbd

\* C27: depth = calls - returns with saturation, on successful steps
DepthOK(s, r) ==
  LET p == r.proj IN
  r.res = "ok" =>
    IF p.icount = s.icount
    THEN \* no instruction completed: interrupt or real-trap exception entry, or a virtual halt
         \* (a virtual halt leaves PC and PSR alone; an interrupt entry raises the priority)
         p.fno = IF ~s.flags.real /\ p.psr = s.psr /\ p.pc = s.pc THEN s.fno ELSE s.fno + 1
    ELSE LET w == Rd(s, s.pc).v
             d == Decode(w)
         \* (a fetch from the I/O page reads a device register, not this word: nothing is claimed there)
         IN (d.ok /\ s.pc < IO_START) =>
            p.fno = CASE d.i.op \in {"JSR", "TRAP"} -> s.fno + 1
                      [] d.i.op = "RTI" \/ (d.i.op = "JMP" /\ d.i.a = 7) -> (IF s.fno = 0 THEN 0 ELSE s.fno - 1)
                      [] OTHER -> s.fno

\* C28: observer marks, stated on the logged marks and the logged memory diff
ObsProp(s, r) ==
  LET p == r.proj IN
  /\ \A q \in SeqSet(p.obs) : (q[2] \div 4) % 2 = 1 => (q[2] \div 2) % 2 = 1      \* MODIFIED only if WRITTEN
  /\ \A q \in SeqSet(p.memdiff) : q[1] < IO_START =>
        \E o \in SeqSet(p.obs) : o[1] = q[1] /\ (o[2] \div 2) % 2 = 1 /\ (o[2] \div 4) % 2 = 1
  /\ \A o \in SeqSet(p.obs) : (o[1] < IO_START /\ (o[2] \div 2) % 2 = 1 /\ (o[2] \div 4) % 2 = 0)
        => \A q \in SeqSet(p.memdiff) : q[1] # o[1]

\* C10: interrupts are priority-gated; the highest-priority pending request wins;
\* entry saves PSR and PC on the supervisor stack and enters supervisor mode at the
\* vector.  Stated on the requests visible at this boundary and the logged result.
PendingReqs(s, env) ==
       { <<env.ints[d.slot].vect, Min(env.ints[d.slot].prio, 7)>> :
            d \in { s.devs[j] : j \in { j \in 1..Len(s.devs) : s.devs[j].k = "intfn" /\ env.ints[s.devs[j].slot].k = 1 } } }
  \cup { <<128, 4>> : j \in { j \in 1..Len(s.devs) : s.devs[j].k = "kbd" /\ s.devs[j].ie /\ s.kbd # <<>> /\ ~env.lockK } }
  \cup { <<s.devs[j].vect, Min(s.devs[j].prio, 7)>> :
            j \in { j \in 1..Len(s.devs) : s.devs[j].k = "timer" /\ s.devs[j].en /\ s.devs[j].time = 1 } }
ExtPending(s, env) == \E j \in 1..Len(s.devs) : s.devs[j].k = "intfn" /\ env.ints[s.devs[j].slot].k = 2

IntGate(s, r) ==
  LET p    == r.proj
      env  == EnvOf(r.env)
      reqs == PendingReqs(s, env)
      mx   == IF reqs = {} THEN -1 ELSE CHOOSE m \in { q[2] : q \in reqs } : \A q \in reqs : q[2] <= m
      r6   == p.regs[7][1]
  IN IF ExtPending(s, env) THEN r.res = "Interrupt"
     ELSE IF mx > Prio(s.psr)
     THEN \* the interrupt is taken at this boundary, before any instruction executes
          r.res = "ok" =>
            /\ p.icount = s.icount
            /\ Privileged(p.psr) /\ Prio(p.psr) = mx /\ CC(p.psr) = 2
            /\ \E q \in reqs : q[2] = mx /\ p.pc = Rd(s, 256 + q[1]).v
            \* (a stack slot inside the I/O page is a device port, not memory: nothing to find there)
            /\ Wrap(r6) < IO_START =>
                 \E q \in SeqSet(p.memdiff) \cup { <<a, Rd(s, a).v, Rd(s, a).m>> : a \in {Wrap(r6), Wrap(r6 + 1)} } :
                    q[1] = Wrap(r6) /\ q[2] = s.pc
            /\ Wrap(r6 + 1) < IO_START =>
                 \E q \in SeqSet(p.memdiff) \cup { <<a, Rd(s, a).v, Rd(s, a).m>> : a \in {Wrap(r6), Wrap(r6 + 1)} } :
                    q[1] = Wrap(r6 + 1) /\ q[2] = s.psr
     ELSE \* not taken: the step is an ordinary instruction step; the priority is not raised by it
          /\ (r.res = "ok" /\ p.icount = s.icount) => (p.pc = s.pc \/ s.flags.real)
          \* ... and a TRAP keeps the priority level of its caller: a service routine called from a
          \* handler must not open the gate for requests of the handler's own level
          \* (unless the supervisor stack lies in the I/O page and the pushes themselves hit the PSR port)
          /\ (r.res = "ok" /\ p.icount = s.icount + 1 /\ s.pc < IO_START /\ Slice(Rd(s, s.pc).v, 12, 16) = 15
                /\ \A q \in SeqSet(p.obs) : ~(q[1] >= IO_START /\ (q[2] \div 2) % 2 = 1))
                => Prio(p.psr) = Prio(s.psr)

\* C14 inside the specification: from this very state, the strict and the
\* non-strict step either agree or the strict one fails with a strict error
StrictRel(s, env) ==
  LET a == StepIn(Clean([s EXCEPT !.flags.strict = FALSE]), env)
      b == StepIn(Clean([s EXCEPT !.flags.strict = TRUE]), env)
  IN \/ b.out \in StrictErrs
     \/ /\ b.out = a.out
        /\ [b.st EXCEPT !.flags.strict = FALSE] = a.st

\* ---- the device table and the internal-register map (C32), one operator per public call ---------
\* r is the call in the vocabulary of the harness: r.op, its arguments and the logged result r.res.
\* Result: [st, bad]: the state after the call and the names of what the logged result contradicts.
WP(p) == W(p[1], p[2])                     \* JSON pair [v, m] -> word
DevOf(d) == [k |-> d.k, ie |-> B(d.ie), val |-> d.val, time |-> d.time, en |-> B(d.en),
             lo |-> d.lo, hi |-> d.hi, vect |-> d.vect, prio |-> d.prio, slot |-> d.slot]
SetPortsFor(s, ports, id) ==
  [s EXCEPT !.ports = [a \in (DOMAIN @) \cup SeqSet(ports) |->
                          IF a \in SeqSet(ports) THEN id ELSE @[a]]]

DevOp(s, r) ==
  LET ok(x) == [st |-> x, bad |-> {}] IN
  CASE r.op = "mmap"   ->
         LET can == r.a >= IO_START /\ r.a \notin DOMAIN s.ireg IN
         [st |-> IF can THEN [s EXCEPT !.ireg = (r.a :> r.reg) @@ @] ELSE s,
          bad |-> IF (r.res = "ok") = can THEN {} ELSE {"res"}]
    [] r.op = "munmap" ->
         [st |-> [s EXCEPT !.ireg = [a \in (DOMAIN @) \ {r.a} |-> @[a]]],
          bad |-> IF (r.res = "ok") = (r.a \in DOMAIN s.ireg) THEN {} ELSE {"res"}]
    [] r.op = "adddev" ->
         LET can == \A a \in SeqSet(r.ports) : a >= IO_START /\ PortDev(s, a) = 0
             id  == Len(s.devs)
         IN [st |-> IF can THEN SetPortsFor([s EXCEPT !.devs = Append(@, DevOf(r.dev))], r.ports, id) ELSE s,
             bad |-> IF (IF can THEN r.res = id ELSE r.res = -1) THEN {} ELSE {"res"}]
    [] r.op = "rmem"   ->
         LET x == ReadMem(s, r.a, [priv |-> B(r.ctx.priv), strict |-> B(r.ctx.strict), fx |-> B(r.ctx.fx), track |-> B(r.ctx.track)], EnvOf(r.env))
         IN [st |-> x.st, bad |-> IF x.e = (IF r.res = "ok" THEN "none" ELSE r.res) /\ (x.e = "none" => x.w = WP(r.w)) THEN {} ELSE {"res"}]
    [] r.op = "wmem"   ->
         LET x == WriteMem(s, r.a, WP(r.w), [priv |-> B(r.ctx.priv), strict |-> B(r.ctx.strict), fx |-> B(r.ctx.fx), track |-> B(r.ctx.track)], EnvOf(r.env))
         IN [st |-> x.st, bad |-> IF x.e = (IF r.res = "ok" THEN "none" ELSE r.res) THEN {} ELSE {"res"}]
    [] r.op = "rmdev" ->
         IF r.id + 1 > Len(s.devs) THEN ok(s)
         ELSE ok([s EXCEPT !.devs[r.id + 1] = NullDev,
                           !.ports = IF r.id \in {0, 1, 2} THEN @
                                     ELSE [a \in { x \in DOMAIN @ : @[x] # r.id } |-> @[a]]])

\* ---- Simulator::reset (C30): a new machine `f` (what Simulator::new builds for the CURRENT flags); the
\* flags, the MCR handle, the internal-register map, the device table (devices io_reset: the keyboard
\* loses its interrupt-enable bit and its buffer, the display its buffer, a timer redraws its countdown)
\* and the breakpoints are kept.
\* the memory pattern of the adversarial machines of MC_Machine: word a holds a boundary address
PatBoundary == <<0, 12287, 12288, 12289, 65022, 65023, 65024, 65026, 65030, 65532, 65534, 65535>>
PatRd(b, a) == W(PatBoundary[(a % Len(PatBoundary)) + 1], IF b = 1 THEN 65535 ELSE 0)
\* fill values of the Known strategies a history may switch to (index k; 0 = the strategy of the header)
FillTab == <<4369, 8738, 0, 65535>>
InitStep == 10000000
FlagsOf(f) == [strict |-> B(f.strict), real |-> B(f.real), dbg |-> B(f.dbg), ignp |-> B(f.ignp)]
BpOf(b) == [k |-> b.k, a |-> b.a, c |-> [k |-> b.c.k, v |-> b.c.v]]
IoResetDev(d, draws) == CASE d.k = "kbd" -> [d EXCEPT !.ie = FALSE]
                          [] d.k = "timer" -> [d EXCEPT !.time = draws[d.slot]]
                          [] OTHER -> d
ResetOf(s, f, draws) ==
  [f EXCEPT !.flags = s.flags, !.dbgf = s.flags.dbg, !.mcr = s.mcr, !.ireg = s.ireg, !.ports = s.ports,
            !.devs = [j \in 1..Len(s.devs) |-> IoResetDev(s.devs[j], draws)],
            !.kbd = IF \E j \in 1..Len(s.devs) : s.devs[j].k = "kbd" THEN <<>> ELSE s.kbd,
            !.disp = IF \E j \in 1..Len(s.devs) : s.devs[j].k = "disp" THEN <<>> ELSE s.disp,
            !.memw = <<>>, !.dirty = [a \in DOMAIN s.memw |-> s.memw[a]], !.bps = s.bps]

\* ---- the observation of a specification step in the vocabulary of the harness projection (model checking)
\* the observation of a step  s --> x  in the vocabulary of the harness projection
MemDiff(s, t) == { <<a, Rd(t, a).v, Rd(t, a).m>> : a \in { a \in (DOMAIN t.memw) \cup (DOMAIN s.memw) : Rd(t, a) # Rd(s, a) } }
RECURSIVE SetToSeq(_)
SetToSeq(SS) == IF SS = {} THEN <<>> ELSE LET x == CHOOSE x \in SS : TRUE IN <<x>> \o SetToSeq(SS \ {x})
ObsvOfEnv(s, x, jenv) ==
  [res |-> x.out, env |-> jenv,
   proj |-> [pc |-> x.st.pc, psr |-> x.st.psr, regs |-> [i \in 1..8 |-> <<x.st.reg[i].v, x.st.reg[i].m>>],
             obs |-> SetToSeq({ <<a, x.st.obs[a]>> : a \in DOMAIN x.st.obs }),
             memdiff |-> SetToSeq(MemDiff(s, x.st)), kbd |-> x.st.kbd, disp |-> x.st.disp,
             icount |-> x.st.icount, fno |-> x.st.fno]]
ObsvOf(s, x) == ObsvOfEnv(s, x, [lockK |-> 0, lockD |-> 0, ints |-> <<>>, draws |-> <<>>])

\* ---- C11: contracts of the built-in OS trap routines ------------------------
\* `mark` remembers the machine just before the TRAP instruction executes.
MarkOf(s) == [reg |-> s.reg, psr |-> s.psr, pc |-> s.pc, kbd |-> s.kbd, disp |-> s.disp, memw |-> s.memw, ssp |-> s.ssp]
RdMark(s, a) == IF a \in DOMAIN s.mark.memw THEN s.mark.memw[a] ELSE BaseRd(s.base, a)

\* bytes PUTS emits for the zero-terminated string at address a (at most 300 words)
RECURSIVE PutsBytes(_, _, _)
PutsBytes(s, a, n) == LET w == RdMark(s, a).v IN
  IF w = 0 \/ n = 0 THEN <<>> ELSE <<w % 256>> \o PutsBytes(s, Wrap(a + 1), n - 1)
\* bytes PUTSP emits: low byte then high byte of each word, up to the first zero byte
RECURSIVE PutspBytes(_, _, _)
PutspBytes(s, a, n) == LET w == RdMark(s, a).v  lo == w % 256  hi == w \div 256 IN
  IF lo = 0 \/ n = 0 THEN <<>>
  ELSE IF hi = 0 THEN <<lo>>
  ELSE <<lo, hi>> \o PutspBytes(s, Wrap(a + 1), n - 1)

UserMemUnchanged(s) ==
  \A a \in (DOMAIN s.memw) \cup (DOMAIN s.mark.memw) : InUser(a) => Rd(s, a) = RdMark(s, a)
RegsUnchangedExcept(s, ex) == \A i \in 1..8 : (i - 1) \in ex \/ s.reg[i] = s.mark.reg[i]

\* `h`: the character printed by the interrupt handler of the run (-1: none).  A handler that prints through
\* the OS while a routine is interrupted must not disturb it: the output of the routine is the display
\* without the handler's own characters (the harness keeps `h` out of strings, keys and R0).
TrapContract(s, vect, prompt_addr, h) ==
  LET m == s.mark  r0 == m.reg[1].v
      sdisp == IF h < 0 THEN s.disp ELSE SelectSeq(s.disp, LAMBDA x : x # h)
  IN
  (IF \/ s.pc # Wrap(m.pc + 1) THEN {"trap-return-pc"} ELSE {})
  \cup (IF s.psr # m.psr THEN {"trap-psr"} ELSE {})            \* condition codes, privilege, priority
  \cup (IF UserMemUnchanged(s) THEN {} ELSE {"trap-user-memory"})
  \cup (IF s.ssp = m.ssp THEN {} ELSE {"trap-ssp"})
  \cup (CASE vect = 32 ->      \* GETC
               (IF m.kbd # <<>> /\ s.reg[1] = Init16(Head(m.kbd)) /\ s.kbd = Tail(m.kbd) /\ sdisp = m.disp
                   /\ RegsUnchangedExcept(s, {0}) THEN {} ELSE {"trap-getc"})
          [] vect = 33 ->      \* OUT / PUTC
               (IF sdisp = m.disp \o <<r0 % 256>> /\ s.kbd = m.kbd /\ RegsUnchangedExcept(s, {}) THEN {} ELSE {"trap-out"})
          [] vect = 34 ->      \* PUTS
               (IF sdisp = m.disp \o PutsBytes(s, r0, 300) /\ s.kbd = m.kbd /\ RegsUnchangedExcept(s, {}) THEN {} ELSE {"trap-puts"})
          [] vect = 36 ->      \* PUTSP
               (IF sdisp = m.disp \o PutspBytes(s, r0, 300) /\ s.kbd = m.kbd /\ RegsUnchangedExcept(s, {}) THEN {} ELSE {"trap-putsp"})
          [] vect = 35 ->      \* IN: prompt, echo, R0
               (IF m.kbd # <<>> /\ s.reg[1] = Init16(Head(m.kbd)) /\ s.kbd = Tail(m.kbd)
                   /\ sdisp = (m.disp \o PutsBytes(s, prompt_addr, 300)) \o <<Head(m.kbd)>>
                   /\ PutsBytes(s, prompt_addr, 300) # <<>>
                   /\ RegsUnchangedExcept(s, {0}) THEN {} ELSE {"trap-in"})
          [] OTHER -> {})

=============================================================================
