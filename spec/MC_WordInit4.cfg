SPECIFICATION Spec
CONSTANT WW = 4
INVARIANT Sound
INVARIANT FullInit
CHECK_DEADLOCK FALSE
