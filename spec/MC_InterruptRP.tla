--------------------------- MODULE MC_InterruptRP ---------------------------
(* MC_Interrupt with the placements kept, so that TLC prints every maximal    *)
(* behaviour (which request was raised at which instruction boundary) for the *)
(* harness to replay on the real simulator (`lc3v replay interrupt`).         *)
EXTENDS MC_Interrupt, TLC

VARIABLE hist
varsRP == <<st, left, prev, obsv, halted, steps, hist>>
InitRP == Init /\ hist = <<ProgPrio>>
NextRP == /\ ~halted /\ steps < 120
          /\ \E c \in Choices :
               /\ Cost(c) <= left
               /\ LET s0 == Clean(ClearObs(st))
                      x  == StepF(s0, EnvWith(c[1], c[2]))
                  IN /\ prev' = s0 /\ st' = x.st /\ halted' = (x.out = "halt")
                     /\ obsv' = ObsvOfEnv(s0, [x EXCEPT !.out = IF x.out = "halt" THEN "ok" ELSE x.out], JEnv(c[1], c[2]))
                     /\ left' = left - Cost(c) /\ steps' = steps + 1
                     \* a placement: the step (1-based) and the two requests as vector, priority (0, 0: none)
                     /\ hist' = IF Cost(c) = 0 THEN hist ELSE hist \o <<steps + 1, c[1].vect, c[1].prio, c[2].vect, c[2].prio>>
SpecRP == InitRP /\ [][NextRP]_varsRP
Emit == halted => PrintT(<<"HIST", hist>>)
=============================================================================
