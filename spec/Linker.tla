------------------------------- MODULE Linker -------------------------------
(* `ObjectFile::link` and `DebugSymbols::link` (asm.rs) on abstract object    *)
(* files (see Asm!Obj).  Total on arbitrary abstract objects, including ones  *)
(* that break the assembler's invariants (read from untrusted files).         *)
EXTENDS Asm

BlockEndW(b) == b.s + Len(b.w)          \* wide arithmetic: may exceed 65535

\* [ok, kind, blocks]
MergeBlocks(ab, bb) ==
  IF \E i \in 1..Len(ab), j \in 1..Len(bb) : ab[i].s = bb[j].s
  THEN [ok |-> FALSE, kind |-> "OverlappingBlocks", blocks |-> <<>>]
  ELSE LET all == SortBlocks(ab \o bb) IN
       IF \E i \in 1..(Len(all) - 1) : RangesOverlap(all[i].s, BlockEndW(all[i]), all[i + 1].s, BlockEndW(all[i + 1]))
       THEN [ok |-> FALSE, kind |-> "OverlappingBlocks", blocks |-> <<>>]
       ELSE [ok |-> TRUE, kind |-> "none", blocks |-> all]

\* patch the word at address a (if it lies in a block)
PatchWord(blocks, a, v) ==
  [i \in 1..Len(blocks) |->
     IF blocks[i].s <= a /\ a < BlockEndW(blocks[i]) /\
        \A j \in 1..Len(blocks) : (blocks[j].s <= a) => blocks[j].s <= blocks[i].s       \* the last block starting at or before a
     THEN [blocks[i] EXCEPT !.w[a - blocks[i].s + 1] = v]
     ELSE blocks[i]]
RECURSIVE PatchAll(_, _)
PatchAll(blocks, rs) ==      \* rs: set of <<addr, value>>
  IF rs = {} THEN blocks ELSE LET r == CHOOSE r \in rs : TRUE IN PatchAll(PatchWord(blocks, r[1], r[2]), rs \ {r})

\* merge of the label tables: [ok, labels, rel, patches]
MergeLabels(al, bl, rel, shift) ==
  LET keys == (DOMAIN al) \cup (DOMAIN bl)
      bsh(k) == [bl[k] EXCEPT !.src = @ + shift]
      clash == { k \in (DOMAIN al) \cap (DOMAIN bl) : ~al[k].ext /\ ~bl[k].ext /\ al[k].addr # bl[k].addr }
      \* labels resolved by this link: external in exactly one of the two
      res == { k \in (DOMAIN al) \cap (DOMAIN bl) : al[k].ext # bl[k].ext }
      win(k) == IF al[k].ext THEN bsh(k) ELSE al[k]
  IN IF clash # {} THEN [ok |-> FALSE, labels |-> <<>>, rel |-> <<>>, patches |-> {}]
     ELSE [ok |-> TRUE,
           labels |-> [k \in keys |-> IF k \notin DOMAIN al THEN bsh(k)
                                      ELSE IF k \in res THEN win(k) ELSE al[k]],
           rel |-> [a \in { a \in DOMAIN rel : rel[a] \notin res } |-> rel[a]],
           patches |-> { <<a, win(rel[a]).addr>> : a \in { a \in DOMAIN rel : rel[a] \in res } }]

\* [ok, kind, obj]
Link(a, b) ==
  LET mb == MergeBlocks(a.blocks, b.blocks) IN
  IF ~mb.ok THEN [ok |-> FALSE, kind |-> mb.kind, obj |-> a]
  ELSE IF a.sym /\ b.sym
  THEN LET both  == a.dbg /\ b.dbg
           shift == IF both THEN Len(a.src) + 1 ELSE 0
           lines == IF both THEN a.lines \cup { <<q[1] + CountLines(a.src), q[2]>> : q \in b.lines }
                    ELSE IF a.dbg THEN a.lines ELSE b.lines
           src   == IF both THEN (a.src \o <<10>>) \o b.src ELSE IF a.dbg THEN a.src ELSE b.src
           rel   == b.rel @@ a.rel
           ml    == MergeLabels(a.labels, b.labels, rel, shift)
       IN IF ~ml.ok THEN [ok |-> FALSE, kind |-> "OverlappingLabels", obj |-> a]
          ELSE [ok |-> TRUE, kind |-> "none",
                obj |-> Obj(PatchAll(mb.blocks, ml.patches), TRUE, ml.labels, ml.rel, a.dbg \/ b.dbg, lines, src)]
  ELSE IF a.sym THEN [ok |-> TRUE, kind |-> "none", obj |-> [a EXCEPT !.blocks = mb.blocks]]
  ELSE [ok |-> TRUE, kind |-> "none", obj |-> [b EXCEPT !.blocks = mb.blocks]]

\* C20 in its own words.
Disjoint(a, b) ==
  \A i \in 1..Len(a.blocks), j \in 1..Len(b.blocks) :
     /\ a.blocks[i].s # b.blocks[j].s
     /\ ~RangesOverlap(a.blocks[i].s, BlockEndW(a.blocks[i]), b.blocks[j].s, BlockEndW(b.blocks[j]))
LabelConflict(a, b) ==
  \E k \in (DOMAIN a.labels) \cap (DOMAIN b.labels) : ~a.labels[k].ext /\ ~b.labels[k].ext /\ a.labels[k].addr # b.labels[k].addr
\* what must not depend on order and grouping
Core(o) == [image |-> ImageOfBlocks(o.blocks), labels |-> LabelsOfObj(o.labels), rel |-> RelOfObj(o.rel)]

\* C20 in its own words, for one link of two objects that carry symbol tables
DefinedKeys(o) == { k \in DOMAIN o.labels : ~o.labels[k].ext }
AddrIn(o, k) == o.labels[k].addr
ExpLabelsOf(a, b) ==
  { <<k, IF k \in DefinedKeys(a) THEN AddrIn(a, k) ELSE IF k \in DefinedKeys(b) THEN AddrIn(b, k)
         ELSE IF k \in DOMAIN a.labels THEN AddrIn(a, k) ELSE AddrIn(b, k),
      k \notin DefinedKeys(a) /\ k \notin DefinedKeys(b)>> : k \in (DOMAIN a.labels) \cup (DOMAIN b.labels) }
AllRel(a, b) == RelOfObj(a.rel) \cup RelOfObj(b.rel)
DefAddr(a, b, k) == IF k \in DefinedKeys(a) THEN AddrIn(a, k) ELSE AddrIn(b, k)
ExpRelOf(a, b) == { e \in AllRel(a, b) : e[2] \notin DefinedKeys(a) \cup DefinedKeys(b) }
ExpImageOf(a, b) ==
  LET raw == ImageOfBlocks(a.blocks) \cup ImageOfBlocks(b.blocks)
      res == { e \in AllRel(a, b) : e[2] \in DefinedKeys(a) \cup DefinedKeys(b) }
  IN { p \in raw : \A e \in res : e[1] # p[1] } \cup { <<e[1], DefAddr(a, b, e[2])>> : e \in { e \in res : \E p \in raw : p[1] = e[1] } }


\* loading: which externals are unresolved
Unresolved(o) == o.sym /\ HasExternal(o.labels)
=============================================================================
