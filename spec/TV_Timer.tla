------------------------------ MODULE TV_Timer ------------------------------
(* Trace validation of `TimerDevice` driven directly (C34).  Each run starts  *)
(* with a `New` event (dom = "timer") and continues with TPoll / TEnable /    *)
(* TReset / TRange events.  Two things are evaluated on every event:          *)
(*  - the observer automaton of TimerProp on the logged fire / no-fire        *)
(*    sequence alone (the property's verdict);                                *)
(*  - conformance of the remaining time with Machine!PollDev, the random      *)
(*    draws being bound by the logged `remaining` and required to lie in the  *)
(*    range (reported under the names "time", "draw", "irq").                 *)
EXTENDS Machine, TimerProp, Json, IOUtils

Rec == ndJsonDeserialize(IOEnv.TRACE)
N   == Len(Rec)
NoBase(h, a) == [v |-> 0, m |-> 0]

VARIABLES l, t, c, why
vars == <<l, t, c, why>>

Dev(r) == [NullDev EXCEPT !.k = "timer", !.time = r.time, !.lo = r.lo, !.hi = r.hi,
                          !.vect = r.vect, !.prio = r.prio, !.slot = 1]
DummySt == [kbd |-> <<>>]
Env(d) == [lockK |-> FALSE, lockD |-> FALSE, ints |-> <<>>, draws |-> <<d>>]

Init == /\ l \in { k \in 1..N : Rec[k].ev = "New" }
        /\ t = Dev(Rec[l])
        /\ c = PropInit(Rec[l].lo, Rec[l].hi)
        /\ why = IF Rec[l].time >= Rec[l].lo /\ Rec[l].time <= Rec[l].hi THEN {} ELSE {"draw"}

Step(r) ==
  CASE r.ev = "TPoll" ->
         LET p == PollDev(DummySt, t, Env(r.remaining))
             o == OnPoll(c, r.fired = 1)
             drew == t.en /\ t.time = 0
         IN [t |-> p.d, c |-> o.c,
             bad |-> o.bad
                \cup (IF (p.q.k = "vec") = (r.fired = 1) THEN {} ELSE {"irq"})
                \cup (IF r.fired = 1 /\ ~(r.vect = t.vect /\ r.prio = Min(t.prio, 7)) THEN {"irq"} ELSE {})
                \cup (IF p.d.time = r.remaining THEN {} ELSE {"time"})
                \cup (IF drew /\ ~(r.remaining >= t.lo /\ r.remaining <= t.hi) THEN {"draw"} ELSE {})]
    [] r.ev = "TEnable" ->
         LET o == OnEnable(c, r.en = 1) IN [t |-> [t EXCEPT !.en = (r.en = 1)], c |-> o.c, bad |-> o.bad]
    [] r.ev = "TReset" ->
         LET o == OnReset(c) IN
         [t |-> [t EXCEPT !.time = r.remaining], c |-> o.c,
          bad |-> o.bad \cup (IF r.remaining >= t.lo /\ r.remaining <= t.hi THEN {} ELSE {"draw"})]
    [] r.ev = "TRange" ->
         LET o == OnRange(c, r.lo, r.hi) IN [t |-> [t EXCEPT !.lo = r.lo, !.hi = r.hi], c |-> o.c, bad |-> o.bad]
    [] r.ev = "End" -> [t |-> t, c |-> c, bad |-> {}]
    [] r.ev = "Panic" -> [t |-> t, c |-> c, bad |-> {"panic"}]
    [] OTHER -> [t |-> t, c |-> c, bad |-> {"unknown-event"}]

\* a rejected event does not end the run: the countdown is re-synchronised with the logged remaining
\* time and the rest of the sequence is still judged (by the observer automaton above all)
Next == /\ l + 1 <= N /\ Rec[l + 1].ev # "New"
        /\ LET r == Rec[l + 1]  x == Step(r) IN
             /\ t' = IF x.bad # {} /\ r.ev \in {"TPoll", "TReset"} THEN [x.t EXCEPT !.time = r.remaining] ELSE x.t
             /\ c' = x.c /\ why' = x.bad
        /\ l' = l + 1
Spec == Init /\ [][Next]_vars
Conforms == why = {}
=============================================================================
