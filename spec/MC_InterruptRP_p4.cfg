SPECIFICATION SpecRP
CONSTANT MaxReq = 1
CONSTANT ProgPrio = 4
CONSTANT BaseRd <- BaseRdMC
INVARIANT Gate
INVARIANT NoError
INVARIANT Transparent
INVARIANT Terminates
INVARIANT Emit
CHECK_DEADLOCK FALSE
