SPECIFICATION Spec
CONSTANT MaxLen = 6
INVARIANT Prop
CHECK_DEADLOCK FALSE
