SPECIFICATION Spec
CONSTANT Depth = 4
INVARIANT Total
INVARIANT Emit
CHECK_DEADLOCK FALSE
