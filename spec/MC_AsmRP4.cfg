SPECIFICATION Spec
CONSTANT MaxLen = 4
INVARIANT Agree
INVARIANT Emit
CHECK_DEADLOCK FALSE
