------------------------------- MODULE AsmTpl -------------------------------
(* Statement templates with synthetic source positions, shared by MC_Asm and   *)
(* MC_Link: statement k of a program occupies source line k.                   *)
EXTENDS Linker

\* statement k occupies source line k: bytes 10(k-1) .. 10(k-1)+8, LF at 10(k-1)+9
\* layout of a line:  LLL NNNNN<LF>   label at +0..+2, nucleus at +3..+8 (label operand at +5..+8)
Nuc0(k, a, b, c, m) == [k |-> k, a |-> a, b |-> b, c |-> c, m |-> m, lbl |-> <<>>, str |-> <<>>, strb |-> <<>>, ls |-> 0, le |-> 0]
Op(n, name, base) == [n EXCEPT !.m = 2, !.lbl = name, !.ls = base + 5, !.le = base + 8]
St(pos, labels, n) == LET base == 10 * (pos - 1) IN
  [labels |-> [i \in 1..Len(labels) |-> [name |-> labels[i], s |-> base, e |-> base + Len(labels[i])]],
   n |-> IF n.m = 2 THEN Op(n, n.lbl, base) ELSE n, s |-> base + 3, e |-> base + 9]

NA == <<65>>          \* "A"
Na == <<97>>          \* "a"
NB == <<66>>          \* "B"

Templates == 1..16          \* 17..19 (further origins) are used by MC_Link only
Tpl(t, pos) ==
  CASE t = 1  -> St(pos, <<>>, Nuc0(".orig", 12288, 0, 0, 0))
    [] t = 2  -> St(pos, <<>>, Nuc0(".orig", 65023, 0, 0, 0))          \* xFDFF: one word fits
    [] t = 3  -> St(pos, <<>>, Nuc0(".orig", 65535, 0, 0, 0))          \* xFFFF
    [] t = 4  -> St(pos, <<>>, Nuc0(".orig", 12289, 0, 0, 0))          \* x3001: overlaps / touches a block at x3000
    [] t = 5  -> St(pos, <<>>, Nuc0(".end", 0, 0, 0, 0))
    [] t = 6  -> St(pos, <<>>, Nuc0("ADD", 1, 2, 3, 0))
    [] t = 7  -> St(pos, <<NA>>, Nuc0(".fill", 5, 0, 0, 0))
    [] t = 8  -> St(pos, <<Na>>, Nuc0("ADD", 1, 1, 1, 0))              \* the same key in another spelling
    [] t = 9  -> St(pos, <<>>, [Nuc0("LD", 0, 0, 0, 2) EXCEPT !.lbl = Na])
    [] t = 10 -> St(pos, <<>>, [Nuc0(".fill", 0, 0, 0, 2) EXCEPT !.lbl = NA])
    [] t = 11 -> St(pos, <<>>, Nuc0(".blkw", 2, 0, 0, 0))
    [] t = 12 -> St(pos, <<>>, [Nuc0(".external", 0, 0, 0, 2) EXCEPT !.lbl = NA])
    [] t = 13 -> St(pos, <<>>, [Nuc0(".stringz", 0, 0, 0, 0) EXCEPT !.str = <<233>>, !.strb = <<195, 169>>])
    [] t = 14 -> St(pos, <<>>, [Nuc0("BR", 7, 0, 0, 2) EXCEPT !.lbl = NB])   \* B is never defined
    [] t = 15 -> St(pos, <<NA>>, Nuc0(".end", 0, 0, 0, 0))                    \* a label on .end
    [] t = 16 -> St(pos, <<>>, Nuc0(".blkw", 300, 0, 0, 0))                   \* pushes label operands out of range
    [] t = 17 -> St(pos, <<>>, Nuc0(".orig", 16384, 0, 0, 0))                 \* x4000
    [] t = 18 -> St(pos, <<>>, Nuc0(".orig", 12290, 0, 0, 0))                 \* x3002: touches a two-word block at x3000
    [] t = 19 -> St(pos, <<>>, Nuc0(".orig", 20480, 0, 0, 0))                 \* x5000
    [] t = 20 -> St(pos, <<>>, Nuc0(".orig", 0, 0, 0, 0))                     \* x0000: a label here coincides with an .external of its name

ProgOf(ts) == [k \in 1..Len(ts) |-> Tpl(ts[k], k)]
SrcOf(ts)  == [i \in 1..(10 * Len(ts)) |-> IF i % 10 = 0 THEN 10 ELSE 65]
=============================================================================
