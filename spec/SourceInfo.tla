----------------------------- MODULE SourceInfo -----------------------------
(* Source position queries (`SourceInfo`, asm.rs) over a source text given as *)
(* a sequence of bytes (UTF-8).  Lines are separated by LF (byte 10); a CR    *)
(* before the LF is ordinary trailing whitespace.  All offsets are 0-based    *)
(* byte offsets as in the code; sequences are 1-based, so byte i is src[i+1]. *)
EXTENDS Integers, Sequences

LF == 10
\* bytes trimmed by str::trim on ASCII: space, \t, \n, \v, \f, \r
IsWs(b) == b \in {32, 9, 10, 11, 12, 13}

\* 0-based offsets of the newlines, ascending
NlIdx(src) == SelectSeq([i \in 1..Len(src) |-> i - 1], LAMBDA o : src[o + 1] = LF)

CountLines(src) == Len(NlIdx(src)) + 1

\* [s, e): line `ln` (0-based) including its newline
RawLineSpan(src, ln) ==
  LET nl == NlIdx(src) IN
  [s |-> IF ln = 0 THEN 0 ELSE nl[ln] + 1,
   e |-> IF ln < Len(nl) THEN nl[ln + 1] + 1 ELSE Len(src)]

\* Whitespace is Unicode White_Space, as `str::trim` uses it; the source is UTF-8, so a whitespace
\* character is one of the following byte sequences:  09-0D 20 | C2 85 | C2 A0 | E1 9A 80 |
\* E2 80 80-8A | E2 80 A8 | E2 80 A9 | E2 80 AF | E2 81 9F | E3 80 80
Ws1(b1) == b1 \in {9, 10, 11, 12, 13, 32}
Ws2(b1, b2) == b1 = 194 /\ b2 \in {133, 160}
Ws3(b1, b2, b3) == \/ b1 = 225 /\ b2 = 154 /\ b3 = 128
                   \/ b1 = 226 /\ b2 = 128 /\ (b3 \in 128..138 \/ b3 \in {168, 169, 175})
                   \/ b1 = 226 /\ b2 = 129 /\ b3 = 159
                   \/ b1 = 227 /\ b2 = 128 /\ b3 = 128
\* number of bytes of a whitespace character ending at offset e / starting at offset s, inside [s, e)
WsEnd(src, s, e) == IF e - s >= 1 /\ Ws1(src[e]) THEN 1
                    ELSE IF e - s >= 2 /\ Ws2(src[e - 1], src[e]) THEN 2
                    ELSE IF e - s >= 3 /\ Ws3(src[e - 2], src[e - 1], src[e]) THEN 3 ELSE 0
WsStart(src, s, e) == IF e - s >= 1 /\ Ws1(src[s + 1]) THEN 1
                      ELSE IF e - s >= 2 /\ Ws2(src[s + 1], src[s + 2]) THEN 2
                      ELSE IF e - s >= 3 /\ Ws3(src[s + 1], src[s + 2], src[s + 3]) THEN 3 ELSE 0
RECURSIVE TrimEnd(_, _, _)
TrimEnd(src, s, e) == LET n == WsEnd(src, s, e) IN IF n > 0 THEN TrimEnd(src, s, e - n) ELSE e
RECURSIVE TrimStart(_, _, _)
TrimStart(src, s, e) == LET n == WsStart(src, s, e) IN IF n > 0 THEN TrimStart(src, s + n, e) ELSE s

\* line without surrounding whitespace
LineSpan(src, ln) ==
  LET r == RawLineSpan(src, ln)
      e == TrimEnd(src, r.s, r.e)
      s == TrimStart(src, r.s, e)
  IN [s |-> s, e |-> e]
ReadLine(src, ln) == LET r == LineSpan(src, ln) IN SubSeq(src, r.s + 1, r.e)
RawLine(src, ln)  == LET r == RawLineSpan(src, ln) IN SubSeq(src, r.s + 1, r.e)

\* line number of byte offset `idx`: the number of newlines strictly before it
LineOfNl(nl, idx) == Len(SelectSeq(nl, LAMBDA o : o < idx))
LineOf(src, idx) == LineOfNl(NlIdx(src), idx)

\* (line, column): the position of any index, as the property states it: the line is
\* the one whose start lies `column` bytes before the index; past the end, the last line
PosPair(src, idx) ==
  LET last == CountLines(src) - 1
      ln   == IF idx > Len(src) THEN last ELSE LineOf(src, idx)
  IN <<ln, idx - RawLineSpan(src, ln).s>>
=============================================================================
