----------------------------- MODULE SourceInfo -----------------------------
(* Source position queries (`SourceInfo`, asm.rs) over a source text given as *)
(* a sequence of bytes (UTF-8).  Lines are separated by LF (byte 10); a CR    *)
(* before the LF is ordinary trailing whitespace.  All offsets are 0-based    *)
(* byte offsets as in the code; sequences are 1-based, so byte i is src[i+1]. *)
EXTENDS Integers, Sequences

LF == 10
\* bytes trimmed by str::trim on ASCII: space, \t, \n, \v, \f, \r
IsWs(b) == b \in {32, 9, 10, 11, 12, 13}

\* 0-based offsets of the newlines, ascending
NlIdx(src) == SelectSeq([i \in 1..Len(src) |-> i - 1], LAMBDA o : src[o + 1] = LF)

CountLines(src) == Len(NlIdx(src)) + 1

\* [s, e): line `ln` (0-based) including its newline
RawLineSpan(src, ln) ==
  LET nl == NlIdx(src) IN
  [s |-> IF ln = 0 THEN 0 ELSE nl[ln] + 1,
   e |-> IF ln < Len(nl) THEN nl[ln + 1] + 1 ELSE Len(src)]

RECURSIVE TrimEnd(_, _, _)
TrimEnd(src, s, e) == IF e > s /\ IsWs(src[e]) THEN TrimEnd(src, s, e - 1) ELSE e
RECURSIVE TrimStart(_, _, _)
TrimStart(src, s, e) == IF s < e /\ IsWs(src[s + 1]) THEN TrimStart(src, s + 1, e) ELSE s

\* line without surrounding whitespace
LineSpan(src, ln) ==
  LET r == RawLineSpan(src, ln)
      e == TrimEnd(src, r.s, r.e)
      s == TrimStart(src, r.s, e)
  IN [s |-> s, e |-> e]
ReadLine(src, ln) == LET r == LineSpan(src, ln) IN SubSeq(src, r.s + 1, r.e)
RawLine(src, ln)  == LET r == RawLineSpan(src, ln) IN SubSeq(src, r.s + 1, r.e)

\* line number of byte offset `idx`: the number of newlines strictly before it
LineOfNl(nl, idx) == Len(SelectSeq(nl, LAMBDA o : o < idx))
LineOf(src, idx) == LineOfNl(NlIdx(src), idx)

\* (line, column): the position of any index, as the property states it: the line is
\* the one whose start lies `column` bytes before the index; past the end, the last line
PosPair(src, idx) ==
  LET last == CountLines(src) - 1
      ln   == IF idx > Len(src) THEN last ELSE LineOf(src, idx)
  IN <<ln, idx - RawLineSpan(src, ln).s>>
=============================================================================
