SPECIFICATION Spec
CONSTANT MaxFrag = 1
CONSTANT R0s = {10}
CONSTANT BaseRd <- BaseRdMC
INVARIANT TrapModeOK
INVARIANT EndingsAsMeant
INVARIANT Emit
CHECK_DEADLOCK FALSE
