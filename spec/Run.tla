-------------------------------- MODULE Run --------------------------------
(* run, run_with_limit, run_while, step_over, step_out (`Simulator::run_while`  *)
(* and friends, sim.rs) and breakpoints (debug.rs), defined as what the         *)
(* property says they are: repeated single steps (Machine!StepF) up to the      *)
(* first instruction boundary where a stop condition holds.                     *)
(*                                                                              *)
(* A tripwire is a record [k, a, b]:                                            *)
(*   "run"                      never trips                                     *)
(*   "limit"  a = n, b = i0     trips when icount - i0 >= n                     *)
(*   "over"   a = depth0        after the first step, trips when depth <= depth0 *)
(*   "out"    a = depth0        after the first step, trips when depth <  depth0 *)
(*   "pcne"   a = addr          run_while(|s| s.pc != addr)                      *)
(*   "bpat"   a = n*65536+addr  never trips; inserts a PC breakpoint at addr      *)
(*                              once icount - i0 >= n (b = i0)                    *)
(* envs[i] is the environment of the i-th step of the run; envs[i].clr says     *)
(* that another thread cleared the MCR while that step was being polled.        *)
EXTENDS Machine

Cmp(c, x) == CASE c.k = "never" -> FALSE [] c.k = "lt" -> x < c.v [] c.k = "eq" -> x = c.v
               [] c.k = "le" -> x <= c.v [] c.k = "gt" -> x > c.v [] c.k = "ne" -> x # c.v
               [] c.k = "ge" -> x >= c.v [] c.k = "always" -> TRUE

\* a breakpoint is [k |-> "pc"|"reg"|"mem", a |-> addr/reg, c |-> comparator]
BpHolds(st, bp) == CASE bp.k = "pc"  -> st.pc = bp.a
                     [] bp.k = "reg" -> Cmp(bp.c, R(st, bp.a).v)
                     [] bp.k = "mem" -> Cmp(bp.c, Rd(st, bp.a).v)        \* raw memory, no I/O
BpHit(st) == \E bp \in st.bps : BpHolds(st, bp)

TripHolds(tw, st, first) ==       \* TRUE = keep running
  CASE tw.k = "run"   -> TRUE
    [] tw.k = "limit" -> (st.icount - tw.b) < tw.a
    [] tw.k = "over"  -> first \/ tw.a < st.fno
    [] tw.k = "out"   -> first \/ tw.a <= st.fno
    [] tw.k = "pcne"  -> st.pc # tw.a
    [] tw.k = "bpat"  -> TRUE

\* [st, out, n]: final state, "ok" or an error kind, number of steps taken
RECURSIVE RunLoop(_, _, _, _)
RunLoop(st0, tw, envs, i) ==
  IF ~st0.mcr THEN [st |-> [st0 EXCEPT !.pause = "MCROff"], out |-> "ok", n |-> i - 1]
  ELSE
  \* "bpat": the tripwire is handed the simulator and may edit it - here it inserts a PC breakpoint once
  \* a \div 65536 instructions have run; the breakpoint set is read after every instruction, not once per call
  LET st == IF tw.k = "bpat" /\ (st0.icount - tw.b) >= (tw.a \div 65536)
            THEN [st0 EXCEPT !.bps = @ \cup {[k |-> "pc", a |-> tw.a % 65536, c |-> [k |-> "never", v |-> 0]]}] ELSE st0 IN
  IF ~TripHolds(tw, st, i = 1) THEN [st |-> [st EXCEPT !.pause = "Tripwire"], out |-> "ok", n |-> i - 1]
  ELSE LET env == IF i <= Len(envs) THEN envs[i]        \* beyond the recorded polls: stop (reported as "nsteps")
                  ELSE [lockK |-> FALSE, lockD |-> FALSE, clr |-> TRUE,
                        ints |-> [j \in 1..8 |-> [k |-> 0, vect |-> 0, prio |-> 0]], draws |-> [j \in 1..8 |-> 1]]
           s0  == IF env.clr THEN [st EXCEPT !.mcr = FALSE] ELSE st
           x   == StepF(s0, env)
       IN IF x.out = "halt" THEN [st |-> [x.st EXCEPT !.pause = "Halt"], out |-> "ok", n |-> i]
          ELSE IF x.out # "ok" THEN [st |-> [x.st EXCEPT !.pause = "Unsuccessful"], out |-> x.out, n |-> i]
          ELSE IF BpHit(x.st) THEN [st |-> [x.st EXCEPT !.pause = "Breakpoint"], out |-> "ok", n |-> i]
          ELSE RunLoop(x.st, tw, envs, i + 1)

\* run_while: observer cleared, MCR set, loop, MCR cleared
RunWhile(st, tw, envs) ==
  LET r == RunLoop([ClearObs(st) EXCEPT !.mcr = TRUE, !.pause = "Unsuccessful"], tw, envs, 1)
  IN [st |-> [r.st EXCEPT !.mcr = FALSE], out |-> r.out, n |-> r.n]

\* the five public entry points
RunCall(st, kind, arg, envs) ==
  CASE kind = "run"       -> RunWhile(st, [k |-> "run", a |-> 0, b |-> 0], envs)
    [] kind = "limit"     -> RunWhile(st, [k |-> "limit", a |-> arg, b |-> st.icount], envs)
    [] kind = "over"      -> RunWhile(st, [k |-> "over", a |-> st.fno, b |-> 0], envs)
    [] kind = "out"       -> IF st.fno = 0 THEN [st |-> st, out |-> "ok", n |-> 0]
                             ELSE RunWhile(st, [k |-> "out", a |-> st.fno, b |-> 0], envs)
    [] kind = "pcne"      -> RunWhile(st, [k |-> "pcne", a |-> arg, b |-> 0], envs)
    [] kind = "bpat"      -> RunWhile(st, [k |-> "bpat", a |-> arg, b |-> st.icount], envs)
=============================================================================
