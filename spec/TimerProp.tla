----------------------------- MODULE TimerProp -----------------------------
(* C34 as an observer automaton over the fire / no-fire sequence of a timer.  *)
(* c = [gap, first, lo, hi, en]:                                              *)
(*   gap   polls since the last interrupt while continuously enabled with an  *)
(*         unchanged range (-1: not applicable)                               *)
(*   first polls since the timer was enabled or reset without an interrupt    *)
(*         yet (-1: not applicable)                                           *)
(*   stale the remaining time may stem from a draw under an earlier range     *)
(*         (set by a range change, cleared by the next interrupt or reset):   *)
(*         the property speaks about a timer "while its range is unchanged"   *)
(* Each operator returns [c, bad]; bad names the violated clause.  Ranges     *)
(* containing 0 are outside the property's claim (n >= 1) and are not judged. *)
EXTENDS Integers

PropInit(lo, hi) == [gap |-> -1, first |-> -1, lo |-> lo, hi |-> hi, en |-> FALSE, stale |-> FALSE]
Judged(c) == c.lo >= 1

OnPoll(c, fired) ==
  IF ~c.en THEN [c |-> c, bad |-> IF fired THEN {"fired-while-disabled"} ELSE {}]
  ELSE IF fired
  THEN [c |-> [c EXCEPT !.gap = 0, !.first = -1, !.stale = FALSE],
        bad |-> (IF Judged(c) /\ c.gap >= 0 /\ ~(c.gap >= c.lo /\ c.gap <= c.hi) THEN {"gap-out-of-range"} ELSE {})
           \cup (IF Judged(c) /\ c.first >= 0 /\ c.first > c.hi THEN {"first-too-late"} ELSE {})]
  ELSE LET g == IF c.gap >= 0 THEN c.gap + 1 ELSE -1
           f == IF c.first >= 0 THEN c.first + 1 ELSE -1
       IN [c |-> [c EXCEPT !.gap = g, !.first = f],
           bad |-> (IF Judged(c) /\ g > c.hi THEN {"gap-too-long"} ELSE {})
              \cup (IF Judged(c) /\ f > c.hi THEN {"first-too-late"} ELSE {})]

\* Only polls of the enabled timer count: a disabled timer is frozen (it "never raises one", and the
\* count of polls between two interrupts is that of the enabled timer), so a disable / enable pair
\* between two interrupts neither restarts nor shortens the count.
OnEnable(c, en) ==
  IF en = c.en THEN [c |-> c, bad |-> {}]
  ELSE IF en THEN [c |-> [c EXCEPT !.en = TRUE, !.first = IF c.gap >= 0 \/ c.first >= 0 \/ c.stale THEN @ ELSE 0], bad |-> {}]
  ELSE [c |-> [c EXCEPT !.en = FALSE], bad |-> {}]
OnReset(c) == [c |-> [c EXCEPT !.first = IF c.en THEN 0 ELSE -1, !.gap = -1, !.stale = FALSE], bad |-> {}]
OnRange(c, lo, hi) == [c |-> [c EXCEPT !.lo = lo, !.hi = hi, !.first = -1, !.gap = -1, !.stale = TRUE], bad |-> {}]
=============================================================================
