SPECIFICATION Spec
CONSTANT MaxLen = 5
INVARIANT Prop
INVARIANT Emit
CHECK_DEADLOCK FALSE
