SPECIFICATION Spec
INVARIANT RecOK
CHECK_DEADLOCK FALSE
