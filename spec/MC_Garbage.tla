------------------------------ MODULE MC_Garbage ------------------------------
(* C04 inside the specification: EVERY text made of up to Depth tokens out of  *)
(* an alphabet of 20 (mnemonics, a register, comma, colon, newline, numbers in *)
(* and out of range, a bare sign, a label, directives, a closed and an         *)
(* unclosed string literal, a comment, a non-ASCII character), separated by    *)
(* single spaces: Lexer!Tokenize and Grammar!ParseProgram are total on it;     *)
(* a lexical error has a non-empty span inside the text; an accepted text is   *)
(* read as statements whose spans are non-empty, inside the text and in source *)
(* order.  Every text is printed; `lc3v replay parse` gives it to the real     *)
(* parser, which must not panic, must report errors with one span inside the   *)
(* input, and must accept exactly what the grammar accepts, reading the same   *)
(* statements.                                                                 *)
EXTENDS Grammar, Json, IOUtils, TLC

CONSTANT Depth
Toks  == ndJsonDeserialize(IOEnv.OPS)
NToks == Len(Toks)

RECURSIVE Join(_, _)
Join(h, k) == IF k > Len(h) THEN <<>> ELSE (IF k > 1 THEN <<32>> ELSE <<>>) \o Toks[h[k]].b \o Join(h, k + 1)

VARIABLES hist
vars == <<hist>>
Init == hist = <<>>
Next == Len(hist) < Depth /\ \E k \in 1..NToks : hist' = Append(hist, k)
Spec == Init /\ [][Next]_vars

Text == Join(hist, 1)
Total ==
  LET s == Text  t == Tokenize(s)  g == ParseProgram(s) IN
  /\ t.ok \in BOOLEAN /\ g.ok \in BOOLEAN
  /\ (~t.ok => ~g.ok /\ 0 <= t.errs /\ t.errs < t.erre /\ t.erre <= Len(s))
  /\ (g.ok => \A i \in 1..Len(g.stmts) :
                 /\ 0 <= g.stmts[i].s /\ g.stmts[i].s < g.stmts[i].e /\ g.stmts[i].e <= Len(s)
                 /\ (i > 1 => g.stmts[i - 1].e <= g.stmts[i].s)
                 /\ \A j \in 1..Len(g.stmts[i].labels) :
                      LET lb == g.stmts[i].labels[j] IN 0 <= lb.s /\ lb.s < lb.e /\ lb.e <= g.stmts[i].s)
Emit == (hist # <<>>) => PrintT(<<"HIST", Text>>)
=============================================================================
