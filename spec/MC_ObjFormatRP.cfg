SPECIFICATION Spec
CONSTANT MaxChunks = 2
CONSTANT Flips = FALSE
INVARIANT RoundTrip
INVARIANT Total
INVARIANT EmitCut
CHECK_DEADLOCK FALSE
