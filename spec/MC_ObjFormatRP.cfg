SPECIFICATION Spec
CONSTANT MaxChunks = 2
CONSTANT Flips = FALSE
INVARIANT RoundTrip
INVARIANT Total
INVARIANT EmitCut
INVARIANT EmitRt
CHECK_DEADLOCK FALSE
