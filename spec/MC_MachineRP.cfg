SPECIFICATION Spec
CONSTANT Depth = 1
CONSTANT Wide = FALSE
CONSTANT BaseRd <- BaseRdMC
INVARIANT Total
INVARIANT IsolationMC
INVARIANT DepthMC
INVARIANT ObsMC
INVARIANT StrictMC
INVARIANT NoStrictOnInit
INVARIANT OneHotCC
INVARIANT CountMC
INVARIANT Emit
CHECK_DEADLOCK FALSE
INVARIANT PatternShared
