---------------------------- MODULE MC_WordInit ----------------------------
(* C15 inside the specification: at a reduced width WW, for ALL operand pairs *)
(* with ALL initialization masks and ALL completions of their unknown bits,   *)
(* every result bit reported initialized is completion-independent, and fully *)
(* initialized operands give the wrapping result, fully initialized.  The     *)
(* propagation rules are width-uniform (add/sub: all-or-nothing with the +-0   *)
(* shortcut; and: bitwise with known-zero absorption; not: mask-preserving).  *)
EXTENDS WordInit, TLC

CONSTANT WW

Vals == 0..AllW(WW)

VARIABLES op, x, y, phase
vars == <<op, x, y, phase>>

Init == /\ op \in {"add", "sub", "and", "not"}
        /\ x \in [v : Vals, m : Vals]
        /\ y \in [v : Vals, m : Vals]
        /\ phase = "gen"
Next == phase = "gen" /\ phase' = "chk" /\ UNCHANGED <<op, x, y>>
Spec == Init /\ [][Next]_vars

Plus(a, b)  == (a + b) % Pow2(WW)
Minus(a, b) == (a - b) % Pow2(WW)
AndV(a, b)  == a & b
NotV(a)     == AllW(WW) - a

Result == CASE op = "add" -> AddWW(x, y, WW) [] op = "sub" -> SubWW(x, y, WW)
            [] op = "and" -> AndWW(x, y, WW) [] op = "not" -> NotWW(x, WW)

Sound ==
  phase = "chk" =>
    CASE op = "add" -> SoundBin(Result, x, y, WW, Plus)
      [] op = "sub" -> SoundBin(Result, x, y, WW, Minus)
      [] op = "and" -> SoundBin(Result, x, y, WW, AndV)
      [] op = "not" -> SoundUn(Result, x, WW, NotV)

FullInit ==
  (phase = "chk" /\ x.m = AllW(WW) /\ (op = "not" \/ y.m = AllW(WW))) =>
    /\ Result.m = AllW(WW)
    /\ Result.v = CASE op = "add" -> Plus(x.v, y.v) [] op = "sub" -> Minus(x.v, y.v)
                    [] op = "and" -> AndV(x.v, y.v) [] op = "not" -> NotV(x.v)
=============================================================================
