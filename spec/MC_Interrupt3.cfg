SPECIFICATION Spec
CONSTANT MaxReq = 3
CONSTANT ProgPrio = 0
CONSTANT BaseRd <- BaseRdMC
INVARIANT Gate
INVARIANT NoError
INVARIANT Transparent
INVARIANT Terminates
CHECK_DEADLOCK FALSE
