----------------------------- MODULE ObjFormat -----------------------------
(* The binary object-file format (asm/encoding.rs, BinaryFormat) as a          *)
(* specification: the reader as a total function from byte strings to          *)
(* "rejected" or an object, and the writer as the set of byte strings it may   *)
(* produce for an object (the label and relocation tables are hash maps, so    *)
(* their chunks come in any order).                                            *)
(*                                                                             *)
(* File    ::= "obj!" x10 x00 x01 Chunk*                                       *)
(* Chunk   ::= x00 addr:u16 n:u16 (xFF word:u16 | x00 x00 x00 ... any non-xFF) *)
(*          |  x01 addr:u16 ext:u8 src:u64 len:u64 name:utf8[len]              *)
(*          |  x02 line:u64 n:u16 addr:u16[n]       (strictly increasing)      *)
(*          |  x03 len:u64 text:utf8[len]                                      *)
(*          |  x04 addr:u16 len:u64 name:utf8[len]                             *)
(* all integers little-endian.  64-bit quantities are kept as four 16-bit      *)
(* limbs (least significant first) so that nothing here exceeds TLC's integers.*)
(*                                                                             *)
(* Maps: a later block / label / line block / relocation entry with the same   *)
(* key replaces the earlier one; source chunks concatenate.  The symbol table  *)
(* exists iff there is a label or any debug chunk; without it the relocation   *)
(* entries are dropped.  The line blocks must not overlap, and no block may    *)
(* end beyond 2^64 - 1.                                                        *)
EXTENDS Naturals, Integers, Sequences, FiniteSets, TLC

Magic == <<111, 98, 106, 33, 16, 0, 1>>

---------------------------------------------------------------------------
\* bytes
B(b, i)    == b[i + 1]                                  \* 0-based offset i
U16(b, i)  == B(b, i) + 256 * B(b, i + 1)
Limbs(b, i) == <<U16(b, i), U16(b, i + 2), U16(b, i + 4), U16(b, i + 6)>>
Slice(b, i, n) == SubSeq(b, i + 1, i + n)

U16Bytes(v)   == <<v % 256, v \div 256>>
LimbBytes(l)  == U16Bytes(l[1]) \o U16Bytes(l[2]) \o U16Bytes(l[3]) \o U16Bytes(l[4])
LimbsOf(n)    == <<n % 65536, n \div 65536, 0, 0>>      \* n < 2^31

\* a 64-bit length that can possibly fit in what is left of the input (inputs are far below 2^30 bytes)
LSmall(l) == l[2] < 16384 /\ l[3] = 0 /\ l[4] = 0
LVal(l)   == l[1] + 65536 * l[2]
LLess(x, y) == \/ x[4] < y[4]
               \/ x[4] = y[4] /\ x[3] < y[3]
               \/ x[4] = y[4] /\ x[3] = y[3] /\ x[2] < y[2]
               \/ x[4] = y[4] /\ x[3] = y[3] /\ x[2] = y[2] /\ x[1] < y[1]
LLeq(x, y) == x = y \/ LLess(x, y)
\* x + n for 0 <= n < 65536: [ovf, v]
LAdd(x, n) ==
  LET s1 == x[1] + n            c1 == s1 \div 65536
      s2 == x[2] + c1           c2 == s2 \div 65536
      s3 == x[3] + c2           c3 == s3 \div 65536
      s4 == x[4] + c3           c4 == s4 \div 65536
  IN [ovf |-> c4 > 0, v |-> <<s1 % 65536, s2 % 65536, s3 % 65536, s4 % 65536>>]

\* well-formed UTF-8 (what String::from_utf8 accepts): no overlong forms, no surrogates, nothing above U+10FFFF
Cont(x) == x >= 128 /\ x <= 191
RECURSIVE Utf8From(_, _)
Utf8From(s, i) ==      \* i: 1-based index of the next byte
  IF i > Len(s) THEN TRUE
  ELSE LET c == s[i]  n == Len(s) IN
    IF c < 128 THEN Utf8From(s, i + 1)
    ELSE IF c >= 194 /\ c <= 223 THEN i + 1 <= n /\ Cont(s[i + 1]) /\ Utf8From(s, i + 2)
    ELSE IF c >= 224 /\ c <= 239 THEN
           /\ i + 2 <= n /\ Cont(s[i + 1]) /\ Cont(s[i + 2])
           /\ (c = 224 => s[i + 1] >= 160)
           /\ (c = 237 => s[i + 1] <= 159)
           /\ Utf8From(s, i + 3)
    ELSE IF c >= 240 /\ c <= 244 THEN
           /\ i + 3 <= n /\ Cont(s[i + 1]) /\ Cont(s[i + 2]) /\ Cont(s[i + 3])
           /\ (c = 240 => s[i + 1] >= 144)
           /\ (c = 244 => s[i + 1] <= 143)
           /\ Utf8From(s, i + 4)
    ELSE FALSE
Utf8OK(s) == Utf8From(s, 1)

---------------------------------------------------------------------------
\* the reader
Put(f, k, v) == (k :> v) @@ f
Empty == [blocks |-> <<>>, labels |-> <<>>, rel |-> <<>>, lines |-> <<>>, src |-> <<>>, dbg |-> FALSE]
\* (a function with empty domain is written <<>>)

WordAt(b, i) == IF B(b, i) = 255 THEN U16(b, i + 1) ELSE -1
StrictlyIncreasing(q) == \A k \in 1..(Len(q) - 1) : q[k] < q[k + 1]

RECURSIVE Chunks(_, _, _)
Chunks(b, i, acc) ==
  LET n == Len(b)  left == n - i  Rej == [ok |-> FALSE, acc |-> acc] IN
  IF left = 0 THEN [ok |-> TRUE, acc |-> acc]
  ELSE
    LET id == B(b, i) IN
    IF id = 0 THEN
      IF left < 5 THEN Rej
      ELSE LET addr == U16(b, i + 1)  len == U16(b, i + 3) IN
           IF left < 5 + 3 * len THEN Rej
           ELSE Chunks(b, i + 5 + 3 * len,
                       [acc EXCEPT !.blocks = Put(@, addr, [k \in 1..len |-> WordAt(b, i + 5 + 3 * (k - 1))])])
    ELSE IF id = 1 THEN
      IF left < 20 THEN Rej
      ELSE LET addr == U16(b, i + 1)  ext == B(b, i + 3) # 0  src == Limbs(b, i + 4)  ll == Limbs(b, i + 12) IN
           IF ~LSmall(ll) \/ left < 20 + LVal(ll) THEN Rej
           ELSE LET name == Slice(b, i + 20, LVal(ll)) IN
                IF ~Utf8OK(name) THEN Rej
                ELSE Chunks(b, i + 20 + LVal(ll), [acc EXCEPT !.labels = Put(@, name, [addr |-> addr, ext |-> ext, src |-> src])])
    ELSE IF id = 2 THEN
      IF left < 11 THEN Rej
      ELSE LET lno == Limbs(b, i + 1)  len == U16(b, i + 9) IN
           IF left < 11 + 2 * len THEN Rej
           ELSE LET data == [k \in 1..len |-> U16(b, i + 11 + 2 * (k - 1))] IN
                IF ~StrictlyIncreasing(data) THEN Rej
                ELSE Chunks(b, i + 11 + 2 * len, [acc EXCEPT !.lines = Put(@, lno, data), !.dbg = TRUE])
    ELSE IF id = 3 THEN
      IF left < 9 THEN Rej
      ELSE LET ll == Limbs(b, i + 1) IN
           IF ~LSmall(ll) \/ left < 9 + LVal(ll) THEN Rej
           ELSE LET t == Slice(b, i + 9, LVal(ll)) IN
                IF ~Utf8OK(t) THEN Rej
                ELSE Chunks(b, i + 9 + LVal(ll), [acc EXCEPT !.src = @ \o t, !.dbg = TRUE])
    ELSE IF id = 4 THEN
      IF left < 11 THEN Rej
      ELSE LET addr == U16(b, i + 1)  ll == Limbs(b, i + 3) IN
           IF ~LSmall(ll) \/ left < 11 + LVal(ll) THEN Rej
           ELSE LET name == Slice(b, i + 11, LVal(ll)) IN
                IF ~Utf8OK(name) THEN Rej
                ELSE Chunks(b, i + 11 + LVal(ll), [acc EXCEPT !.rel = Put(@, addr, name)])
    ELSE Rej

\* line blocks: pairwise disjoint, none ending beyond 2^64 - 1
LinesOK(lines) ==
  /\ \A x \in DOMAIN lines : ~LAdd(x, Len(lines[x])).ovf
  /\ \A x, y \in DOMAIN lines : LLess(x, y) => LLeq(LAdd(x, Len(lines[x])).v, y)

HasMagic(b) == Len(b) >= 7 /\ SubSeq(b, 1, 7) = Magic

\* [ok, obj]: the object as the reader builds it
BinRead(b) ==
  IF ~HasMagic(b) THEN [ok |-> FALSE, obj |-> Empty]
  ELSE LET c == Chunks(b, 7, Empty) IN
       IF ~c.ok \/ (c.acc.dbg /\ ~LinesOK(c.acc.lines)) THEN [ok |-> FALSE, obj |-> Empty]
       ELSE LET a == c.acc  sym == DOMAIN a.labels # {} \/ a.dbg IN
            [ok |-> TRUE,
             obj |-> [blocks |-> a.blocks, sym |-> sym, labels |-> a.labels,
                      rel |-> IF sym THEN a.rel ELSE <<>>, dbg |-> a.dbg,
                      lines |-> IF a.dbg THEN a.lines ELSE <<>>, src |-> IF a.dbg THEN a.src ELSE <<>>]]

\* what the queries of the crate show of such an object (the projection the harness logs)
LinePairs(lines) == UNION { { <<LAdd(x, k - 1).v, lines[x][k]>> : k \in 1..Len(lines[x]) } : x \in DOMAIN lines }
View(o) == [blocks |-> { <<a, o.blocks[a]>> : a \in DOMAIN o.blocks },
            sym    |-> o.sym,
            labels |-> { <<k, o.labels[k].addr, o.labels[k].ext, o.labels[k].src>> : k \in DOMAIN o.labels },
            rel    |-> { <<a, o.rel[a]>> : a \in DOMAIN o.rel },
            dbg    |-> o.dbg,
            lines  |-> LinePairs(o.lines),
            src    |-> o.src]

---------------------------------------------------------------------------
\* the writer: blocks by address, labels in any order, line blocks by line, the source, relocation entries in
\* any order.  `lo` and `ro` are sequences enumerating the label names and the relocation addresses.
RECURSIVE Cat(_)
Cat(ss) == IF ss = <<>> THEN <<>> ELSE Head(ss) \o Cat(Tail(ss))
RECURSIVE SortedU16(_)
SortedU16(S) == IF S = {} THEN <<>> ELSE LET m == CHOOSE m \in S : \A x \in S : m <= x IN <<m>> \o SortedU16(S \ {m})
RECURSIVE SortedL(_)
SortedL(S) == IF S = {} THEN <<>> ELSE LET m == CHOOSE m \in S : \A x \in S : LLeq(m, x) IN <<m>> \o SortedL(S \ {m})

WordBytes(w) == IF w < 0 THEN <<0, 0, 0>> ELSE <<255>> \o U16Bytes(w)
BlockChunk(a, ws) == <<0>> \o U16Bytes(a) \o U16Bytes(Len(ws)) \o Cat([k \in 1..Len(ws) |-> WordBytes(ws[k])])
LabelChunk(k, d)  == <<1>> \o U16Bytes(d.addr) \o <<IF d.ext THEN 1 ELSE 0>> \o LimbBytes(d.src) \o LimbBytes(LimbsOf(Len(k))) \o k
LineChunk(x, q)   == <<2>> \o LimbBytes(x) \o U16Bytes(Len(q)) \o Cat([k \in 1..Len(q) |-> U16Bytes(q[k])])
SrcChunk(t)       == <<3>> \o LimbBytes(LimbsOf(Len(t))) \o t
RelChunk(a, k)    == <<4>> \o U16Bytes(a) \o LimbBytes(LimbsOf(Len(k))) \o k

BinWrite(o, lo, ro) ==
  LET bs == SortedU16(DOMAIN o.blocks)  ls == SortedL(DOMAIN o.lines) IN
  Magic
  \o Cat([k \in 1..Len(bs) |-> BlockChunk(bs[k], o.blocks[bs[k]])])
  \o (IF o.sym
      THEN Cat([k \in 1..Len(lo) |-> LabelChunk(lo[k], o.labels[lo[k]])])
           \o (IF o.dbg THEN Cat([k \in 1..Len(ls) |-> LineChunk(ls[k], o.lines[ls[k]])]) \o SrcChunk(o.src) ELSE <<>>)
           \o Cat([k \in 1..Len(ro) |-> RelChunk(ro[k], o.rel[ro[k]])])
      ELSE <<>>)

\* the chunk identifiers of a file the reader accepts, in order
RECURSIVE ChunkIds(_, _)
ChunkIds(b, i) ==
  IF i >= Len(b) THEN <<>>
  ELSE LET id == B(b, i)
           next == CASE id = 0 -> i + 5 + 3 * U16(b, i + 3)
                     [] id = 1 -> i + 20 + LVal(Limbs(b, i + 12))
                     [] id = 2 -> i + 11 + 2 * U16(b, i + 9)
                     [] id = 3 -> i + 9 + LVal(Limbs(b, i + 1))
                     [] id = 4 -> i + 11 + LVal(Limbs(b, i + 3))
                     [] OTHER -> Len(b)
       IN <<id>> \o ChunkIds(b, next)

\* `b` is a serialization, as the writer makes them, of an object whose view is `v`: it reads back with that
\* view, no chunk is overridden by a later one (one chunk per block, label, line block and relocation entry),
\* there is one source chunk iff there are debug symbols, and the chunks come in the order of their identifiers
WrittenForView(b, v) ==
  LET r == BinRead(b)  ids == ChunkIds(b, 7)
      cnt(id) == Cardinality({ k \in 1..Len(ids) : ids[k] = id })
  IN /\ r.ok /\ View(r.obj) = v
     /\ \A k \in 1..(Len(ids) - 1) : ids[k] <= ids[k + 1]
     /\ cnt(0) = Cardinality(DOMAIN r.obj.blocks)
     /\ cnt(1) = Cardinality(DOMAIN r.obj.labels)
     /\ cnt(2) = Cardinality(DOMAIN r.obj.lines)
     /\ cnt(3) = (IF r.obj.dbg THEN 1 ELSE 0)
     /\ cnt(4) = Cardinality(DOMAIN r.obj.rel)
WrittenFor(b, o) == WrittenForView(b, View(o))
=============================================================================
