------------------------------- MODULE MC_AsmRP -------------------------------
(* MC_Asm with every program it checks printed (the sequence of template      *)
(* numbers), for the harness to assemble with the real assembler (`lc3v       *)
(* replay asm`); the records are validated by TV_Asm.  The templates are      *)
(* shared with the harness through the OPS file, which must agree with AsmTpl.*)
EXTENDS MC_Asm, Json, IOUtils

Ops == ndJsonDeserialize(IOEnv.OPS)
BareTpl(t) == LET s == Tpl(t, 1) IN
  [labels |-> [i \in 1..Len(s.labels) |-> s.labels[i].name],
   n |-> [k |-> s.n.k, a |-> s.n.a, b |-> s.n.b, c |-> s.n.c, m |-> s.n.m, lbl |-> s.n.lbl, str |-> s.n.str]]
OpsAgree == Len(Ops) = 20 /\ \A t \in 1..20 : BareTpl(t) = Ops[t]
Emit == phase = "chk" => (OpsAgree /\ PrintT(<<"HIST", ts>>))
=============================================================================
