SPECIFICATION Spec
CONSTANT MaxLen = 3
INVARIANT Agree
CHECK_DEADLOCK FALSE
