----------------------------- MODULE MC_Machine -----------------------------
(* Model checking of the simulator specification itself (adversarial small     *)
(* scope).  Initial machines: PC, registers, R6 and every memory word drawn    *)
(* from the boundary addresses x0000, x2FFF, x3000, x3001, xFDFE, xFDFF,       *)
(* xFE00, xFE02, xFE06, xFFFC, xFFFE, xFFFF; user and supervisor mode; real    *)
(* and virtual traps; strict or not; initialized or uninitialized registers    *)
(* and memory.  Before each step any word of an instruction universe (every    *)
(* addressing mode aimed up/down by 0, +-1 and the extreme offsets, jumps,     *)
(* calls, TRAP, RTI, reserved opcode, a malformed word) is placed at the PC.   *)
(* Depth steps of Machine!StepIn are explored and on every step TLC checks:    *)
(*   C16 totality (every state has an outcome; outcomes are SimErr variants),  *)
(*   C09 Isolation, C27 DepthOK, C28 ObsProp (as TV_Machine evaluates them on  *)
(*   the real simulator, here on the projection of the specification's step),  *)
(*   C14 StrictRel and "no strict error on a fully initialized machine",       *)
(*   C08 structure: one-hot condition codes, PSR bits, instruction counting.   *)
EXTENDS MachineProps, Json, IOUtils

CONSTANTS Depth, Wide

Boundary == PatBoundary
NB == Len(Boundary)
\* memory: word a holds a boundary address (so every pointer and vector leads to a boundary);
\* base 1: initialized, base 2: uninitialized
BaseRdMC(b, a) == PatRd(b, a)

\* instruction universe (encoded words)
Offs9 == {0, 1, -1, 255, -256}
Universe ==
     { Encode(I(op, 1, o, 0, 0)) : op \in {"LD", "ST", "LDI", "STI", "LEA"}, o \in Offs9 }
  \cup { Encode(I(op, 1, 2, o, 0)) : op \in {"LDR", "STR"}, o \in {0, 1, -1, 31, -32} }
  \cup { Encode(I(op, 1, 6, o, 0)) : op \in {"LDR", "STR"}, o \in {0, -1} }
  \cup { Encode(I("BR", 7, o, 0, 0)) : o \in {0, -1, 255} }
  \cup { Encode(I("JMP", r, 0, 0, 0)) : r \in {2, 7} } \cup { Encode(I("JSR", r, 0, 0, 0)) : r \in {2, 7} }
  \cup { Encode(I("JSR", o, 0, 0, 1)) : o \in {0, -1, 1023} }
  \cup { Encode(I("TRAP", v, 0, 0, 0)) : v \in {33, 37, 0, 255} }
  \cup { Encode(I("RTI", 0, 0, 0, 0)), Encode(I("ADD", 1, 2, 1, 1)), Encode(I("AND", 6, 6, 2, 0)), Encode(I("NOT", 7, 2, 0, 0)),
         53248, 49216 + 2048 }      \* xD000 reserved opcode; a JMP with bit 11 set (malformed)

Dev(k) == [k |-> k, ie |-> FALSE, val |-> 0, time |-> 0, en |-> FALSE, lo |-> 0, hi |-> 0, vect |-> 0, prio |-> 0, slot |-> 0]
Mk(pc, psr, rv, rm, r6, strict, real, base) ==
  [pc |-> pc, psr |-> psr, reg |-> [i \in 1..8 |-> IF i = 7 THEN W(r6, 65535) ELSE W(rv, rm)], ssp |-> W(12288, 65535),
   memw |-> <<>>, dirty |-> <<>>, mcr |-> TRUE, prefetch |-> FALSE, fno |-> 0, dbgf |-> FALSE, frames |-> <<>>,
   icount |-> 0, obs |-> <<>>, kbd |-> <<65, 66>>, disp |-> <<>>,
   devs |-> <<Dev("null"), Dev("kbd"), Dev("disp")>>, ports |-> (65024 :> 1) @@ (65026 :> 1) @@ (65028 :> 2) @@ (65030 :> 2),
   ireg |-> (65532 :> "PSR") @@ (65534 :> "MCR"),
   flags |-> [strict |-> strict, real |-> real, dbg |-> FALSE, ignp |-> FALSE], alloca |-> <<>>,
   srdefs |-> <<>>, base |-> base, bps |-> {}, pause |-> "Unsuccessful", devn |-> {}, drift |-> FALSE, nrej |-> 0,
   mark |-> [reg |-> <<>>, psr |-> 0, pc |-> 0, kbd |-> <<>>, disp |-> <<>>, memw |-> <<>>, ssp |-> NoW]]

VARIABLES st, prev, obsv, n
vars == <<st, prev, obsv, n>>

Init == /\ \E pc \in (IF Wide THEN {0, 12287, 12288, 65023, 65024, 65535} ELSE {12288, 65023, 65024}), psr \in {32770, 2, 33537, 32768} \cup (IF Wide THEN {7} ELSE {}),     \* incl. no condition code set (an RTI restores whatever word it pops) and all three
              rv \in (IF Wide THEN {12288, 12287, 65024, 65023, 0, 65535, 65030, 65532} ELSE {12288, 65023}),
              rm \in {65535, 0}, r6 \in (IF Wide THEN {12288, 65024, 0, 12289} ELSE {12288, 65024}), strict \in BOOLEAN, real \in BOOLEAN, base \in {1, 2} :
              st = Mk(pc, psr, rv, rm, r6, strict, real, base)
        /\ prev = st /\ obsv = [res |-> "none"] /\ n = 0

Step(w) ==
  LET s0 == Clean(ClearObs([st EXCEPT !.memw = (st.pc :> W(w, 65535)) @@ @]))     \* host poke of the instruction word
      x  == StepIn(s0, NoEnv)
  IN /\ n < Depth
     /\ prev' = s0 /\ st' = x.st /\ obsv' = ObsvOf(s0, x) /\ n' = n + 1
Next == \E w \in Universe : Step(w)
Spec == Init /\ [][Next]_vars

\* ---------------------------------------------------------------------------
Stepped == n > 0
\* C16: every step has an outcome, and it is "ok" or a SimErr variant
Total == Stepped => obsv.res \in SimErrs \cup {"ok"}
\* C09, C27, C28 as evaluated on the real simulator's projections
IsolationMC == Stepped => Isolation(prev, obsv)
DepthMC     == Stepped => DepthOK(prev, obsv)
ObsMC       == Stepped => ObsProp(prev, obsv)
\* C14: strict mode only adds uninitialized-value errors; never on a fully initialized machine
StrictMC    == Stepped => StrictRel(prev, NoEnv)
FullyInit(s) == s.base = 1 /\ (\A i \in 1..8 : s.reg[i].m = 65535) /\ s.ssp.m = 65535 /\ (\A a \in DOMAIN s.memw : s.memw[a].m = 65535)
NoStrictOnInit == (Stepped /\ FullyInit(prev)) => obsv.res \notin StrictErrs
\* C08 structure: exactly one condition code; reserved PSR bits clear unless an RTI restored them; the
\* instruction count moves by at most one and only on success
\* (an RTI restores the PSR word found on the stack as it is - whatever the program put there)
OneHotCC == (Stepped /\ CC(prev.psr) \in {1, 2, 4}) => (CC(st.psr) \in {1, 2, 4} \/ st.psr = Rd(prev, Wrap(R(prev, 6).v + 1)).v)
CountMC  == Stepped => (st.icount = prev.icount \/ (st.icount = prev.icount + 1 /\ obsv.res = "ok"))
\* RP: every one-step behaviour (initial machine, instruction word) for the harness to perform on a real simulator
PatternShared == ("OPS" \in DOMAIN IOEnv) => ndJsonDeserialize(IOEnv.OPS)[1].pattern = PatBoundary
B01(x) == IF x THEN 1 ELSE 0
Emit == (n = 1) => PrintT(<<"HIST", <<prev.pc, prev.psr, prev.reg[1].v, prev.reg[1].m, prev.reg[7].v, B01(prev.flags.strict),
                                      B01(prev.flags.real), prev.base, prev.memw[prev.pc].v>>>>)
=============================================================================
