SPECIFICATION Spec
CONSTANT MaxSel = 3
INVARIANT Prop
INVARIANT Emit
CHECK_DEADLOCK FALSE
