SPECIFICATION Spec
CONSTANT MaxChunks = 3
CONSTANT Flips = TRUE
INVARIANT RoundTrip
INVARIANT Total
CHECK_DEADLOCK FALSE
