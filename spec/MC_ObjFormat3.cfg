SPECIFICATION Spec
CONSTANT MaxChunks = 3
INVARIANT RoundTrip
INVARIANT Total
CHECK_DEADLOCK FALSE
