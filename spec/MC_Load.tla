------------------------------- MODULE MC_Load -------------------------------
(* C29 inside the specification: for every object file of one or two blocks   *)
(* from a small universe (at x0000, in user space, touching each other, ending *)
(* at xFDFF; initialized and reserved words in every arrangement of up to      *)
(* three words) loaded into a machine whose neighbouring words were or were    *)
(* not (or only partially) initialized before, Machine!LoadBlocks sets exactly the file's          *)
(* initialized words, marks its reserved words uninitialized and leaves every  *)
(* other word, the registers and the PC alone.  Every case is printed for the  *)
(* harness to perform with the real load_obj_file (`lc3v replay load`).        *)
EXTENDS Machine, TLC

Starts   == {0, 12288, 12291, 65021}
Patterns == { <<5>>, <<-1>>, <<5, -1>>, <<-1, 7>>, <<5, -1, 7>>, <<-1, -1, -1>>, <<1, 2, 3>> }
Blocks   == { [s |-> a, w |-> p] : a \in Starts, p \in Patterns }
End(b)   == b.s + Len(b.w)
Objects  == { <<b>> : b \in Blocks } \cup { <<b, c>> : b, c \in { x \in Blocks : TRUE } } 
ObjOK(o) == Len(o) = 1 \/ (o[1].s < o[2].s /\ End(o[1]) <= o[2].s)
\* the words around the blocks (one before, the blocks themselves, one after), which the host initializes first or not
Around(o) == UNION { (IF o[k].s > 0 THEN {o[k].s - 1} ELSE {}) \cup (o[k].s..End(o[k])) : k \in 1..Len(o) }

BaseRdMC(b, a) == W(0, 0)
Dev(k) == [k |-> k, ie |-> FALSE, val |-> 0, time |-> 0, en |-> FALSE, lo |-> 0, hi |-> 0, vect |-> 0, prio |-> 0, slot |-> 0]
Mk(pre, o) ==
  [pc |-> 12288, psr |-> 32770, reg |-> [i \in 1..8 |-> W(i, 65535)], ssp |-> W(12288, 65535),
   memw |-> IF pre = 0 THEN <<>> ELSE [a \in Around(o) |-> W(4369, IF pre = 1 THEN 65535 ELSE 65280)],    \* pre = 2: partially initialized words
   dirty |-> <<>>, mcr |-> FALSE, prefetch |-> FALSE, fno |-> 0, dbgf |-> FALSE, frames |-> <<>>,
   icount |-> 0, obs |-> <<>>, kbd |-> <<>>, disp |-> <<>>,
   devs |-> <<Dev("null"), Dev("kbd"), Dev("disp")>>, ports |-> (65024 :> 1) @@ (65026 :> 1) @@ (65028 :> 2) @@ (65030 :> 2),
   ireg |-> (65532 :> "PSR") @@ (65534 :> "MCR"),
   flags |-> [strict |-> FALSE, real |-> FALSE, dbg |-> FALSE, ignp |-> FALSE], alloca |-> <<>>,
   srdefs |-> <<>>, base |-> 1, bps |-> {}, pause |-> "Unsuccessful", devn |-> {}, drift |-> FALSE, nrej |-> 0,
   mark |-> [reg |-> <<>>, psr |-> 0, pc |-> 0, kbd |-> <<>>, disp |-> <<>>, memw |-> <<>>, ssp |-> NoW]]

VARIABLES pre, obj, phase
vars == <<pre, obj, phase>>
Init == pre \in 0..2 /\ obj \in { o \in Objects : ObjOK(o) } /\ phase = "load"
Next == phase = "load" /\ phase' = "chk" /\ UNCHANGED <<pre, obj>>
Spec == Init /\ [][Next]_vars

InBlock(a) == \E k \in 1..Len(obj) : a >= obj[k].s /\ a < End(obj[k])
WordOf(a)  == LET k == CHOOSE k \in 1..Len(obj) : a >= obj[k].s /\ a < End(obj[k]) IN obj[k].w[a - obj[k].s + 1]
LoadOK ==
  phase = "chk" =>
    LET s == Mk(pre, obj)  t == LoadBlocks(s, obj, 1) IN
    \* exactly the file's initialized words take their values; its reserved words are uninitialized
    /\ \A a \in Around(obj) \cup {65024, 65535} :
         IF InBlock(a) THEN (IF WordOf(a) >= 0 THEN Rd(t, a) = Init16(WordOf(a)) ELSE Rd(t, a).m = 0)
         ELSE Rd(t, a) = Rd(s, a)
    /\ \A a \in DOMAIN t.memw : InBlock(a) \/ (a \in DOMAIN s.memw /\ t.memw[a] = s.memw[a])
    \* registers, PC, PSR and the saved stack pointer are left alone
    /\ t.reg = s.reg /\ t.pc = s.pc /\ t.psr = s.psr /\ t.ssp = s.ssp
RECURSIVE Flat(_, _)
Flat(o, k) == IF k > Len(o) THEN <<>> ELSE <<o[k].s, Len(o[k].w)>> \o o[k].w \o Flat(o, k + 1)
Emit == phase = "chk" => PrintT(<<"HIST", <<pre, Len(obj)>> \o Flat(obj, 1)>>)
=============================================================================
