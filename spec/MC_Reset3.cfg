SPECIFICATION Spec
CONSTANT Depth = 3
CONSTANT BaseRd <- BaseRdMC
INVARIANT ResetOK
INVARIANT Idempotent
INVARIANT Emit
CHECK_DEADLOCK FALSE
