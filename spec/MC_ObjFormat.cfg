SPECIFICATION Spec
CONSTANT MaxChunks = 2
INVARIANT RoundTrip
INVARIANT Total
CHECK_DEADLOCK FALSE
