--------------------------- MODULE MC_SourceInfo ---------------------------
(* C25 in its own words, checked against the operators of SourceInfo for      *)
(* every byte string of length <= MaxLen over an alphabet rich in line ends   *)
(* and whitespace (letters, space, tab, CR, LF, and the two-byte NBSP), and   *)
(* every index up to length + 3.                                              *)
EXTENDS SourceInfo, FiniteSets, TLC

CONSTANT MaxLen
\* symbols: single bytes, and <<194,160>> = NBSP (a multi-byte whitespace character)
Sym == { <<97>>, <<32>>, <<9>>, <<13>>, <<10>>, <<194, 160>> }

VARIABLES src, n, phase
vars == <<src, n, phase>>

Init == src = <<>> /\ n = 0 /\ phase = "gen"
Next == \/ phase = "gen" /\ n < MaxLen /\ \E c \in Sym : src' = src \o c /\ n' = n + 1 /\ phase' = "gen"
        \/ phase = "gen" /\ phase' = "chk" /\ UNCHANGED <<src, n>>
Spec == Init /\ [][Next]_vars

Lines == CountLines(src)
Raw(i) == RawLineSpan(src, i)
\* a run of bytes that consists of whole whitespace characters only
RECURSIVE AllWs(_, _)
AllWs(s, e) == IF s >= e THEN s = e ELSE LET k == WsStart(src, s, e) IN k > 0 /\ AllWs(s + k, e)

\* RP: every string, for the harness to give to the real SourceInfo (`lc3v replay srcinfo`)
Emit == phase = "chk" => PrintT(<<"HIST", src>>)
Prop ==
  phase = "chk" =>
  \* the line count is the number of newlines plus one
  /\ Lines = Cardinality({ i \in 1..Len(src) : src[i] = LF }) + 1
  \* the raw lines tile the text; every line but the last ends in its newline and holds no other
  /\ Raw(0).s = 0 /\ Raw(Lines - 1).e = Len(src)
  /\ \A i \in 0..(Lines - 2) : Raw(i).e = Raw(i + 1).s /\ Raw(i).e > Raw(i).s /\ src[Raw(i).e] = LF
  /\ \A i \in 0..(Lines - 1) : \A k \in (Raw(i).s + 1)..(IF i < Lines - 1 THEN Raw(i).e - 1 ELSE Raw(i).e) : src[k] # LF
  \* span and text of line i: that line without surrounding whitespace
  /\ \A i \in 0..(Lines - 1) :
       LET sp == LineSpan(src, i) IN
       /\ Raw(i).s <= sp.s /\ sp.s <= sp.e /\ sp.e <= Raw(i).e
       /\ AllWs(Raw(i).s, sp.s) /\ AllWs(sp.e, Raw(i).e)
       /\ WsStart(src, sp.s, sp.e) = 0 /\ WsEnd(src, sp.s, sp.e) = 0
       /\ ReadLine(src, i) = SubSeq(src, sp.s + 1, sp.e)
  \* the position of an index: the line that holds it starts `column` bytes before it
  /\ \A idx \in 0..(Len(src) + 3) :
       LET p == PosPair(src, idx) IN
       /\ p[1] \in 0..(Lines - 1) /\ p[2] >= 0
       /\ Raw(p[1]).s + p[2] = idx
       /\ idx <= Len(src) => /\ (p[1] < Lines - 1 => idx < Raw(p[1]).e)      \* not beyond the line's own newline
                             /\ (p[1] = Lines - 1 => idx <= Len(src))
       /\ idx > Len(src) => p[1] = Lines - 1
=============================================================================
