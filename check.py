#!/usr/bin/env python3
"""check.py — single entry point of the lc3-ensemble model-based verification.

  ./check.py <Cnn> [--tier quick|thorough] [--seed N]   decide one property
  ./check.py <Cnn> --replay <file>                       re-run a recorded violation
  ./check.py build                                       build the harness only
  ./check.py selftest                                    self-tests of the machinery
  ./check.py list                                        properties with a check

Exit status: 0 property held on everything explored (KNOWN-FINDING lines allowed),
1 with a line `VIOLATION property=<id> replay=<path>` for a violation, 2 for tool
errors and timeouts (never reported as a violation).

Every property is decided by TLC evaluating the TLA+ specification in spec/ :
MC legs model-check the specification itself, TV legs validate traces / call
tables recorded from the real crate, RP legs replay TLC-generated behaviours on
the real crate and have TLC compare the outcome with its own prediction.
"""
import json, os, re, subprocess, sys, time, shutil, hashlib

ROOT = os.path.dirname(os.path.abspath(__file__))
SPEC = os.path.join(ROOT, "spec")
HARNESS = os.path.join(ROOT, "harness")
BIN = os.path.join(HARNESS, "target", "debug", "lc3v")
WORK = os.path.join(ROOT, "work")
EVID = os.path.join(ROOT, "evidence")
REPLAYS = os.path.join(ROOT, "replays")
KNOWN = os.path.join(ROOT, "known_findings.json")
TLA_CP = "/opt/veriftools/tla/tla2tools.jar:/opt/veriftools/tla/CommunityModules-deps.jar"


class ToolError(Exception):
    pass


def log(*a):
    print(*a, flush=True)


# --------------------------------------------------------------------------
# building and driving the harness

def build():
    """(Re)build the harness against /repo's current working tree."""
    t0 = time.time()
    env = dict(os.environ, CARGO_NET_OFFLINE="true")
    p = subprocess.run(["cargo", "build", "--offline", "--quiet"], cwd=HARNESS, env=env,
                       stdout=subprocess.PIPE, stderr=subprocess.STDOUT, text=True)
    if p.returncode != 0:
        sys.stderr.write(p.stdout[-6000:])
        raise ToolError("cargo build of the harness failed")
    return time.time() - t0


def lc3v(args, out, seed, tier, timeout=3600, env_extra=None):
    # args[0] is the mode ("emit" or "replay"), args[1] the domain
    """Run the harness; returns number of records written to `out`."""
    env = dict(os.environ, VERIF_SEED=str(seed), VERIF_TIER=tier)
    if env_extra:
        env.update(env_extra)
    cmd = [BIN] + args + ["--out", out, "--seed", str(seed), "--tier", tier]
    try:
        p = subprocess.run(cmd, env=env, stdout=subprocess.PIPE, stderr=subprocess.PIPE,
                           text=True, timeout=timeout)
    except subprocess.TimeoutExpired:
        raise ToolError("harness timed out: " + " ".join(cmd))
    if p.returncode != 0:
        sys.stderr.write(p.stderr[-4000:])
        raise ToolError("harness failed (%d): %s" % (p.returncode, " ".join(cmd)))
    n = 0
    with open(out, "rb") as f:
        for _ in f:
            n += 1
    return n


def lc3v_replay_parallel(domain, hist, ops, out, seed, tier, parts=8):
    """A large replay in `parts` harness processes (the behaviours are independent): the history file is cut
    into contiguous pieces, each replayed with run numbers continuing where the previous piece ends, and the
    outputs are concatenated (the `Os` record only once)."""
    lines = [l for l in open(hist).read().splitlines() if l.strip()]
    size = (len(lines) + parts - 1) // parts
    procs = []
    for k in range(parts):
        piece = lines[k * size:(k + 1) * size]
        if not piece:
            continue
        hp, op = "%s.p%d" % (hist, k), "%s.p%d" % (out, k)
        with open(hp, "w") as f:
            f.write("\n".join(piece) + "\n")
        env = dict(os.environ, VERIF_SEED=str(seed), VERIF_TIER=tier)
        cmd = [BIN, "replay", domain, "hist=" + hp, "ops=" + ops, "run0=%d" % (k * size), "--out", op, "--seed", str(seed), "--tier", tier]
        procs.append((subprocess.Popen(cmd, env=env, stdout=subprocess.DEVNULL, stderr=subprocess.PIPE, text=True), cmd, hp, op))
    n = 0
    with open(out, "w") as fo:
        for j, (pr, cmd, hp, op) in enumerate(procs):
            try:
                _, err = pr.communicate(timeout=3600)
            except subprocess.TimeoutExpired:
                pr.kill()
                raise ToolError("harness timed out: " + " ".join(cmd))
            if pr.returncode != 0:
                sys.stderr.write(err[-4000:])
                raise ToolError("harness failed (%d): %s" % (pr.returncode, " ".join(cmd)))
            with open(op) as fi:
                for i, line in enumerate(fi):
                    if j > 0 and i == 0 and '"ev":"Os"' in line:
                        continue
                    fo.write(line)
                    n += 1
            os.remove(op)
            os.remove(hp)
    return n


def read_records(path, idxs):
    """Records (1-based indices) of an NDJSON file."""
    want = set(idxs)
    got = {}
    with open(path) as f:
        for k, line in enumerate(f, 1):
            if k in want:
                got[k] = json.loads(line)
                if len(got) == len(want):
                    break
    return got


# --------------------------------------------------------------------------
# TLC

class TlcResult:
    def __init__(self):
        self.states = 0
        self.distinct = 0
        self.violations = []     # [{"inv": name, "kind": ..., "states": [ {var: text} ]}]
        self.prints = []         # lines printed by PrintT / Print
        self.completed = False
        self.out = ""
        self.wall = 0.0
        self.coverage = {}


_state_hdr = re.compile(r"^State (\d+): ")
_viol = re.compile(r"^Error: (Invariant|Action property|Temporal properties|Deadlock)(?: (\S+))? ?(.*)$")


def parse_state_block(lines):
    """Parse `/\\ var = value` lines (values may span lines) into a dict of text."""
    st, cur = {}, None
    for ln in lines:
        m = re.match(r"^/\\ (\w+) = (.*)$", ln)
        if m:
            cur = m.group(1)
            st[cur] = m.group(2)
        elif cur is not None:
            st[cur] += "\n" + ln
    return st


def run_tlc(spec, cfg, workdir, env=None, workers=4, timeout=1800, heap="8g",
            cont=True, deadlock=None, extra=None, simulate=None, depth_first=True):
    """Run TLC on spec/<spec>.tla with spec/<cfg>; returns TlcResult.
    Raises ToolError on timeouts and on TLC errors that are not property violations."""
    os.makedirs(workdir, exist_ok=True)
    md = os.path.join(workdir, "md")
    shutil.rmtree(md, ignore_errors=True)
    jto = "-Xss1g"
    if depth_first:
        jto += " -Dtlc2.tool.queue.IStateQueue=StateDeque"
    e = dict(os.environ, JAVA_TOOL_OPTIONS=jto)
    if env:
        e.update({k: str(v) for k, v in env.items()})
    cmd = ["java", "-XX:+UseParallelGC", "-Xmx" + heap, "-cp", TLA_CP, "tlc2.TLC",
           "-workers", str(workers), "-metadir", md, "-cleanup", "-noGenerateSpecTE",
           "-config", os.path.join(SPEC, cfg)]
    if cont:
        cmd.append("-continue")
    if simulate:
        cmd += ["-simulate", simulate]
    if extra:
        cmd += extra
    cmd.append(os.path.join(SPEC, spec + ".tla"))
    t0 = time.time()
    try:
        p = subprocess.run(cmd, cwd=workdir, env=e, stdout=subprocess.PIPE,
                           stderr=subprocess.STDOUT, text=True, timeout=timeout)
    except subprocess.TimeoutExpired:
        shutil.rmtree(md, ignore_errors=True)
        raise ToolError("TLC timed out after %ds on %s/%s" % (timeout, spec, cfg))
    finally:
        pass
    r = TlcResult()
    r.wall = time.time() - t0
    r.out = p.stdout
    shutil.rmtree(md, ignore_errors=True)
    lines = p.stdout.splitlines()
    i = 0
    hard_errors = []
    while i < len(lines):
        ln = lines[i]
        m = re.match(r"^(\d+) states generated, (\d+) distinct states found", ln)
        if m:
            r.states, r.distinct = int(m.group(1)), int(m.group(2))
        if ln.startswith("Model checking completed") or ln.startswith("Finished in"):
            r.completed = True
        if ln.startswith("Error: "):
            if (ln.startswith("Error: Invariant ") and (ln.rstrip().endswith("is violated.")
                                                          or ln.rstrip().endswith("is violated by the initial state:"))) \
               or ln.startswith("Error: Action property ") \
               or ln.startswith("Error: Deadlock reached") \
               or ln.startswith("Error: Temporal properties were violated"):
                name = ""
                m2 = re.match(r"^Error: (?:Invariant|Action property) (\S+) is violated", ln)
                if m2:
                    name = m2.group(1)
                elif ln.startswith("Error: Deadlock"):
                    name = "Deadlock"
                else:
                    name = "Temporal"
                # collect the behaviour
                states, j = [], i + 1
                cur = None
                if ln.rstrip().endswith("by the initial state:"):
                    cur = []
                    states.append(cur)
                while j < len(lines):
                    l2 = lines[j]
                    if _state_hdr.match(l2):
                        cur = []
                        states.append(cur)
                    elif l2.startswith("Error: ") and not l2.startswith("Error: The behavior"):
                        break
                    elif re.match(r"^\d+ states generated", l2) or l2.startswith("Model checking completed") \
                            or l2.startswith("Finished computing") or l2.startswith("Progress("):
                        break
                    elif cur is not None:
                        if l2.strip() == "" and ln.rstrip().endswith("by the initial state:") and cur:
                            break
                        cur.append(l2)
                    j += 1
                r.violations.append({"inv": name, "states": [parse_state_block(s) for s in states]})
                i = j
                continue
            elif ln.startswith("Error: The behavior up to this point"):
                pass
            else:
                hard_errors.append("\n".join(lines[i:i + 12]))
        elif ln.startswith('"') or ln.startswith("<<"):
            # a long value is pretty-printed over several lines: join up to the balancing >>
            depth = ln.count("<<") - ln.count(">>")
            j = i
            while depth > 0 and j + 1 < len(lines):
                j += 1
                ln += " " + lines[j].strip()
                depth += lines[j].count("<<") - lines[j].count(">>")
            if j > i:
                ln = re.sub(r"<<\s+", "<<", re.sub(r"\s+>>", ">>", re.sub(r"\s+", " ", ln)))
            r.prints.append(ln)
            i = j
        i += 1
    if hard_errors:
        sys.stderr.write(p.stdout[-8000:])
        raise ToolError("TLC reported an error that is not a property violation:\n" + hard_errors[0])
    if not r.completed and not r.violations:
        sys.stderr.write(p.stdout[-8000:])
        raise ToolError("TLC did not complete (exit %d)" % p.returncode)
    return r


# --------------------------------------------------------------------------
# known findings

def load_known():
    if not os.path.exists(KNOWN):
        return []
    with open(KNOWN) as f:
        return json.load(f)["findings"]


def known_for(pid):
    return [k for k in load_known() if k["property"] == pid and k["status"] == "known"]


# --------------------------------------------------------------------------
# a check run: accumulates legs, violations, evidence

class Run:
    def __init__(self, pid, tier, seed):
        self.pid, self.tier, self.seed = pid, tier, seed
        self.t0 = time.time()
        self.work = os.path.join(WORK, pid)
        shutil.rmtree(self.work, ignore_errors=True)
        os.makedirs(self.work, exist_ok=True)
        self.states = 0
        self.transitions = 0
        self.traces = 0          # implementation traces / table records accepted
        self.evaluations = 0
        self.samples = []
        self.legs = []
        self.violations = []     # [{"leg":..., "what":..., "replay": {...}}]
        self.known_hits = []
        self.drift = []
        self.assumptions = []
        self.exhaustive = False
        self.distinct_keys = set()

    # -- legs ---------------------------------------------------------------
    def emit(self, name, args, timeout=3600):
        out = os.path.join(self.work, name + ".ndjson")
        n = lc3v(args, out, self.seed, self.tier, timeout=timeout)
        return out, n

    def tlc(self, name, spec, cfg, env=None, **kw):
        r = run_tlc(spec, cfg, os.path.join(self.work, "tlc_" + name), env=env, **kw)
        self.states += r.distinct
        self.transitions += max(r.states - 0, 0)
        return r

    def rp_table_leg(self, name, mc_spec, mc_cfg, domain, ops_file, workers=8, timeout=3000):
        """RP leg for table-style domains: the inputs TLC enumerates (and checks the specification on) are given
        to the real crate by `lc3v replay <domain>` and the records validated by TV_Tables."""
        ops = os.path.join(SPEC, ops_file)
        r = self.mc_leg(name + "_mc", mc_spec, mc_cfg, env={"OPS": ops}, workers=workers, timeout=timeout)
        hist = os.path.join(self.work, name + ".hist")
        nh = 0
        with open(hist, "w") as f:
            for ln in r.prints:
                m = re.match(r'^<<"HIST", <<(.*)>>>>\s*$', ln)
                if m:
                    f.write("[" + m.group(1) + "]\n")
                    nh += 1
        if nh == 0 and r.violations:
            # the model itself already violates the property (recorded by mc_leg): there is nothing to replay
            return r, None, 0, []
        if nh == 0:
            raise ToolError("leg %s: TLC printed no behaviour" % name)
        out = os.path.join(self.work, name + ".ndjson")
        lc3v(["replay", domain, "hist=" + hist, "ops=" + ops], out, self.seed, self.tier)
        res = self.table_leg(name, ["replay", domain], workers=workers, timeout=timeout, path=out)
        self.legs[-1].update({"kind": "RP (TLC-enumerated inputs given to the implementation, then TV)", "behaviours": nh})
        return res

    def table_leg(self, name, emit_args, spec="TV_Tables", cfg="TV_Tables.cfg",
                  idx_var="i", workers=4, nontrivial=None, exhaustive=False, timeout=1800, path=None):
        """TV leg over independent call records: emit, check with TLC, report."""
        t0 = time.time()
        if path is None:
            path, n = self.emit(name, ["emit"] + emit_args)
        else:
            n = sum(1 for _ in open(path, "rb"))
        r = self.tlc(name, spec, cfg, env={"TRACE": path}, workers=workers, timeout=timeout)
        bad = sorted({int(v["states"][-1][idx_var]) for v in r.violations
                      if v["states"] and idx_var in v["states"][-1] and v["inv"] != "TableConf"})
        soft = sorted({int(v["states"][-1][idx_var]) for v in r.violations
                       if v["states"] and idx_var in v["states"][-1] and v["inv"] == "TableConf"})
        for b in soft[:5]:
            self.drift.append("leg %s record %d: result differs from the specification's rule although the "
                              "property's own predicate holds" % (name, b))
        recs = read_records(path, bad[:50] + [1, max(1, n // 2), n])
        for b in bad[:50]:
            self.violations.append({
                "leg": name, "what": "record %d of `lc3v %s` rejected by %s" % (b, " ".join(emit_args), spec),
                "replay": {"kind": "table", "leg": name, "emit": emit_args, "spec": spec, "cfg": cfg,
                           "index": b, "record": recs.get(b), "seed": self.seed, "tier": self.tier}})
        if len(bad) > 50:
            self.violations.append({"leg": name, "what": "%d further records rejected" % (len(bad) - 50),
                                    "replay": {"kind": "table", "leg": name, "emit": emit_args, "spec": spec,
                                               "cfg": cfg, "index": bad[50], "record": None,
                                               "seed": self.seed, "tier": self.tier}})
        self.traces += n - len(bad)
        self.evaluations += n
        for k in (1, max(1, n // 2), n):
            if k in recs and len(self.samples) < 12:
                self.samples.append({"leg": name, "record": k, "event": _shorten(recs[k])})
        self.legs.append({"leg": name, "kind": "TV-table", "spec": spec, "records": n, "rejected": len(bad),
                          "tlc_states": r.distinct, "tlc_wall_s": round(r.wall, 2),
                          "wall_s": round(time.time() - t0, 2), "exhaustive": exhaustive})
        return r, path, n, bad

    def trace_leg(self, name, emit_args, spec="TV_Machine", cfg="TV_Machine.cfg", verdict=None,
                  workers=8, timeout=3000, heap="12g", path=None, expect_all=True):
        """TV leg over runs: each `New` event starts a behaviour; TLC advances the
        specification along the recorded events.  A rejected event carries `why`, the
        names of the failed checks.  Names in `verdict` (None = all) decide the property;
        the others are conformance drift (reported, exit 0)."""
        t0 = time.time()
        if path is None:
            path, n = self.emit(name, ["emit"] + emit_args)
        else:
            n = sum(1 for _ in open(path, "rb"))
        r = self.tlc(name, spec, cfg, env={"TRACE": path}, workers=workers, timeout=timeout, heap=heap)
        rejected = []
        for v in r.violations:
            last = v["states"][-1] if v["states"] else {}
            if "l" not in last:
                continue
            why = set(re.findall(r'"([^"]+)"', last.get("why", "")))
            rejected.append((int(last["l"]), why))
        rejected.sort()
        nviol = 0
        recs_needed = []
        for (ln, why) in rejected:
            recs_needed.append(ln)
        recs = read_records(path, recs_needed[:400])
        runs_bad = set()
        for (ln, why) in rejected:
            rec = recs.get(ln)
            hard = why if verdict is None else (why & set(verdict))
            soft = why - hard
            runid = rec.get("run") if rec else None
            if hard:
                nviol += 1
                runs_bad.add(runid)
                # (no cap here: violations explained by known findings are filtered in finish(); a cap at
                # this point would let many known-finding hits crowd out an unexplained one)
                if nviol <= 400:
                    self.violations.append({
                        "leg": name,
                        "what": "event %d (run %s, %s) rejected by %s: %s" % (
                            ln, runid, (rec or {}).get("ev"), spec, ",".join(sorted(hard))),
                        "replay": {"kind": "trace", "leg": name, "emit": emit_args, "spec": spec, "cfg": cfg,
                                   "line": ln, "run": runid, "why": sorted(why), "hard": sorted(hard),
                                   "verdict": sorted(verdict) if verdict else None,
                                   "record": _shorten(rec, 3000) if rec else None,
                                   "seed": self.seed, "tier": self.tier}})
            elif soft:
                self.drift.append("leg %s event %d (run %s): specification and implementation differ on %s "
                                  "(not what this property constrains)" % (name, ln, runid, ",".join(sorted(soft))))
        nruns = 0
        nsteps = 0
        with open(path) as f:
            for k, line in enumerate(f, 1):
                if '"ev":"New"' in line:
                    nruns += 1
                    if len(self.samples) < 6 and nruns in (1, 2, 50):
                        try:
                            j = json.loads(line)
                            self.samples.append({"leg": name, "line": k, "run_header": {
                                kk: j[kk] for kk in ("run", "flags", "init") if kk in j}})
                        except Exception:
                            pass
                elif '"ev":"Step"' in line[:400]:
                    nsteps += 1
        consumed = r.distinct
        with open(path) as f:
            first = f.readline()
        if '"ev":"Os"' in first:
            n -= 1
        if expect_all and consumed < n and not rejected:
            self.violations.append({"leg": name, "what": "only %d of %d recorded events were consumed by %s" % (consumed, n, spec),
                                    "replay": {"kind": "trace", "leg": name, "emit": emit_args, "spec": spec, "cfg": cfg,
                                               "line": consumed + 1, "record": None, "seed": self.seed, "tier": self.tier}})
        self.traces += max(nruns - len(runs_bad), 0)
        self.evaluations += n
        self.legs.append({"leg": name, "kind": "TV-trace", "spec": spec, "events": n, "runs": nruns,
                          "events_consumed": consumed, "rejected_events": len(rejected), "verdict_violations": nviol,
                          "tlc_states": r.distinct, "tlc_wall_s": round(r.wall, 2), "wall_s": round(time.time() - t0, 2)})
        return r, path, n, rejected

    def rec_leg(self, name, emit_args, spec="TV_Asm", cfg="TV_Asm.cfg", verdict=None, workers=8,
                timeout=3000, heap="12g", path=None, min_records=1):
        """TV leg over independent scenario records (assembler, linker, formats, parser): each
        record is a behaviour call -> ret; on ret the specification's `why` holds the names of the
        failed checks.  Names in `verdict` decide the property, the others are drift."""
        t0 = time.time()
        if path is None:
            path, n = self.emit(name, ["emit"] + emit_args)
        else:
            n = sum(1 for _ in open(path, "rb"))
        if n < min_records:
            raise ToolError("leg %s: harness produced %d records" % (name, n))
        r = self.tlc(name, spec, cfg, env={"TRACE": path}, workers=workers, timeout=timeout, heap=heap, depth_first=False)
        rejected = {}
        for v in r.violations:
            last = v["states"][-1] if v["states"] else {}
            if "l" not in last:
                continue
            why = set(re.findall(r'"([^"]+)"', last.get("why", "")))
            rejected.setdefault(int(last["l"]), set()).update(why)
        recs = read_records(path, sorted(rejected)[:60] + [1, max(1, n // 2), n])
        nviol = 0
        for ln in sorted(rejected):
            why = rejected[ln]
            hard = why if verdict is None else (why & set(verdict))
            soft = why - hard
            rec = recs.get(ln)
            if hard:
                nviol += 1
                if nviol <= 20:
                    self.violations.append({
                        "leg": name,
                        "what": "record %d (%s run %s) of `lc3v %s` rejected by %s: %s" % (
                            ln, (rec or {}).get("ev"), (rec or {}).get("run"), " ".join(emit_args), spec, ",".join(sorted(hard))),
                        "replay": {"kind": "rec", "leg": name, "emit": emit_args, "spec": spec, "cfg": cfg, "line": ln,
                                   "why": sorted(why), "hard": sorted(hard), "verdict": sorted(verdict) if verdict else None,
                                   "record": _shorten(rec, 6000) if rec else None, "seed": self.seed, "tier": self.tier}})
            elif soft:
                self.drift.append("leg %s record %d: specification and implementation differ on %s (not what this "
                                  "property constrains)" % (name, ln, ",".join(sorted(soft))))
        if r.distinct < 2 * n and not rejected:
            raise ToolError("leg %s: TLC evaluated %d of %d records" % (name, r.distinct // 2, n))
        self.traces += n - nviol
        self.evaluations += n
        for k in (1, max(1, n // 2), n):
            if k in recs and len(self.samples) < 12:
                self.samples.append({"leg": name, "record": k, "event": _shorten(recs[k], 300)})
        self.legs.append({"leg": name, "kind": "TV-records", "spec": spec, "records": n, "rejected": len(rejected),
                          "verdict_violations": nviol, "tlc_states": r.distinct, "tlc_wall_s": round(r.wall, 2),
                          "wall_s": round(time.time() - t0, 2)})
        return r, path, n, rejected

    def rp_leg(self, name, mc_spec, mc_cfg, domain, ops_file, verdict, workers=8, timeout=3000, env=None,
               tv_spec="TV_Machine", tv_cfg="TV_Machine.cfg", expect_all=True, parallel=False):
        """RP leg: TLC enumerates every behaviour of a bounded model and checks the property on it (MC);
        each maximal behaviour it prints (<<"HIST", <<...>>>>) is replayed by the harness on the real
        crate, and the recorded outcomes are validated by TLC against the same operators (TV)."""
        t0 = time.time()
        ops = os.path.join(SPEC, ops_file)
        r = self.mc_leg(name + "_mc", mc_spec, mc_cfg, env=dict(env or {}, OPS=ops), workers=workers, timeout=timeout)
        hist = os.path.join(self.work, name + ".hist")
        nh = 0
        with open(hist, "w") as f:
            for ln in r.prints:
                m = re.match(r'^<<"HIST", <<(.*)>>>>\s*$', ln)
                if m:
                    f.write("[" + m.group(1) + "]\n")
                    nh += 1
        if nh == 0 and r.violations:
            # the model itself already violates the property (recorded by mc_leg): there is nothing to replay
            return r, None, 0, []
        if nh == 0:
            raise ToolError("leg %s: TLC printed no behaviour" % name)
        out = os.path.join(self.work, name + ".ndjson")
        if parallel and nh > 2000:
            n = lc3v_replay_parallel(domain, hist, ops, out, self.seed, self.tier)
        else:
            n = lc3v(["replay", domain, "hist=" + hist, "ops=" + ops], out, self.seed, self.tier)
        res = self.trace_leg(name, ["replay", domain], spec=tv_spec, cfg=tv_cfg, verdict=verdict, path=out, workers=workers,
                             expect_all=expect_all)
        self.legs[-1].update({"kind": "RP (TLC-enumerated behaviours replayed on the implementation, then TV)",
                              "behaviours": nh, "wall_s": round(time.time() - t0, 2)})
        return res

    def rp_rec_leg(self, name, mc_spec, mc_cfg, domain, ops_file, verdict, workers=8, timeout=3000, spec="TV_Asm", cfg="TV_Asm.cfg"):
        """RP leg for record-style domains: the behaviours TLC enumerates (and checks) are given to the real
        crate by `lc3v replay <domain>`, one record each, and validated like any other record leg."""
        t0 = time.time()
        ops = os.path.join(SPEC, ops_file)
        r = self.mc_leg(name + "_mc", mc_spec, mc_cfg, env={"OPS": ops}, workers=workers, timeout=timeout)
        hist = os.path.join(self.work, name + ".hist")
        nh = 0
        with open(hist, "w") as f:
            for ln in r.prints:
                m = re.match(r'^<<"HIST", <<(.*)>>>>\s*$', ln)
                if m:
                    f.write("[" + m.group(1) + "]\n")
                    nh += 1
        if nh == 0 and r.violations:
            # the model itself already violates the property (recorded by mc_leg): there is nothing to replay
            return r, None, 0, []
        if nh == 0:
            raise ToolError("leg %s: TLC printed no behaviour" % name)
        # large enumerations are validated in parts (TLC reads a whole record file into memory)
        lines = open(hist).read().splitlines()
        part = 12000
        res = None
        for k in range(0, len(lines), part):
            sub = name if len(lines) <= part else "%s_%d" % (name, k // part + 1)
            hp = os.path.join(self.work, sub + ".hist")
            if hp != hist:
                with open(hp, "w") as f:
                    f.write("\n".join(lines[k:k + part]) + "\n")
            out = os.path.join(self.work, sub + ".ndjson")
            lc3v(["replay", domain, "hist=" + hp, "ops=" + ops], out, self.seed, self.tier)
            res = self.rec_leg(sub, ["replay", domain], spec=spec, cfg=cfg, verdict=verdict, workers=workers, timeout=timeout, path=out)
            self.legs[-1].update({"kind": "RP (TLC-enumerated behaviours given to the implementation, then TV)",
                                  "behaviours": len(lines[k:k + part]), "wall_s": round(time.time() - t0, 2)})
            if hp != hist and not self.violations:
                os.remove(out)
        return res

    def mc_leg(self, name, spec, cfg, env=None, workers=8, timeout=1800, **kw):
        """MC leg: model-check the specification itself."""
        t0 = time.time()
        r = self.tlc(name, spec, cfg, env=env, workers=workers, timeout=timeout, **kw)
        for v in r.violations[:20]:
            self.violations.append({
                "leg": name, "what": "specification-level property %s violated in %s" % (v["inv"], spec),
                "replay": {"kind": "mc", "leg": name, "spec": spec, "cfg": cfg, "env": env or {},
                           "inv": v["inv"], "behaviour": v["states"][-3:], "seed": self.seed, "tier": self.tier}})
        self.legs.append({"leg": name, "kind": "MC", "spec": spec, "cfg": cfg, "tlc_states": r.distinct,
                          "tlc_generated": r.states, "violations": len(r.violations),
                          "tlc_wall_s": round(r.wall, 2), "wall_s": round(time.time() - t0, 2)})
        return r

    # -- verdict ------------------------------------------------------------
    def finish(self, level_note="", rule="", nontrivial=None, extra_cov=None):
        os.makedirs(EVID, exist_ok=True)
        os.makedirs(REPLAYS, exist_ok=True)
        # known findings: a violation whose replay record matches a known entry is reported, not failed
        known = known_for(self.pid)
        real = []
        for v in self.violations:
            hits = match_known_why(known, v)
            if hits:
                for h in hits:
                    self.known_hits.append((h, v))
                continue
            hit = match_known(known, v)
            if hit is not None:
                self.known_hits.append((hit, v))
            else:
                real.append(v)
        printed = set()
        for hit, v in self.known_hits:
            if hit["id"] not in printed:
                printed.add(hit["id"])
                log("KNOWN-FINDING: property=%s %s" % (self.pid, hit["what"]))
        for d in self.drift[:10]:
            log("DRIFT: property=%s %s" % (self.pid, d))
        replay_paths = []
        for k, v in enumerate(real[:20]):
            h = hashlib.sha1(json.dumps(v["replay"], sort_keys=True).encode()).hexdigest()[:10]
            path = os.path.join(REPLAYS, "%s-%s-%s.json" % (self.pid, v["leg"], h))
            with open(path, "w") as f:
                json.dump({"property": self.pid, "what": v["what"], **v["replay"]}, f, indent=1)
            replay_paths.append(path)
        cov = {
            "states": max(self.states, 0),
            "transitions": max(self.transitions, 0),
            "traces_validated_against_impl": self.traces,
            "samples": self.samples[:12] or [{"note": "no sample recorded"}],
            "evaluations": max(self.evaluations, 0),
            "distinct_nontrivial": nontrivial if nontrivial is not None else max(self.traces, 0),
            "rule": rule,
            "exhaustive": self.exhaustive,
            "legs": self.legs,
            "known_findings_hit": sorted(printed),
            "drift": self.drift[:20],
            "checker_cmd": "java -cp tla2tools.jar tlc2.TLC (TLC 1.8.0) via check.py",
            "trusted_base": ["TLC 1.8.0", "CommunityModules Json/IOUtils/Bitwise", "rustc/cargo",
                             "harness projection (harness/src)", "check.py output parsing"],
        }
        if extra_cov:
            cov.update(extra_cov)
        ev = {
            "property_id": self.pid, "tier": self.tier, "seed": self.seed, "level": "model_checking",
            "coverage": cov, "assumptions": self.assumptions + ([level_note] if level_note else []),
            "wall_s": round(time.time() - self.t0, 2), "violations": len(real),
        }
        with open(os.path.join(EVID, self.pid + ".json"), "w") as f:
            json.dump(ev, f, indent=1)
        if real:
            for v, pth in list(zip(real, replay_paths))[:20]:
                log("  violation: %s" % v["what"])
            log("VIOLATION property=%s replay=%s" % (self.pid, replay_paths[0]))
            return 1
        log("OK property=%s tier=%s states=%d traces=%d legs=%d wall=%.1fs" % (
            self.pid, self.tier, self.states, self.traces, len(self.legs), time.time() - self.t0))
        return 0


def _shorten(rec, limit=400):
    s = json.dumps(rec, sort_keys=True)
    if len(s) <= limit:
        return rec
    return {"truncated": s[:limit] + "..."}


def match_known_why(known, v):
    """Trace legs: a rejected event is a known finding iff every failed check that decides the
    property is named by some known entry (match.why); returns the entries used."""
    hard = v["replay"].get("hard")
    if not hard:
        return []
    used = []
    for name in hard:
        e = [k for k in known if name in k.get("match", {}).get("why", [])]
        if not e:
            return []
        for k in e:
            if k not in used:
                used.append(k)
    return used


def match_known(known, v):
    """A known finding names the leg and a predicate over the failing record."""
    for k in known:
        m = k.get("match", {})
        if m.get("leg") and m["leg"] != v["leg"]:
            continue
        rec = v["replay"].get("record") or {}
        ok = True
        for fld, val in m.get("record", {}).items():
            cur = rec
            for part in fld.split("."):
                cur = cur.get(part) if isinstance(cur, dict) else None
            if isinstance(val, list):
                if cur not in val:
                    ok = False
            elif cur != val:
                ok = False
        if ok and (m.get("record") or m.get("leg")):
            return k
    return None


# --------------------------------------------------------------------------
# property checks

CHECKS = {}


def check(pid):
    def deco(f):
        CHECKS[pid] = f
        return f
    return deco


@check("C06")
def c06(run):
    run.exhaustive = True
    run.mc_leg("mc_isa", "MC_Isa", "MC_Isa.cfg", workers=16)
    run.table_leg("decode", ["decode"], exhaustive=True)
    run.table_leg("encode", ["encode"], exhaustive=True)
    return run.finish(
        rule="every 16-bit word through the real SimInstr::decode (65 536 records) and every representable "
             "instruction through the real encode+decode (40 273 records); each record is one distinct case; "
             "MC_Isa checks Decode/Encode/Canonical against each other for all words and instructions",
        level_note="exhaustive over the whole input space in both tiers; trusts the harness projection js::sim_instr")


@check("C07")
def c07(run):
    run.exhaustive = True
    run.mc_leg("mc_isa", "MC_Isa", "MC_Isa.cfg", workers=16)
    run.table_leg("disasm", ["disasm"], exhaustive=True)
    return run.finish(
        rule="every 16-bit word: real disassemble_line, Display text, then real parse_ast+assemble of that text "
             "at origins x0000, x3000, xFDFF; one record per word; MC_Isa proves StmtWord(Disasm(w)) = w in the spec",
        level_note="exhaustive over all words in both tiers; origins sampled at 3 addresses (encoding is "
                   "address-independent for label-free statements)")


@check("C15")
def c15(run):
    run.mc_leg("mc_wordinit3", "MC_WordInit", "MC_WordInit3.cfg", workers=8)
    run.mc_leg("mc_wordinit4", "MC_WordInit", "MC_WordInit4.cfg", workers=16)
    run.table_leg("wordop", ["wordop"], cfg="TV_TablesConf.cfg", workers=8)
    return run.finish(
        rule="MC: all operand pairs with all masks and all completions at widths 3 and 4 (soundness of every result bit "
             "reported initialized; fully initialized operands give the wrapping value fully initialized).  TV at 16 "
             "bits on the real Word operators through the mask hooks: structured pairs with <= 8 unknown bits for which "
             "TLC enumerates every completion (exact decision), random pairs with arbitrary masks whose unknown bits "
             "are re-drawn 64 times through the real operators (witnesses), fully initialized pairs",
        level_note="verdict by witness at 16 bits; equality of the mask with the specification's propagation rule is drift only")


@check("C10")
def c10(run):
    run.mc_leg("mc_interrupt", "MC_Interrupt", "MC_Interrupt3.cfg" if run.tier == "thorough" else "MC_Interrupt2.cfg", workers=8, timeout=3000)
    run.mc_leg("mc_interrupt_p4", "MC_Interrupt", "MC_Interrupt_p4.cfg", workers=4)
    r, path, n, rej = run.trace_leg("transparent", ["machine", "kind=transparent"], verdict=["intgate", "panic"])
    run.trace_leg("transparent_rel", ["machine", "kind=transparent"], spec="TV_Pairs", cfg="TV_Pairs.cfg",
                  verdict=PAIRV + ["interrupt-not-transparent"], expect_all=False, path=path)
    run.trace_leg("int", ["machine", "kind=int"], verdict=["intgate", "panic"])
    # RP: every single placement MC_Interrupt explores (program priority 0 and 4) replayed on the real simulator; the model
    # shows transparency for runs that follow the specification, so conformance of these runs decides with IntGate
    for pp in (0, 4):
        run.rp_leg("rp_interrupt_p%d" % pp, "MC_InterruptRP", "MC_InterruptRP_p%d.cfg" % pp, "interrupt", "MC_Interrupt_ops.ndjson",
                   verdict=CONF + ["intgate"], workers=8)
    return run.finish(
        rule="a program with a stack, stores and OS output, and a handler that saves/restores what it uses and returns "
             "with RTI: one interrupt placed at every instruction boundary (all boundaries in thorough, every 3rd in "
             "quick) for priorities 1/4/7 against program priorities 0 and 3, pairs of interrupts (competing at one "
             "boundary, nested inside the handler, successive), keyboard interrupts and exact timers; IntGate is evaluated "
             "by TLC on every logged step (taken iff the highest pending priority exceeds the current one, winner, "
             "supervisor mode, saved PSR/PC on the supervisor stack, vector), and each interrupted run is paired with "
             "the uninterrupted run: equal registers, condition codes, R6, user memory digest, output, PC",
        level_note="equal-priority arbitration is left open (the property does not fix it)")


@check("C11")
def c11(run):
    ospath, _ = run.emit("os", ["emit", "os"])
    run.mc_leg("mc_ostraps", "MC_OsTraps", "MC_OsTraps3.cfg" if run.tier == "thorough" else "MC_OsTraps.cfg",
               env={"OSIMG": ospath}, workers=8, timeout=3000)
    # RP: the start states of MC_OsTraps (strings of up to 2 symbols, one register fill and condition code) on the real simulator
    run.rp_leg("rp_ostraps", "MC_OsTraps", "MC_OsTrapsRP.cfg", "ostraps", "MC_OsTraps_ops.ndjson", env={"OSIMG": ospath},
               verdict=["trap-return-pc", "trap-psr", "trap-user-memory", "trap-ssp", "trap-getc", "trap-out", "trap-puts",
                        "trap-putsp", "trap-in", "trap-halt", "panic"], workers=8)
    run.trace_leg("traps", ["machine", "kind=traps"],
                  verdict=["trap-return-pc", "trap-psr", "trap-user-memory", "trap-ssp", "trap-getc", "trap-out", "trap-puts",
                           "trap-putsp", "trap-in", "trap-halt", "panic"])
    return run.finish(
        rule="each built-in trap (GETC, OUT, PUTS, IN, PUTSP, HALT) invoked from user code under real and virtual traps with "
             "random strings (empty, odd/even packed lengths, bytes x01-xFF, words with high bits), random registers, "
             "condition codes, priorities and keyboard queues; the real OS image executes step by step (validated against "
             "Machine) and at the return TLC evaluates the contract on its own state: consumed input, emitted bytes "
             "computed from memory, R0, all other registers, PSR, saved SP and all user memory",
        level_note="the prompt of IN is read from the OS image at label S_IN_PROMPT; HALT is checked through run()")


@check("C12")
def c12(run):
    ospath, _ = run.emit("os", ["emit", "os"])
    run.mc_leg("mc_trapmode", "MC_TrapMode", "MC_TrapMode3.cfg" if run.tier == "thorough" else "MC_TrapMode.cfg",
               env={"OSIMG": ospath}, workers=16, timeout=6000)
    r, path, n, rej = run.trace_leg("trapmode_rel", ["machine", "kind=trapmode"], spec="TV_Pairs", cfg="TV_Pairs.cfg",
                                    verdict=PAIRV + ["real-traps-output-differs", "real-traps-registers-differ",
                                                     "real-traps-user-memory-differs", "real-traps-no-halt",
                                                     "exception-message-differs", "exception-no-halt"], expect_all=False)
    run.trace_leg("trapmode_conf", ["machine", "kind=trapmode"], verdict=["panic"], path=path)
    # RP: the programs of MC_TrapMode (one fragment; thorough: two) replayed on the real simulator under both modes
    r2, path2, n2, rej2 = run.rp_leg("rp_trapmode", "MC_TrapMode", "MC_TrapModeRP2.cfg" if run.tier == "thorough" else "MC_TrapModeRP.cfg",
                                     "trapmode", "MC_TrapMode_ops.ndjson", env={"OSIMG": ospath}, tv_spec="TV_Pairs", tv_cfg="TV_Pairs.cfg",
                                     verdict=PAIRV + ["real-traps-output-differs", "real-traps-registers-differ", "real-traps-user-memory-differs",
                                                      "real-traps-no-halt", "exception-message-differs", "exception-no-halt"], expect_all=False)
    if path2:
        run.trace_leg("rp_trapmode_conf", ["replay", "trapmode"], verdict=["panic"], path=path2)
    return run.finish(
        rule="user programs with I/O traps, subroutines and stack use, some halting and some faulting (access violation "
             "by load and by store, RTI in user mode, reserved opcode, invalid format), each run to completion under "
             "virtual and under real traps from identical states; TLC checks on the two final states: halting programs "
             "give the same output, R0-R5 and user memory and stop through the MCR; faulting programs print the OS "
             "message of that exception after the same output and halt (premise: the run ends in user mode under virtual "
             "traps).  Two of three programs are generated (arithmetic, data cells, PUTS/OUT/PUTSP/GETC/IN, nested "
             "subroutines keeping R7 on the stack, counted loops, push/pop; five endings).  MC_TrapMode: the same statement "
             "model-checked inside the specification on the real OS image for every program of up to 2 (thorough: 3) "
             "fragments out of 9 with each of 6 endings",
        level_note="message texts are those of os.asm; both runs are validated against Machine (drift only)")


@check("C32")
def c32(run):
    run.rp_leg("rp_devices", "MC_Devices", "MC_Devices.cfg", "devices", "MC_Devices_ops.ndjson", verdict=CONF + ["regvals"], workers=16)
    if run.tier == "thorough":      # depth 4 over a 12-call alphabet (20 736 histories)
        run.rp_leg("rp_devices4", "MC_Devices", "MC_Devices4.cfg", "devices", "MC_Devices_ops4.ndjson", verdict=CONF + ["regvals"], workers=16)
    run.trace_leg("devices", ["machine", "kind=devices"], verdict=CONF + ["regvals"])
    return run.finish(
        rule="random histories over add_device (valid, occupied, non-I/O and repeated ports), remove_device (incl. fixed "
             "and unknown ids), set_keyboard / set_display (buffered and custom devices), mmap_internal / munmap_internal, "
             "read_mem / write_mem with default and omnipotent contexts at mapped, owned and unowned ports, then a short "
             "program using two ports; after every call TLC compares results, device ids, the contents of every register "
             "device, buffers, the memory mirror (full diff) and internal registers with the port-table model of Machine",
        level_note="recording devices are register devices whose contents are part of the projection")


@check("C33")
def c33(run):
    ospath, _ = run.emit("os", ["emit", "os"])
    run.mc_leg("mc_kbddisp", "MC_KbdDisp", "MC_KbdDisp3.cfg" if run.tier == "thorough" else "MC_KbdDisp2.cfg",
               env={"OSIMG": ospath}, workers=8, timeout=3000)
    run.trace_leg("locks", ["machine", "kind=locks"],
                  verdict=["lost-byte", "lost-byte:DevDisplayWriteWhileLocked", "lost-byte:DevKbdDataReadWhileLocked", "panic"])
    return run.finish(
        rule="echo program through GETC/OUT/PUTS; the harness thread holds the real RwLock of the keyboard or display "
             "buffer across chosen step_in calls: every single-step hold position, pairs of holds, and random patterns "
             "on longer inputs, real and virtual traps; at the end the display must show every queued byte exactly once "
             "and in order; losses explained by the two transcribed try_write deviations are the known findings",
        level_note="contention is at instruction-boundary granularity (where the simulator takes the lock)")


@check("C34")
def c34(run):
    run.mc_leg("mc_timer", "MC_Timer", "MC_Timer.cfg", workers=4)
    r, path, n, rej = run.trace_leg("timer", ["timer"], spec="TV_Timer", cfg="TV_Timer.cfg",
                                    verdict=["fired-while-disabled", "gap-out-of-range", "gap-too-long", "first-too-late",
                                             "panic", "unknown-event"])
    run.trace_leg("timer_seed", ["timer"], spec="TV_Pairs", cfg="TV_Pairs.cfg", verdict=PAIRV, expect_all=False, path=path)
    run.trace_leg("in_sim", ["machine", "kind=int", "timers=1"], verdict=["intgate", "draw", "timers", "panic"])
    return run.finish(
        rule="MC: the timer design for all ranges within 1..4, all draws and all interleavings of poll/enable/disable/"
             "reset against the observer automaton TimerProp.  TV: real TimerDevice polled directly (random exact counts "
             "and ranges, seeds, toggles, io_reset, range changes), TimerProp evaluated on the logged fire sequence; every "
             "configuration is run twice with the same seed and the two sequences must be identical; inside the simulator "
             "each timer interrupt entry is validated (IntGate, draws in range)",
        level_note="ranges containing 0 are outside the claim (exact case is stated for n >= 1); get_remaining() binds "
                   "draws only in the conformance names time/draw/irq (drift)")


@check("C35")
def c35(run):
    run.mc_leg("mc_offsets", "MC_Offsets", "MC_Offsets.cfg", workers=16)
    if run.tier == "thorough":
        run.exhaustive = True
        for n in range(1, 17):
            run.table_leg("offset_n%d" % n, ["offset", "n=%d" % n, "all=1"], exhaustive=True, workers=16)
    else:
        run.table_leg("offset", ["offset"])
    return run.finish(
        rule="Offset::<i16|u16,N>::new/new_trunc/get for N=1..16; quick: values within 3 of every power of two and "
             "of the type limits plus 250 random ones per signedness; thorough: every i16 and u16 value for every N "
             "(2 097 152 records); MC_Offsets proves the arithmetic statement equals the shift-based one for all N, v",
        level_note="thorough tier is exhaustive; quick is boundary + random")


@check("C03")
def c03(run):
    # MC + RP: every rendering MC_Grammar reads back (16 statement shapes x 960 choices of surface syntax) also goes
    # through the real parser, which must read what the grammar reads (= the statement, by ReadsBack)
    run.rp_rec_leg("rp_parse", "MC_Grammar", "MC_GrammarRP.cfg", "parse", "MC_Grammar_ops.ndjson", spec="TV_Parse", cfg="TV_Parse.cfg",
                   verdict=["panic", "grammar", "grammar-accept", "unknown-event"], workers=16)
    run.rec_leg("parse", ["parse"], spec="TV_Parse", cfg="TV_Parse.cfg",
                verdict=["panic", "stmts-written", "spans", "layout-image", "unknown-event"])
    return run.finish(
        rule="generated statement lists (every opcode, alias and directive, labels on the statement line or on lines of their "
             "own, several labels, with and without colons, numeric operands in every notation, strings with escapes and "
             "non-ASCII text, externals; some programs with injected assembler faults), each rendered twice with independent "
             "random surface syntax (keyword/register/hex-prefix case, spaces and tabs, comments incl. non-ASCII, blank lines, "
             "LF/CRLF, final newline or not); for every rendering the real parse_ast must return exactly the written "
             "statements, with nucleus and label spans exactly where the renderer put that text, and exactly what "
             "Grammar!ParseProgram - the specification's own tokenizer and statement grammar run by TLC on the source bytes - "
             "reads in it; the two renderings must assemble to the same image, labels and result",
        level_note="agreement with Grammar!ParseProgram is reported as drift when the parser still returns what was written")


@check("C05")
def c05(run):
    run.mc_leg("mc_grammar", "MC_Grammar", "MC_Grammar.cfg", workers=16, timeout=1800)
    if run.tier == "thorough":
        run.exhaustive = True
        lo = -70000
        while lo <= 140000:
            hi = min(lo + 14999, 140000)
            run.rec_leg("num_%d" % lo, ["num", "lo=%d" % lo, "hi=%d" % hi, "fields=7"], spec="TV_Parse", cfg="TV_Parse.cfg",
                        verdict=["panic", "num-token", "reg-token", "num-field", "reg-field", "unknown-event"], workers=16)
            lo = hi + 1
    run.rec_leg("num", ["num"], spec="TV_Parse", cfg="TV_Parse.cfg",
                verdict=["panic", "num-token", "reg-token", "num-field", "reg-field", "unknown-event"])
    return run.finish(
        rule="every spelling (n, #n, xH, XH, leading zeros; -n, #-n, x-H, X-H with leading zeros) of integers around every power of "
             "two up to 2^17, around the 16-bit limits, 70000, 100000, 140000 and random ones (thorough: every integer in "
             "[-70000, 140000]), huge values, and register spellings R0..R256 with leading zeros; each lexed by the real lexer "
             "as a bare token and parsed as the operand of imm5, offset6, PCoffset9 (LD, BR, NOP), PCoffset11, trapvect8, .orig, "
             ".blkw, .fill and a register position; TLC computes the written value (Lexer!Literal) and requires acceptance "
             "exactly when the value is in 0..65535 / -32768..32767 and fits the field (FitsS / FitsU, .blkw non-zero, .fill "
             "either), and the denoted value",
        level_note="spellings outside the literal grammar (1_000, #x10, --5, Unicode digits) are conformance only (drift)")


@check("C36")
def c36(run):
    run.mc_leg("mc_grammar", "MC_Grammar", "MC_Grammar.cfg", workers=16, timeout=1800)
    run.rec_leg("print", ["print"], spec="TV_Parse", cfg="TV_Parse.cfg", verdict=["panic", "reparse", "unknown-event"])
    return run.finish(
        rule="every statement obtained by parsing generated programs (all opcodes, aliases, directives, several labels, "
             "label and numeric operands at the field limits, NOP with and without operand, .fill of negative values, strings "
             "with quotes, backslashes, tab, newline, CR, NUL, apostrophes) is printed by the real Display and the text parsed "
             "again by the real parser: exactly one statement, equal in labels, instruction or directive and operands; "
             "statements whose string holds other characters are skipped as the property says; TLC additionally reads the "
             "printed text with Grammar!ParseProgram (conformance)",
        level_note="equality is on the projection of Stmt without spans")


@check("C04")
def c04(run):
    run.rec_leg("garbage", ["garbage"], spec="TV_Parse", cfg="TV_Parse.cfg",
                verdict=["panic", "errspan", "string-literal", "unknown-event"], workers=16)
    # MC + RP: every text of up to 3 (thorough: 4) tokens out of 20: the specification's tokenizer and grammar are total on it
    # (spans inside the text), and the real parser neither panics nor reports a span outside it; acceptance and the statements
    # read must be those of the grammar (drift here; C03 owns that)
    run.rp_rec_leg("rp_garbage", "MC_Garbage", "MC_Garbage4.cfg" if run.tier == "thorough" else "MC_Garbage.cfg", "parse",
                   "MC_Garbage_ops.ndjson", spec="TV_Parse", cfg="TV_Parse.cfg", verdict=["panic", "errspan", "unknown-event"], workers=16)
    return run.finish(
        rule="(0) MC + RP: every text of up to 3 (thorough: 4) tokens out of 21 (mnemonics, register, a label that begins like a register, comma, colon, newline, numbers in and "
             "out of range, a bare sign, label, directives, closed and unclosed string literal, comment, non-ASCII character) separated by "
             "spaces - 9 723 (204 204) texts: Lexer!Tokenize and Grammar!ParseProgram are total, lexical errors and statement spans lie "
             "inside the text; each text then goes through the real parser (no panic, one error span inside the input; agreement with the "
             "grammar as drift); (1) every text `.stringz \"` + s for all strings s of up to 4 (thorough: 6) symbols over {quote, backslash, n, a, "
             "e-acute, LF, CR, space}: TLC predicts the exact outcome with Lexer!ScanStr / Grammar (the string value, or an "
             "unclosed-literal error whose span runs from the quote to the end of the line); (2) targeted edges (70 000-character "
             "literals and identifiers, 5 000-digit numbers, backslash at end of line/input, non-ASCII after a backslash, in "
             "identifiers and as digits, stray symbols, lone CR, NUL, BOM); (3) random Unicode strings; (4) generated programs "
             "with byte-level mutations; for every input: no panic, and an error carries exactly one span with "
             "0 <= start <= end <= length of the input",
        level_note="outside the string-literal family only the outcome class is predicted")


@check("C25")
def c25(run):
    run.mc_leg("mc_sourceinfo", "MC_SourceInfo", "MC_SourceInfo6.cfg" if run.tier == "thorough" else "MC_SourceInfo.cfg", workers=16)
    run.table_leg("srcinfo", ["srcinfo"], workers=16)
    # RP: every string MC_SourceInfo checks (up to 5 symbols over letter, space, TAB, CR, LF, NBSP) through the real SourceInfo
    run.rp_table_leg("rp_srcinfo", "MC_SourceInfo", "MC_SourceInfoRP.cfg", "srcinfo", "MC_SourceInfo_ops.ndjson", workers=16)
    return run.finish(
        rule="MC: for every string of up to 5 (thorough: 6) symbols over {letter, space, tab, CR, LF, NBSP} and every index up "
             "to length+3 the operators of spec/SourceInfo.tla satisfy C25 stated in its own words (line count = newlines+1; raw "
             "lines tile the text; span/text of a line = the line minus whole whitespace characters at both ends; the position "
             "of an index is on the line that holds it, past the end on the last line, line start + column = index).  TV: the "
             "real SourceInfo on every string of up to 4 symbols over 8 symbols (thorough: 6 over 6) and on random longer strings "
             "with further Unicode whitespace, separators and emoji: count_lines, line_span and read_line for every line and two "
             "beyond, get_pos_pair for every index up to length+10, each compared with those operators",
        level_note="whitespace is Unicode White_Space (what str::trim removes), modelled on UTF-8 byte sequences")


ASM_CONF = ["conf-accept", "conf-err", "conf-blocks", "conf-sym"]


@check("C01")
def c01(run):
    run.mc_leg("mc_asm", "MC_Asm", "MC_Asm5.cfg" if run.tier == "thorough" else "MC_Asm.cfg", workers=16, timeout=3000)
    run.rec_leg("asm", ["asm", "faults=25"], verdict=["panic", "written", "image", "labels", "extflag", "wf-rejected", "unknown-event"])
    run.rp_rec_leg("rp_asm", "MC_AsmRP", "MC_AsmRP4.cfg" if run.tier == "thorough" else "MC_AsmRP3.cfg", "asm", "MC_Asm_ops.ndjson",
                   verdict=["panic", "written", "image", "labels", "extflag", "wf-rejected", "unknown-event"], workers=16)
    return run.finish(
        rule="generated programs (every opcode and alias, operands at and inside field limits, label operands forward and "
             "backward incl. offsets exactly at the 9- and 11-bit limits, .fill/.stringz/.blkw, 1-4 blocks placed from x0000 "
             "up to ending exactly at xFE00, touching blocks, blocks out of source order, externals), rendered with random "
             "surface syntax, assembled by the real parse_ast + assemble / assemble_debug, plus the OS source itself; for "
             "every accepted well-formed program TLC computes ImageSpec (address = origin + sizes of the statements before, "
             "words = Isa!Encode after alias expansion, label operand = label address - (address + 1)) and LabelSpec from "
             "the parsed statements and requires the object's image (set of address/word pairs, so nothing else is "
             "defined) and the label table to be equal",
        level_note="the statement list is the real parser's output, required to equal the generator's intent (`written`; C03 "
                   "decides the parser against the grammar of the specification); block partition and the exact "
                   "object record are compared with the operational transcription Asm!Assemble as drift only")


@check("C02")
def c02(run):
    run.mc_leg("mc_asm", "MC_Asm", "MC_Asm5.cfg" if run.tier == "thorough" else "MC_Asm.cfg", workers=16, timeout=3000)
    run.rec_leg("asm", ["asm", "faults=70"], verdict=["panic", "accept", "kind", "unknown-event"])
    run.rp_rec_leg("rp_asm", "MC_AsmRP", "MC_AsmRP4.cfg" if run.tier == "thorough" else "MC_AsmRP3.cfg", "asm", "MC_Asm_ops.ndjson",
                   verdict=["panic", "accept", "kind", "unknown-event"], workers=16)
    return run.finish(
        rule="generated programs with zero to three injected faults (missing/extra/nested .orig/.end, duplicate labels in "
             "another case, undefined labels, offsets one past the field limit, blocks ending at xFE00+1 / x10000 / x10001, "
             "overlapping and touching blocks, equal starts, externals in PC-relative operands, statements and labels "
             "outside blocks, .external clashing with a definition, .fill of an external outside a block); TLC evaluates "
             "WellFormed (the five conditions of the statement, each a separate predicate) on the parsed statements and "
             "requires acceptance iff WellFormed, and the error kind to be one of ViolatedKinds; a panic is a Panic record",
        level_note="which of several violated conditions is reported is left open (the property says: one of them)")


@check("C23")
def c23(run):
    run.rec_leg("asm", ["asm", "faults=10"], verdict=["panic", "labels", "extflag", "labelquery", "symtab-rejected", "objsym", "unknown-event"])
    run.rp_rec_leg("rp_asm", "MC_AsmRP", "MC_AsmRP4.cfg" if run.tier == "thorough" else "MC_AsmRP3.cfg", "asm", "MC_Asm_ops.ndjson",
                   verdict=["panic", "labels", "extflag", "labelquery", "symtab-rejected", "objsym", "unknown-event"], workers=16)
    return run.finish(
        rule="for every generated program whose pass 1 succeeds: every label of the program (definitions, operands, "
             "externals, labels on .end lines, repeated labels on one address) queried in four spellings plus near-miss and "
             "absent names through lookup_label / get_label_source, every recorded address and its neighbours through "
             "rev_lookup_label, and label_iter as a set; TLC computes the expected answers from the parsed statements "
             "(address of the statement the label precedes, 0 for externals; span = first occurrence with the queried "
             "length, whose source text upper-cased is the key; reverse lookup is a membership test)",
        level_note="reverse lookup and listing iterate a hash map: compared as sets / by membership")


@check("C24")
def c24(run):
    run.mc_leg("mc_asm", "MC_Asm", "MC_Asm5.cfg" if run.tier == "thorough" else "MC_Asm3.cfg", workers=16, timeout=3000)
    run.rec_leg("asm", ["asm", "faults=10"], verdict=["panic", "lines", "linequery", "lines-not-injective", "unknown-event"])
    run.rp_rec_leg("rp_asm", "MC_AsmRP", "MC_AsmRP4.cfg" if run.tier == "thorough" else "MC_AsmRP3.cfg", "asm", "MC_Asm_ops.ndjson",
                   verdict=["panic", "lines", "linequery", "lines-not-injective", "unknown-event"], workers=16)
    run.rec_leg("link", ["link", "alldbg=1"], verdict=["panic", "dbg-lines", "unknown-event"])
    return run.finish(
        rule="generated programs assembled with debug symbols (statements on varied lines, label-only lines, comments, "
             "blank lines, CRLF, .blkw/.stringz of varied sizes, .external inside and outside blocks): line_iter must equal "
             "LineSpec = {(line of the statement, its first address) : statement occupies memory}; lookup_line for every "
             "line up to count+2 and rev_lookup_line for every mapped address, its neighbours and random addresses must "
             "agree with it; LineSpec itself must be injective both ways.  The line tables of linked debug objects (the "
             "linker shifts the second file's lines) are checked through the text of the lines: every mapped address of a "
             "link result reads the line text it had in the file it came from",
        level_note="line numbers are computed by TLC from the source bytes (number of LF before the statement)")


LINK_CONF = ["link-conf-accept", "link-conf-kind", "link-conf-obj", "load-conf"]


@check("C20")
def c20(run):
    run.rec_leg("link", ["link"], verdict=["panic", "link-accept", "link-image", "link-labels", "link-rel", "order-success", "order-core",
                                           "order-labels", "set-accept", "set-image", "set-rel", "set-labels", "unknown-event"])
    # MC + RP: every selection MC_Link checks (pairs; thorough: also triples) is assembled and linked by the real crate
    run.rp_rec_leg("rp_link", "MC_LinkRP", "MC_LinkRP3.cfg" if run.tier == "thorough" else "MC_LinkRP2.cfg", "link", "MC_Link_ops.ndjson",
                   verdict=["panic", "link-accept", "link-image", "link-labels", "link-rel", "order-success", "order-core",
                            "order-labels", "set-accept", "set-image", "set-rel", "set-labels", "unknown-event"], workers=16)
    return run.finish(
        rule="sets of 2-4 generated files (shared labels defined in one file and declared external in others, labels "
             "defined twice at different addresses, the same label at one address through a label on an .end line, externals "
             "never defined, blocks disjoint / touching / overlapping by one word / with equal starts), each assembled by the "
             "real assembler and linked by the real ObjectFile::link in every order and bracketing (all 12 for three files, a "
             "sample of 14 for four); every link step is validated on its real operands: success iff blocks disjoint and no "
             "label defined at two addresses, image = union with every .fill of a label resolved by this step replaced by its "
             "address, label table and pending relocations as the statement says; all full links of a set must agree on "
             "success and on (image, labels with flags, pending relocations); and the set as a whole is compared with the "
             "declarative result computed from the files' parsed statements",
        level_note="error kinds of failing links are compared with Linker!Link as drift only (the property does not name them)")


@check("C21")
def c21(run):
    run.mc_leg("mc_asm", "MC_Asm", "MC_Asm5.cfg" if run.tier == "thorough" else "MC_Asm3.cfg", workers=16, timeout=3000)
    run.mc_leg("mc_link", "MC_Link", "MC_Link.cfg", workers=16)
    run.rec_leg("asm", ["asm", "faults=10"], verdict=["panic", "rel", "symkept", "objsym", "unknown-event"])
    run.rp_rec_leg("rp_asm", "MC_AsmRP", "MC_AsmRP4.cfg" if run.tier == "thorough" else "MC_AsmRP3.cfg", "asm", "MC_Asm_ops.ndjson",
                   verdict=["panic", "rel", "symkept", "objsym", "unknown-event"], workers=16)
    run.rec_leg("link", ["link"], verdict=["panic", "unresolved-load", "resolved-word", "symkept", "set-image", "set-rel", "unknown-event"])
    run.rp_rec_leg("rp_link", "MC_LinkRP", "MC_LinkRP3.cfg" if run.tier == "thorough" else "MC_LinkRP2.cfg", "link", "MC_Link_ops.ndjson",
                   verdict=["panic", "unresolved-load", "resolved-word", "symkept", "set-image", "set-rel", "unknown-event"], workers=16)
    return run.finish(
        rule="generated programs with .external declared before, inside and after the blocks that use it, assembled with and "
             "without debug symbols: the relocation entries must be exactly the .fill statements of external labels "
             "(computed by TLC from the parsed statements) and the symbol table must survive assembly; every file with such a "
             "word must fail to load with UnresolvedExternal; after linking (all orders) every such word whose label some "
             "file defines holds that address in the linked image and in simulator memory after a successful load, and a "
             "linked object with a still-undefined reference must fail to load",
        level_note="memory is probed at every relocation address of every file after load_obj_file into a fresh simulator")


@check("C22")
def c22(run):
    run.rec_leg("link", ["link", "alldbg=1"], verdict=["panic", "dbg-lines", "dbg-labels", "unknown-event"])
    run.rp_rec_leg("rp_link", "MC_LinkRP", "MC_LinkRP3.cfg" if run.tier == "thorough" else "MC_LinkRP2.cfg", "link", "MC_Link_ops.ndjson",
                   verdict=["panic", "dbg-lines", "dbg-labels", "unknown-event"], workers=16)
    return run.finish(
        rule="pairs and triples (some quadruples) of generated files assembled with debug symbols and linked in every order "
             "and bracketing; for every link step the harness records, for every mapped address of the operands and of the "
             "result, rev_lookup_line and the text of source_info().read_line of that line, and get_label_source of every "
             "label; TLC requires each address of the result to read the same text as in the operand it came from (and no "
             "address to be lost), and every label's span in the combined source to spell the label (ignoring case)",
        level_note="checked inductively per link step, which gives the property for every linked combination")


@check("C17")
def c17(run):
    run.rec_leg("link", ["link"], verdict=["panic", "rt-bin", "unknown-event"])
    run.rp_rec_leg("rp_link", "MC_LinkRP", "MC_LinkRP3.cfg" if run.tier == "thorough" else "MC_LinkRP2.cfg", "link", "MC_Link_ops.ndjson",
                   verdict=["panic", "rt-bin", "unknown-event"], workers=16)
    run.rec_leg("asm_rt", ["rt", "fmt=bin"], verdict=["panic", "rt-bin", "unknown-event"])
    run.mc_leg("mc_objformat", "MC_ObjFormat", "MC_ObjFormat3.cfg" if run.tier == "thorough" else "MC_ObjFormat.cfg", workers=16, timeout=3000)
    run.rec_leg("fmt", ["fmt"], spec="TV_Fmt", cfg="TV_Fmt.cfg", verdict=["panic", "fmt-roundtrip", "unknown-event"])
    return run.finish(
        rule="every object of the link sets (assembled files with and without debug symbols, with externals and relocation "
             "entries, .blkw regions, several blocks; every intermediate and final link result) and of generated single "
             "programs with exotic source text is written by BinaryFormat::serialize and read back; TLC requires the reader to "
             "accept, the crate's own == to hold and the projection of the result (blocks, labels with flags and source "
             "offsets, relocation entries, line table, source bytes) to equal the projection of the original.  The byte "
             "grammar is the specification ObjFormat (reader BinRead, writer BinWrite over any order of the hash-map tables, "
             "64-bit quantities as 16-bit limbs): MC_ObjFormat proves the round trip for a universe of objects and all table "
             "orders inside the specification; the fmt leg gives the real writer's bytes of assembled and linked objects to "
             "BinRead (WrittenForView: reads back as the object, one chunk per item, chunks in order) and requires the real "
             "reader to give the object back (==)",
        level_note="agreement of the real writer/reader with ObjFormat beyond the round trip is conformance (drift)")


@check("C18")
def c18(run):
    run.rec_leg("link", ["link"], verdict=["panic", "rt-txt", "unknown-event"])
    run.rp_rec_leg("rp_link", "MC_LinkRP", "MC_LinkRP3.cfg" if run.tier == "thorough" else "MC_LinkRP2.cfg", "link", "MC_Link_ops.ndjson",
                   verdict=["panic", "rt-txt", "unknown-event"], workers=16)
    run.rec_leg("asm_rt", ["rt", "fmt=txt"], verdict=["panic", "rt-txt", "unknown-event"])
    run.mc_leg("mc_txtformat", "MC_TxtFormat", "MC_TxtFormat.cfg", workers=8, timeout=3000)
    run.rec_leg("fmt", ["fmt"], spec="TV_Fmt", cfg="TV_Fmt.cfg", verdict=["panic", "txt-roundtrip", "unknown-event"])
    # RP: the text of every object of MC_TxtFormat's universe through the real reader and back through the real writer
    run.rp_rec_leg("rp_txt", "MC_TxtFormat", "MC_TxtFormatRP.cfg", "txt", "MC_TxtFormat_ops.ndjson", spec="TV_Fmt", cfg="TV_Fmt.cfg",
                   verdict=["panic", "txt-accept", "txt-obj", "txt-rewritten", "unknown-event"], workers=8)
    return run.finish(
        rule="as C17 through TextFormat; the single-program leg uses sources with quotes, backslashes, tabs, CRLF, control "
             "and non-ASCII characters, ' | ' inside comments and strings, '=' and '#' at line starts, empty and "
             "whitespace-only lines.  The text format is the specification TxtFormat: TxtWrite gives the exact text of an "
             "object (sorted tables, column widths in characters, char::escape_default of the source cells) and TxtRead reads "
             "texts of that shape; MC_TxtFormat proves the round trip for an object universe with sources containing quotes, "
             "backslashes, TAB, CR LF, control and non-ASCII characters, ' | ' and lines starting with '#', '=' and '.'; the "
             "fmt leg requires the real writer's text of every assembled and linked object to equal TxtWrite byte for byte, "
             "TxtRead to read it back as the object, and the real reader to give the object back (==)",
        level_note="the reader is specified on the writer's shape only (what the real reader does with other texts - Unicode "
                   "trimming, signs, other escapes - is not transcribed; C19 requires it not to panic)")


@check("C19")
def c19(run):
    run.rec_leg("untrusted", ["untrusted"], verdict=["panic", "load-kind", "unknown-event"], heap="16g")
    run.mc_leg("mc_objformat", "MC_ObjFormat", "MC_ObjFormat3.cfg" if run.tier == "thorough" else "MC_ObjFormat.cfg", workers=16, timeout=3000)
    run.rec_leg("fmt", ["fmt"], spec="TV_Fmt", cfg="TV_Fmt.cfg", verdict=["panic", "unknown-event"])
    # RP: every file of up to two chunks cut at every length, as enumerated by TLC, through the real reader
    run.rp_rec_leg("rp_fmt", "MC_ObjFormat", "MC_ObjFormatRP.cfg", "fmt", "MC_ObjFormat_ops.ndjson", spec="TV_Fmt", cfg="TV_Fmt.cfg",
                   verdict=["panic", "unknown-event"], workers=16)
    return run.finish(
        rule="inputs to BinaryFormat::deserialize and TextFormat::deserialize: random bytes/texts (with and without the magic "
             "header), byte- and line-level mutations of valid serializations (truncation, duplication, lengths, dividers, "
             "headers, huge numbers, bad escapes), and abstract objects that break the writers' invariants, written by the "
             "harness's own writers (blocks that wrap, end at x10000, sit at xFFFF, overlap, are empty or huge, uninitialized "
             "runs up to xFFFF, relocation entries anywhere, flipped external flags, odd label names, label offsets and line "
             "numbers up to 2^64-1, line tables past the source, unsorted or overlapping line blocks, source removed / "
             "truncated / replaced); every accepted object is projected (label_iter, line_iter, source_info), re-serialized in "
             "both formats and read back, loaded into a simulator and stepped, queried (rev_lookup_line, read_line, "
             "get_label_source), and linked with three assembled partners in both orders and with itself, and every successful "
             "link result is used again the same way; everything under catch_unwind, a panic anywhere rejects the record; the "
             "link outcomes are also compared with the total operator Linker!Link on the abstract objects.  For the binary "
             "format the reader is specified (ObjFormat!BinRead, total: MC_ObjFormat evaluates it on every file of up to "
             "two or three chunks cut at any length with one byte replaced, and shows that whatever it accepts is written and "
             "read back equal); the fmt leg compares the real reader with it on random, mutated and adversarially "
             "structured files (accept/reject and the object built) and the real writer's output for every accepted object",
        level_note="agreement with Linker!Link on malformed objects is conformance (drift); harness profile has overflow checks on")


@check("C26")
def c26(run):
    run.mc_leg("mc_asm", "MC_Asm", "MC_Asm5.cfg" if run.tier == "thorough" else "MC_Asm3.cfg", workers=16, timeout=3000)
    run.rec_leg("asm", ["asm", "faults=85"], verdict=["panic", "errspan", "errlabel", "unknown-event"])
    run.rp_rec_leg("rp_asm", "MC_AsmRP", "MC_AsmRP4.cfg" if run.tier == "thorough" else "MC_AsmRP3.cfg", "asm", "MC_Asm_ops.ndjson",
                   verdict=["panic", "errspan", "errlabel", "unknown-event"], workers=16)
    run.rec_leg("link", ["link", "conflicts=1"], verdict=["panic", "link-errspan", "unknown-event"])
    run.rp_rec_leg("rp_link", "MC_LinkRP", "MC_LinkRP3.cfg" if run.tier == "thorough" else "MC_LinkRP2.cfg", "link", "MC_Link_ops.ndjson",
                   verdict=["panic", "link-errspan", "unknown-event"], workers=16)
    return run.finish(
        rule="every failing assembly of the fault-injected programs of C02 and every failing link of the sets of C20: span(), "
             "iter() and first() are queried under catch_unwind; for assembler errors the list must be non-empty, first() must "
             "be its first element, every span must lie inside the source, and for label errors every span's text upper-cased "
             "must be one of the offending labels TLC computes declaratively (labels outside blocks, clashing keys, undefined "
             "/ external / too-far operands)",
        level_note="link errors about blocks carry an empty span list (nothing to point into); only panics are judged there")


CONF = ["pc", "psr", "regs", "ssp", "mcr", "prefetch", "fno", "frames", "icount", "obs", "kbd", "kbdie",
        "disp", "timers", "mem", "alloca", "res", "draw", "panic", "unknown-event", "pause", "nsteps"]


def machine_args(run, extra=()):
    return ["machine"] + list(extra)


@check("C08")
def c08(run):
    run.mc_leg("mc_machine", "MC_Machine", "MC_Machine2.cfg" if run.tier == "thorough" else "MC_Machine.cfg", workers=16, timeout=3000, heap="16g")
    run.trace_leg("machine", ["machine", "kind=all"], verdict=CONF + ["simerr", "intgate", "depth", "isolation", "obsprop"])
    # RP: every one-step behaviour of the narrow configuration of MC_Machine performed on a real simulator
    run.rp_leg("rp_machine", "MC_Machine", "MC_MachineRP.cfg", "machine", "MC_Machine_ops.ndjson",
               verdict=CONF + ["simerr", "depth", "isolation", "obsprop", "strictrel"], workers=16, parallel=True)
    return run.finish(
        rule="RP: every one-step behaviour of the narrow configuration of MC_Machine (768 adversarial machines - PC at x3000/xFDFF/xFE00, "
             "user, supervisor, priority-3 and condition-code-less PSR, registers x3000/xFDFF initialized or not, R6 x3000/xFE00, strict, real traps, "
             "memory initialized or not with every word a boundary address - x 59 instruction words = 45 312 behaviours) is built on "
             "a real simulator and stepped; TV_Machine validates the step.  TV: runs of the real Simulator (random machine states x random words at PC; structured programs through "
             "the real OS with keyboard input; interrupt schedules with harness devices, keyboard interrupts and "
             "seeded timers; seeded full-memory images), every step_in validated by TLC against Machine!StepIn "
             "with the full projection (registers+masks, PC, PSR, saved SP, prefetch, MCR, frames, instruction "
             "count, observer, device buffers, timers, diff of all 65 536 memory words); a run counts when all of "
             "its events were accepted",
        level_note="reference model = spec/Machine.tla written from the ISA and the code; strict-mode runs included")


@check("C09")
def c09(run):
    run.mc_leg("mc_machine", "MC_Machine", "MC_Machine2.cfg" if run.tier == "thorough" else "MC_Machine.cfg", workers=16, timeout=3000, heap="16g")
    run.trace_leg("adv", ["machine", "kind=adv"], verdict=["isolation", "panic"])
    run.trace_leg("machine", ["machine", "kind=rand"], verdict=["isolation", "panic"])
    return run.finish(
        rule="adversarial user-mode states: every addressing mode (LD/LDI/LDR/ST/STI/STR, JMP/JSRR/BR/fall-through "
             "fetch, TRAP, RTI) aimed at every boundary address, real and virtual traps; TLC evaluates Isolation on "
             "each logged step (accessed addresses from the observer and from the full memory diff, device buffers)",
        level_note="Isolation is stated on logged observer marks + full memory diff; privilege tagging follows the "
                   "PSR before/after the step")


@check("C16")
def c16(run):
    run.mc_leg("mc_machine", "MC_Machine", "MC_Machine2.cfg" if run.tier == "thorough" else "MC_Machine.cfg", workers=16, timeout=3000, heap="16g")
    run.trace_leg("full", ["machine", "kind=full", "nfull=%d" % (60 if run.tier == "thorough" else 8)],
                  verdict=["panic", "simerr", "prefetchpc"])
    run.trace_leg("edge", ["machine", "kind=edge"], verdict=["panic", "simerr", "prefetchpc"])
    run.trace_leg("rand", ["machine", "kind=rand", "strict=30"], verdict=["panic", "simerr", "prefetchpc"])
    run.trace_leg("bound", ["machine", "kind=bound"], verdict=["panic", "simerr", "prefetchpc"])
    # device state is machine state too: a timer given an open-ended range after construction fires and redraws inside a step
    run.trace_leg("timeropen", ["machine", "kind=timeropen"], verdict=["panic", "simerr", "prefetchpc"])
    return run.finish(
        rule="seeded random full-memory images, PC at every page boundary (xNN00/xNNFF incl. xFFFF and x0000), all "
             "16 flag combinations, keyboard/display/timer/internal-register mappings; N steps then prefetch_pc(); "
             "verdict: no Panic event, every failure is a SimErr, prefetch_pc = (pc - [not prefetch]) mod 2^16",
        level_note="value conformance of these runs is reported as DRIFT only (C08 decides it)")


@check("C27")
def c27(run):
    run.mc_leg("mc_machine", "MC_Machine", "MC_Machine2.cfg" if run.tier == "thorough" else "MC_Machine.cfg", workers=16, timeout=3000, heap="16g")
    run.trace_leg("prog", ["machine", "kind=prog", "dbg=1"], verdict=["depth", "frames", "fno", "panic"])
    run.trace_leg("int", ["machine", "kind=int", "dbg=1"], verdict=["depth", "frames", "fno", "panic"])
    run.trace_leg("rand", ["machine", "kind=rand", "strict=40", "dbg=1"], verdict=["depth", "frames", "fno", "panic"])
    run.trace_leg("bound", ["machine", "kind=bound", "dbg=1"], verdict=["depth", "frames", "fno", "panic"])
    return run.finish(
        rule="programs with nested JSR/JSRR/TRAP, unbalanced returns, interrupts, registered calling-convention and "
             "pass-by-register signatures; DepthOK (calls - returns with saturation, classified from the fetched "
             "word and the logged outcome) on every successful step, frame records compared exactly with debug frames on",
        level_note="depth rule is stated independently of StepF; frame contents are compared with the specification's")


@check("C28")
def c28(run):
    run.mc_leg("mc_machine", "MC_Machine", "MC_Machine2.cfg" if run.tier == "thorough" else "MC_Machine.cfg", workers=16, timeout=3000, heap="16g")
    run.trace_leg("machine", ["machine", "kind=all"], verdict=["obs", "obsprop", "panic"])
    run.trace_leg("long", ["machine", "kind=long", "steps=%d" % (70000 if run.tier == "thorough" else 8700)], verdict=["obs", "obsprop", "panic"])
    # across a run-style call (the observer is cleared when the call begins): one address touched several times within one call
    run.trace_leg("obsrun", ["machine", "kind=obsrun"], verdict=["obs", "obsprop", "panic"])
    return run.finish(
        rule="all machine scenarios in non-strict and strict mode, and one machine stepped 8700 (thorough: 70000) times in a "
             "row (a prologue executed once, a long loop, rare excursions); the observer map is compared after every event with "
             "the access set of the reference model (READ/WRITTEN/MODIFIED per address) and ObsProp is evaluated on "
             "the logged marks against the full memory diff; host accesses through untracked contexts must leave it unchanged",
        level_note="MODIFIED is compared as the code defines it (value or mask changed); ObsProp states only what the property does")


PAIRV = ["header", "flags", "length", "differs", "shape", "strict-changed-step",
         "strict-error-on-initialized-machine", "host-differs", "final-differs"]


@check("C13")
def c13(run):
    run.mc_leg("mc_run", "MC_Run", "MC_Run7.cfg" if run.tier == "thorough" else "MC_Run.cfg", workers=8, timeout=3000)
    r, path, n, rej = run.trace_leg("run", ["machine", "kind=run"], verdict=CONF + ["nsteps", "pause"])
    run.trace_leg("segments", ["machine", "kind=run"], spec="TV_Pairs", cfg="TV_Pairs.cfg",
                  verdict=PAIRV + ["final-differs"], expect_all=False, path=path)
    run.rp_leg("rp_run", "MC_RunRP", "MC_RunRP3.cfg" if run.tier == "thorough" else "MC_RunRP2.cfg", "run", "MC_RunRP_ops.ndjson",
               verdict=CONF + ["nsteps", "pause", "trap-halt"], workers=8)
    return run.finish(
        rule="RP: every maximal behaviour of MC_Run with up to 2 (thorough: 3) free run-style calls (three breakpoint sets x "
             "eight calls, then run until halted: 185 / 1 500 behaviours) is printed by TLC, replayed on the real simulator "
             "and every recorded call validated against Run!RunCall.  TV: programs with calls, traps and loops; random sequences of run / run_with_limit / step_over / step_out / "
             "run_while(pc != a) / step_in with PC, register and memory breakpoints, step limits, MCR cleared by another "
             "party at a chosen poll, scripted vectored and external interrupts, exact timers; each call is validated by "
             "TLC against Run!RunCall = Machine!StepF iterated up to the first boundary where a documented stop "
             "condition holds (number of steps, outcome, pause reason and full projection); segmented executions are "
             "paired with one unbroken run and TLC requires equal final state (registers, PC, PSR, instruction count, "
             "output, digest of all memory)",
        level_note="runs are bounded by an MCR clear at a logged poll; timers in run scenarios are exact (deterministic draws)")


@check("C14")
def c14(run):
    run.mc_leg("mc_machine", "MC_Machine", "MC_Machine2.cfg" if run.tier == "thorough" else "MC_Machine.cfg", workers=16, timeout=3000, heap="16g")
    # the relation itself, on lockstep pairs of real runs
    r, path, n, rej = run.trace_leg("pairs", ["machine", "kind=strictpairs"], spec="TV_Pairs", cfg="TV_Pairs.cfg",
                                    verdict=PAIRV, expect_all=False)
    run.trace_leg("pairs_full", ["machine", "kind=strictfull"], spec="TV_Pairs", cfg="TV_Pairs.cfg",
                  verdict=PAIRV, expect_all=False)
    # both runs of each pair follow the specification (conformance = drift for this property),
    # and the specification-level relation StrictRel holds from every validated state
    run.trace_leg("pairs_conf", ["machine", "kind=strictpairs"], verdict=["strictrel", "panic"], path=path)
    run.trace_leg("rand_rel", ["machine", "kind=rand", "strict=50"], verdict=["strictrel", "panic"])
    # RP: the one-step behaviours of MC_Machine come in twins that differ in strict mode only; both are performed on real
    # simulators and form a pair (fully initialized machines: no strict error at all)
    r, path, n, rej = run.rp_leg("rp_machine", "MC_Machine", "MC_MachineRP.cfg", "machine", "MC_Machine_ops.ndjson",
                                 verdict=["strictrel", "panic"], workers=16, parallel=True)
    if path:
        run.trace_leg("rp_machine_rel", ["replay", "machine"], spec="TV_Pairs", cfg="TV_Pairs.cfg", verdict=PAIRV, expect_all=False, path=path)
    return run.finish(
        rule="RP: every one-step behaviour of the narrow configuration of MC_Machine (768 adversarial machines x 59 instruction words) "
             "performed on real simulators as strict-off / strict-on twins and related by TV_Pairs (on fully initialized machines "
             "strict mode reports no error at all; elsewhere it fails with a strict error or changes nothing).  TV: pairs of real runs driven in lockstep from identical states, strict off (A) and on (B): programs with "
             "jumps into OS memory and I/O pages, .blkw regions, stack-relative accesses, timers, keyboard input; "
             "TLC checks on every logged step that B fails with a strict error or equals A in outcome and full "
             "projection; on fully initialized machines B never reports a strict error; additionally the "
             "specification-level relation StrictRel(st) (both StepF variants evaluated from the same state) is "
             "checked at every validated state",
        level_note="the pair relation uses logged data only; predicting which steps strict mode rejects is conformance (drift)")


@check("C29")
def c29(run):
    run.trace_leg("load", ["machine", "kind=load"], verdict=CONF + ["newok"])
    # MC + RP: the statement of C29 on Machine!LoadBlocks for every object of one or two blocks of a small universe, each
    # case then performed with the real load_obj_file and validated
    run.rp_leg("rp_load", "MC_Load", "MC_Load.cfg", "load", "MC_Load_ops.ndjson", verdict=CONF + ["newok"], workers=8)
    return run.finish(
        rule="new simulators under Known/Seeded/Unseeded initialization (header = full memory as segments, checked by "
             "NewOK against the OS object image, the zeroed I/O page and the fill rule), then loads of generated "
             "objects (blocks inside the OS area, ending exactly at xFE00, .blkw regions, several blocks), repeated "
             "loads, loads after execution, objects with unresolved externals; after each load the diff of all "
             "65 536 words, registers and PC must equal Machine!LoadBlocks",
        level_note="the OS image is the projection of _os_obj_file() (its assembly is covered by C01)")


@check("C30")
def c30(run):
    run.trace_leg("reset", ["machine", "kind=reset"], verdict=CONF + ["newok", "kept"])
    # MC + RP: C30 stated on MachineProps!ResetOf for every machine reachable by up to 2 (thorough: 3) calls of a 26-call
    # alphabet; every maximal history is then performed on a real simulator, reset, probed, run, reset again
    run.rp_leg("rp_reset", "MC_Reset", "MC_Reset.cfg", "reset", "MC_Reset_ops.ndjson",
               verdict=CONF + ["newok", "kept", "nsteps", "pause"], workers=8)
    if run.tier == "thorough":
        # depth 3 over the alphabet without the strategy change (a reset into another fill value logs a diff of 52 000
        # words; two thousand such histories would be gigabytes of trace): 15 625 histories
        run.rp_leg("rp_reset3", "MC_Reset", "MC_Reset3.cfg", "reset", "MC_Reset_ops3.ndjson",
                   verdict=CONF + ["newok", "kept", "nsteps", "pause"], workers=8, parallel=True)
    return run.finish(
        rule="MC: on every machine reachable by up to 2 (thorough: 3) calls out of 26 (pokes, steps, flag and initialization-strategy changes, devices and timers "
             "attached and removed, keyboard/display removed, internal registers mapped/unmapped/rebound, MCR set, port writes, "
             "keys, a breakpoint, a load, a subroutine definition, reset itself: 703 states; thorough also depth 3 without the strategy change: 16 276 states) TLC evaluates the statement of "
             "C30 on ResetOf (execution state of a new machine for the current flags, configuration kept, devices io_reset, reset "
             "idempotent).  RP: each of the 676 (thorough: and 15 625) maximal histories is performed on a real simulator, followed by reset, probes "
             "through the kept ports and mappings, a bounded run that the kept breakpoint must stop, a second reset and two steps; "
             "TV_Machine validates every call.  TV: random histories (loads, steps, register/memory pokes, flag changes, breakpoints, timer and register "
             "devices, internal-register mappings, keyboard IE) followed by reset, twice per run, for Known and Seeded "
             "strategies; TLC requires the post-reset projection (incl. full memory diff) to equal ResetTo = the "
             "run's fresh header with flags/MCR/mappings/devices kept and devices io_reset; probes through the "
             "mappings after reset; MCR Arc identity and breakpoint count logged",
        level_note="Unseeded strategy excluded (the property restricts itself to deterministic strategies)")


@check("C31")
def c31(run):
    r, path, n, rej = run.trace_leg("repro", ["machine", "kind=repro"], spec="TV_Pairs", cfg="TV_Pairs.cfg",
                                    verdict=PAIRV, expect_all=False, timeout=9000)
    run.trace_leg("repro_conf", ["machine", "kind=repro"], verdict=["newok", "panic"], path=path, timeout=9000)
    # seeded timers driven directly (exact ranges widened later, range notations, toggles): same seed, same sequence
    run.trace_leg("timer_seed", ["timer"], spec="TV_Pairs", cfg="TV_Pairs.cfg", verdict=PAIRV, expect_all=False)
    return run.finish(
        rule="two independent real runs per configuration (Known / Seeded strategy, seeded timers, keyboard input, "
             "harness interrupts): TLC requires the two event sequences to be identical field by field (header with "
             "the full initial memory, every step's registers, PC, PSR, memory diff, interrupts taken, output); "
             "NewOK checks the Known strategy initializes every register and every word outside the OS image and "
             "the I/O page to the given value, uninitialized",
        level_note="both runs are also validated stepwise against Machine (drift only here)")


# --------------------------------------------------------------------------

def replay(pid, path):
    with open(path) as f:
        rp = json.load(f)
    log("replaying %s: %s" % (path, rp.get("what")))
    build()
    run = Run(pid, rp.get("tier", "quick"), int(rp.get("seed", 1)))
    if rp["kind"] == "table":
        # 1. the recorded record against the specification
        if rp.get("record") is not None:
            p = os.path.join(run.work, "recorded.ndjson")
            with open(p, "w") as f:
                f.write(json.dumps(rp["record"]) + "\n")
            r = run_tlc(rp["spec"], rp["cfg"], os.path.join(run.work, "tlc_recorded"), env={"TRACE": p}, workers=1)
            log("recorded event %s by the specification" % ("REJECTED" if r.violations else "accepted"))
        # 2. the same call on the current tree
        r, path2, n, bad = run.table_leg(rp["leg"], rp["emit"], spec=rp["spec"], cfg=rp["cfg"])
        if bad:
            log("current tree: %d records rejected (first %d)" % (len(bad), bad[0]))
            log("VIOLATION property=%s replay=%s" % (pid, path))
            return 1
        log("current tree: all %d records accepted" % n)
        return 0
    elif rp["kind"] == "mc":
        env = rp.get("env") or {}
        if "OSIMG" in env:      # the OS image is exported afresh from the current tree
            env["OSIMG"], _ = run.emit("os", ["emit", "os"])
        r = run.mc_leg(rp["leg"], rp["spec"], rp["cfg"], env=env)
        if r.violations:
            log("VIOLATION property=%s replay=%s" % (pid, path))
            return 1
        return 0
    else:
        fn = REPLAYERS.get(rp["kind"])
        if fn is None:
            raise ToolError("unknown replay kind " + rp["kind"])
        return fn(run, rp, path)


def replay_trace(run, rp, path):
    """Re-drive the implementation with the recorded seed/arguments and validate again."""
    r, p2, n, rejected = run.trace_leg(rp["leg"], rp["emit"], spec=rp["spec"], cfg=rp["cfg"],
                                       verdict=rp.get("verdict"))
    hard = [v for v in run.violations]
    if hard:
        for v in hard[:5]:
            log("  still rejected: %s" % v["what"])
        log("VIOLATION property=%s replay=%s" % (run.pid, path))
        return 1
    log("current tree: all %d events accepted (recorded event was line %s: %s)" % (n, rp.get("line"), rp.get("why")))
    return 0


def replay_rec(run, rp, path):
    """1. the recorded record against the specification; 2. the same scenario family on the current tree."""
    if rp.get("record") is not None and "truncated" not in rp["record"]:
        p = os.path.join(run.work, "recorded.ndjson")
        with open(p, "w") as f:
            f.write(json.dumps(rp["record"]) + "\n")
        r = run_tlc(rp["spec"], rp["cfg"], os.path.join(run.work, "tlc_recorded"), env={"TRACE": p}, workers=1, depth_first=False)
        log("recorded record %s by the specification" % ("REJECTED" if r.violations else "accepted"))
    r, p2, n, rejected = run.rec_leg(rp["leg"], rp["emit"], spec=rp["spec"], cfg=rp["cfg"], verdict=rp.get("verdict"))
    if run.violations:
        for v in run.violations[:5]:
            log("  still rejected: %s" % v["what"])
        log("VIOLATION property=%s replay=%s" % (run.pid, path))
        return 1
    log("current tree: all %d records accepted (recorded record was line %s: %s)" % (n, rp.get("line"), rp.get("why")))
    return 0


REPLAYERS = {"trace": replay_trace, "rec": replay_rec}


def main(argv):
    if len(argv) < 2:
        print(__doc__)
        return 2
    cmd = argv[1]
    tier = os.environ.get("VERIF_TIER", "quick")
    seed = int(os.environ.get("VERIF_SEED", "1"))
    rp = None
    i = 2
    while i < len(argv):
        if argv[i] == "--tier":
            tier = argv[i + 1]; i += 2
        elif argv[i] == "--seed":
            seed = int(argv[i + 1]); i += 2
        elif argv[i] == "--replay":
            rp = argv[i + 1]; i += 2
        else:
            i += 1
    try:
        if cmd == "build":
            log("built harness in %.1fs" % build())
            return 0
        if cmd == "list":
            for k in sorted(CHECKS):
                print(k)
            return 0
        if cmd == "selftest":
            import selftest
            return selftest.main(sys.modules[__name__], argv[2:])
        if cmd not in CHECKS:
            sys.stderr.write("no check for %s\n" % cmd)
            return 2
        if rp:
            return replay(cmd, rp)
        build()
        run = Run(cmd, tier, seed)
        return CHECKS[cmd](run)
    except ToolError as e:
        sys.stderr.write("TOOL-ERROR: %s\n" % e)
        return 2


if __name__ == "__main__":
    sys.exit(main(sys.argv))
