#!/usr/bin/env python3
"""Self-tests of the verification machinery (./check.py selftest [names...]).

Demonstrates that the specification is BOUND to the implementation: for every trace
specification a small trace is recorded from the real crate and accepted as it is; then
one logged field is corrupted (or one event dropped) and TLC must reject exactly that
record / event.  A specification that constrained nothing would accept both.

Exit 0 if every demonstration behaves as expected, 1 otherwise (never prints VIOLATION).
"""
import copy, json, os, re, shutil, sys


def load(path):
    with open(path) as f:
        return [json.loads(l) for l in f]


def dump(path, recs):
    with open(path, "w") as f:
        for r in recs:
            f.write(json.dumps(r) + "\n")


def rejected_lines(ck, spec, cfg, path, work, idx_var):
    r = ck.run_tlc(spec, cfg, work, env={"TRACE": path}, workers=4, depth_first=(idx_var == "l" and spec in ("TV_Machine", "TV_Timer")))
    out = {}
    for v in r.violations:
        last = v["states"][-1] if v["states"] else {}
        if idx_var in last:
            out.setdefault(int(last[idx_var]), set()).update(re.findall(r'"([^"]+)"', last.get("why", "")))
    return out, r


# each case: name, emit args, spec, cfg, index variable, mutation(recs) -> (recs', expected rejected line or None, note)
def first(recs, pred):
    for k, r in enumerate(recs):
        if pred(r):
            return k
    raise RuntimeError("no record for the mutation")


def m_decode(recs):
    k = first(recs, lambda r: r["ev"] == "Decode" and r["ok"] == 1)
    recs[k]["i"]["a"] = (recs[k]["i"]["a"] + 1) % 8
    return recs, k + 1, "decoded register field changed"


def m_offset(recs):
    k = first(recs, lambda r: r["ev"] == "Offset" and r["new_ok"] == 1)
    recs[k]["new_ok"] = 0
    return recs, k + 1, "accepted offset logged as rejected"


def m_srcinfo(recs):
    k = first(recs, lambda r: r["ev"] == "SrcInfo" and len(r["src"]) >= 3)
    recs[k]["pos"][2][2] += 1
    return recs, k + 1, "column of one position changed"


def m_asm_word(recs):
    k = first(recs, lambda r: r["ev"] == "Asm" and r["res"] == "ok" and r["obj"]["blocks"] and "gen" in r)
    w = recs[k]["obj"]["blocks"][0]["w"]
    w[0] = 0x1234 if w[0] != 0x1234 else 0x4321
    return recs, k + 1, "one word of the assembled image changed"


def m_asm_accept(recs):
    k = first(recs, lambda r: r["ev"] == "Asm" and r["res"] not in ("ok", "noparse", "panic") and "gen" in r)
    recs[k]["res"] = "ok"
    return recs, k + 1, "a rejected program logged as accepted"


def m_link_label(recs):
    k = first(recs, lambda r: r["ev"] == "Link" and any(s["res"] == "ok" and r["objs"][s["out"] - 1]["obj"]["st"]["labels"] for s in r["steps"]))
    s = [s for s in recs[k]["steps"] if s["res"] == "ok" and recs[k]["objs"][s["out"] - 1]["obj"]["st"]["labels"]][0]
    recs[k]["objs"][s["out"] - 1]["obj"]["st"]["labels"][0]["a"] ^= 1
    return recs, k + 1, "address of one label of a link result changed"


def m_rt(recs):
    k = first(recs, lambda r: r["ev"] == "Rt")
    recs[k]["rt"]["bin"]["eq"] = 0
    return recs, k + 1, "binary round trip logged as unequal"


def m_untrusted(recs):
    k = first(recs, lambda r: r["ev"] == "Untrusted" and r["deser"] == "accept" and r["links"])
    recs[k]["links"][0]["panic"] = 1
    return recs, k + 1, "a link of an untrusted object logged as panicking"


def m_parse(recs):
    k = first(recs, lambda r: r["ev"] == "Parse" and r["variants"][0]["res"] == "ok" and r["variants"][0]["stmts"])
    recs[k]["variants"][0]["stmts"][0]["e"] += 1
    return recs, k + 1, "end of one statement span moved by one byte"


def m_num(recs):
    k = first(recs, lambda r: r["ev"] == "Num" and r["tok"]["k"] in ("U", "S") and r["tok"]["v"] != 0)
    recs[k]["tok"]["v"] += 1 if recs[k]["tok"]["v"] < 0 else -1
    return recs, k + 1, "value of a numeric token changed"


def m_print(recs):
    k = first(recs, lambda r: r["ev"] == "Print" and r["re"]["res"] == "ok" and r["re"]["stmts"])
    recs[k]["re"]["stmts"][0]["n"]["a"] += 1
    return recs, k + 1, "operand of the reparsed statement changed"


def m_garbage(recs):
    k = first(recs, lambda r: r["ev"] == "Garbage" and r["res"] == "err")
    recs[k]["span"][1] = recs[k]["len"] + 1
    return recs, k + 1, "error span moved past the end of the input"


def m_machine_pc(recs):
    k = first(recs, lambda r: r["ev"] == "Step" and r["res"] == "ok")
    recs[k]["proj"]["pc"] = (recs[k]["proj"]["pc"] + 1) % 65536
    return recs, k + 1, "PC after one step changed"


def m_machine_drop(recs):
    ks = [k for k, r in enumerate(recs) if r["ev"] == "Step" and r["res"] == "ok" and r["proj"]["icount"] > 0]
    k = ks[2]
    del recs[k]
    return recs, k + 1, "one Step event removed (the following event no longer matches)"


def m_timer(recs):
    k = first(recs, lambda r: r["ev"] == "TPoll" and r["fired"] == 0)
    recs[k]["fired"] = 1
    return recs, k + 1, "a poll logged as firing"


def m_fmt_view(recs):
    k = first(recs, lambda r: r["ev"] == "Fmt" and r["kind"] == "written" and r["view"]["labels"])
    recs[k]["view"]["labels"][0]["a"] ^= 1
    return recs, k + 1, "address of a label in the view of a written object changed"


def m_fmt_accept(recs):
    k = first(recs, lambda r: r["ev"] == "Fmt" and r["kind"] == "read" and r["deser"] == "reject")
    recs[k]["deser"] = "accept"
    return recs, k + 1, "a rejected file logged as accepted"


def m_fmt_byte(recs):
    k = first(recs, lambda r: r["ev"] == "Fmt" and r["kind"] == "read" and r["deser"] == "accept" and r["view"]["blocks"] and r["view"]["blocks"][0]["w"])
    recs[k]["view"]["blocks"][0]["w"][0] = 0x1234 if recs[k]["view"]["blocks"][0]["w"][0] != 0x1234 else 0x4321
    return recs, k + 1, "a word of the object the reader built changed"


def m_fmt_txt(recs):
    k = first(recs, lambda r: r["ev"] == "Fmt" and r["kind"] == "txt" and len(r["input"]) > 60)
    recs[k]["input"][40] ^= 1
    return recs, k + 1, "one byte of the text written by the real writer changed"


def m_reset_fill(recs):
    # the reset that follows a change of the initialization strategy: one register of the new machine changed
    k = first(recs, lambda r: r["ev"] == "Host" and r.get("op") == "reset")
    recs[k]["proj"]["regs"][3][0] ^= 1
    return recs, k + 1, "a register of the machine built by reset changed"


CASES = [
    ("tables-decode", ["decode"], "TV_Tables", "TV_Tables.cfg", "i", m_decode, 3000),
    ("tables-offset", ["offset"], "TV_Tables", "TV_Tables.cfg", "i", m_offset, 2000),
    ("tables-srcinfo", ["srcinfo", "len=2", "rand=20"], "TV_Tables", "TV_Tables.cfg", "i", m_srcinfo, 0),
    ("asm-image", ["asm", "n=40", "os=0", "bound=0"], "TV_Asm", "TV_Asm.cfg", "l", m_asm_word, 0),
    ("asm-accept", ["asm", "n=40", "os=0", "bound=0", "faults=80"], "TV_Asm", "TV_Asm.cfg", "l", m_asm_accept, 0),
    ("link-label", ["link", "n=25"], "TV_Asm", "TV_Asm.cfg", "l", m_link_label, 0),
    ("roundtrip", ["rt", "n=10"], "TV_Asm", "TV_Asm.cfg", "l", m_rt, 0),
    ("untrusted", ["untrusted", "n=120"], "TV_Asm", "TV_Asm.cfg", "l", m_untrusted, 0),
    ("parse-span", ["parse", "n=15"], "TV_Parse", "TV_Parse.cfg", "l", m_parse, 0),
    ("num-token", ["num"], "TV_Parse", "TV_Parse.cfg", "l", m_num, 2500),
    ("print", ["print", "n=3"], "TV_Parse", "TV_Parse.cfg", "l", m_print, 0),
    ("garbage-span", ["garbage", "len=2", "rand=50", "mut=50"], "TV_Parse", "TV_Parse.cfg", "l", m_garbage, 0),
    ("machine-pc", ["machine", "kind=prog"], "TV_Machine", "TV_Machine.cfg", "l", m_machine_pc, 0),
    ("machine-drop", ["machine", "kind=prog"], "TV_Machine", "TV_Machine.cfg", "l", m_machine_drop, 0),
    ("machine-int-pc", ["machine", "kind=int", "timers=1"], "TV_Machine", "TV_Machine.cfg", "l", m_machine_pc, 0),
    ("machine-dev-pc", ["machine", "kind=devices"], "TV_Machine", "TV_Machine.cfg", "l", m_machine_pc, 0),
    ("timer-fired", ["timer"], "TV_Timer", "TV_Timer.cfg", "l", m_timer, 0),
    ("fmt-view", ["fmt", "n=60"], "TV_Fmt", "TV_Fmt.cfg", "l", m_fmt_view, 0),
    ("fmt-accept", ["fmt", "n=60"], "TV_Fmt", "TV_Fmt.cfg", "l", m_fmt_accept, 0),
    ("fmt-word", ["fmt", "n=60"], "TV_Fmt", "TV_Fmt.cfg", "l", m_fmt_byte, 0),
    ("fmt-text", ["fmt", "n=20"], "TV_Fmt", "TV_Fmt.cfg", "l", m_fmt_txt, 0),
    # replayed behaviours (specification -> implementation -> specification): headers of kind `pattern` / `light`
    ("rp-machine-pc", ["replay", "machine", "@hist:[12288,32768,12288,65535,12288,0,0,1,4095]\n[65023,2,65023,0,65024,0,1,2,32768]\n",
                       "@ops:MC_Machine_ops.ndjson"], "TV_Machine", "TV_Machine.cfg", "l", m_machine_pc, 0),
    ("rp-reset-fill", ["replay", "reset", "@hist:[26,1]\n[5,4]\n", "@ops:MC_Reset_ops.ndjson"], "TV_Machine", "TV_Machine.cfg", "l", m_reset_fill, 0),
]


def main(ck, argv):
    ck.build()
    want = set(argv)
    work = os.path.join(ck.WORK, "selftest")
    shutil.rmtree(work, ignore_errors=True)
    os.makedirs(work, exist_ok=True)
    bad = 0
    for name, emit, spec, cfg, idx, mut, cut in CASES:
        if want and name not in want:
            continue
        base = os.path.join(work, name + ".ndjson")
        if emit[0] == "replay":
            args = []
            for a in emit:
                if a.startswith("@hist:"):
                    hp = os.path.join(work, name + ".hist")
                    with open(hp, "w") as f:
                        f.write(a[len("@hist:"):])
                    a = "hist=" + hp
                elif a.startswith("@ops:"):
                    a = "ops=" + os.path.join(ck.SPEC, a[len("@ops:"):])
                args.append(a)
            ck.lc3v(args, base, 1, "quick")
        else:
            ck.lc3v(["emit"] + emit, base, 1, "quick")
        recs = load(base)
        if cut and len(recs) > cut:
            recs = recs[:cut]
            dump(base, recs)
        # machine traces start with an `Os` record that is not an event of a run
        clean, _ = rejected_lines(ck, spec, cfg, base, os.path.join(work, "tlc_" + name + "_a"), idx)
        mrecs, line, note = mut(copy.deepcopy(recs))
        mpath = os.path.join(work, name + ".mut.ndjson")
        dump(mpath, mrecs)
        rej, _ = rejected_lines(ck, spec, cfg, mpath, os.path.join(work, "tlc_" + name + "_b"), idx)
        exp = line
        ok = (not clean) and (exp in rej)
        ck.log("selftest %-15s %s: unchanged trace %s; %s -> %s" % (
            name, "ok" if ok else "FAILED", "accepted" if not clean else "REJECTED at %s" % sorted(clean)[:3], note,
            ("rejected at record %d %s" % (exp, sorted(rej.get(exp, []))) if exp in rej else "NOT rejected (rejected: %s)" % sorted(rej)[:3])))
        if not ok:
            bad += 1
    ck.log("selftest: %d failed" % bad)
    return 1 if bad else 0
